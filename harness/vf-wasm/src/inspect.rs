//! The harness's own reading of a WebAssembly binary (wasmparser 0.244 — the engine uses 0.107 and
//! radix-wasm-instrument's ModuleInfo), and the sandbox rules of C45 expressed over it.

use crate::watgen::{host_fn, Ty, LIM_BR_TABLE, LIM_FUNCTIONS, LIM_GLOBALS, LIM_LOCALS, LIM_MEMORY_PAGES, LIM_PARAMS, LIM_TABLE};
use wasmparser::{CompositeInnerType, ElementItems, ExternalKind, Operator, Parser, Payload, TypeRef, ValType, Validator, WasmFeatures};

#[derive(Clone, Debug, PartialEq, Eq)]
pub struct FnType {
    pub params: Vec<ValType>,
    pub results: Vec<ValType>,
}

#[derive(Clone, Debug)]
pub enum ImportKind {
    Func(u32),
    Other(&'static str),
}

pub struct Body<'a> {
    /// total number of declared locals (parameters excluded)
    pub locals: u64,
    pub local_types: Vec<ValType>,
    pub ops: Vec<Operator<'a>>,
}

pub struct Info<'a> {
    pub types: Vec<Option<FnType>>,
    pub imports: Vec<(String, String, ImportKind)>,
    pub imported_funcs: u32,
    pub imported_globals: u32,
    pub imported_memories: u32,
    pub imported_tables: u32,
    /// type index of every local function
    pub func_types: Vec<u32>,
    pub tables: Vec<(u64, Option<u64>)>,
    pub memories: Vec<(u64, Option<u64>)>,
    pub globals: Vec<(ValType, bool)>,
    /// (value type, mutable, init expression ops rendered)
    pub global_inits: Vec<String>,
    pub exports: Vec<(String, ExternalKind, u32)>,
    pub start: Option<u32>,
    pub elems: Vec<Vec<u32>>,
    pub bodies: Vec<Body<'a>>,
}

/// Features of the sandbox: MVP + mutable globals + sign extension (floats are left enabled here,
/// the float rule is judged by the harness's own scan).
pub fn sandbox_features(floats: bool) -> WasmFeatures {
    let mut f = WasmFeatures::WASM1 | WasmFeatures::SIGN_EXTENSION;
    if !floats {
        f.remove(WasmFeatures::FLOATS);
    }
    f
}

/// Is `bytes` a valid module under the sandbox's feature set (according to wasmparser 0.244)?
pub fn validates(bytes: &[u8], floats: bool) -> Result<(), String> {
    Validator::new_with_features(sandbox_features(floats)).validate_all(bytes).map(|_| ()).map_err(|e| e.to_string())
}

pub fn parse(bytes: &[u8]) -> Result<Info<'_>, String> {
    let mut info = Info {
        types: vec![],
        imports: vec![],
        imported_funcs: 0,
        imported_globals: 0,
        imported_memories: 0,
        imported_tables: 0,
        func_types: vec![],
        tables: vec![],
        memories: vec![],
        globals: vec![],
        global_inits: vec![],
        exports: vec![],
        start: None,
        elems: vec![],
        bodies: vec![],
    };
    let e = |e: wasmparser::BinaryReaderError| e.to_string();
    for payload in Parser::new(0).parse_all(bytes) {
        match payload.map_err(e)? {
            Payload::TypeSection(r) => {
                for group in r {
                    for sub in group.map_err(e)?.into_types() {
                        match sub.composite_type.inner {
                            CompositeInnerType::Func(ft) => info.types.push(Some(FnType { params: ft.params().to_vec(), results: ft.results().to_vec() })),
                            _ => info.types.push(None),
                        }
                    }
                }
            }
            Payload::ImportSection(r) => {
                for imp in r.into_imports() {
                    let imp = imp.map_err(e)?;
                    let kind = match imp.ty {
                        TypeRef::Func(t) | TypeRef::FuncExact(t) => {
                            info.imported_funcs += 1;
                            ImportKind::Func(t)
                        }
                        TypeRef::Global(gt) => {
                            info.imported_globals += 1;
                            info.globals.push((gt.content_type, gt.mutable));
                            info.global_inits.push("<imported>".into());
                            ImportKind::Other("global")
                        }
                        TypeRef::Memory(mt) => {
                            info.imported_memories += 1;
                            info.memories.push((mt.initial, mt.maximum));
                            ImportKind::Other("memory")
                        }
                        TypeRef::Table(tt) => {
                            info.imported_tables += 1;
                            info.tables.push((tt.initial, tt.maximum));
                            ImportKind::Other("table")
                        }
                        TypeRef::Tag(_) => ImportKind::Other("tag"),
                    };
                    info.imports.push((imp.module.to_string(), imp.name.to_string(), kind));
                }
            }
            Payload::FunctionSection(r) => {
                for t in r {
                    info.func_types.push(t.map_err(e)?);
                }
            }
            Payload::TableSection(r) => {
                for t in r {
                    let t = t.map_err(e)?;
                    info.tables.push((t.ty.initial, t.ty.maximum));
                }
            }
            Payload::MemorySection(r) => {
                for m in r {
                    let m = m.map_err(e)?;
                    info.memories.push((m.initial, m.maximum));
                }
            }
            Payload::GlobalSection(r) => {
                for gl in r {
                    let gl = gl.map_err(e)?;
                    info.globals.push((gl.ty.content_type, gl.ty.mutable));
                    let mut s = String::new();
                    for op in gl.init_expr.get_operators_reader() {
                        s.push_str(&format!("{:?};", op.map_err(e)?));
                    }
                    info.global_inits.push(s);
                }
            }
            Payload::ExportSection(r) => {
                for x in r {
                    let x = x.map_err(e)?;
                    info.exports.push((x.name.to_string(), x.kind, x.index));
                }
            }
            Payload::StartSection { func, .. } => info.start = Some(func),
            Payload::ElementSection(r) => {
                for el in r {
                    let el = el.map_err(e)?;
                    let mut v = vec![];
                    if let ElementItems::Functions(fs) = el.items {
                        for f in fs {
                            v.push(f.map_err(e)?);
                        }
                    }
                    info.elems.push(v);
                }
            }
            Payload::CodeSectionEntry(body) => {
                let mut locals = 0u64;
                let mut local_types = vec![];
                for l in body.get_locals_reader().map_err(e)? {
                    let (n, t) = l.map_err(e)?;
                    locals += n as u64;
                    if !local_types.contains(&t) {
                        local_types.push(t);
                    }
                }
                let mut ops = vec![];
                for op in body.get_operators_reader().map_err(e)? {
                    ops.push(op.map_err(e)?);
                }
                info.bodies.push(Body { locals, local_types, ops });
            }
            _ => {}
        }
    }
    Ok(info)
}

fn is_float(t: &ValType) -> bool {
    matches!(t, ValType::F32 | ValType::F64)
}

/// Name of the operator's variant.
pub fn op_name(op: &Operator) -> String {
    let s = format!("{:?}", op);
    s.split(|c: char| !c.is_alphanumeric()).next().unwrap_or("").to_string()
}

impl<'a> Info<'a> {
    pub fn type_of_local_func(&self, local_idx: usize) -> Option<&FnType> {
        self.types.get(*self.func_types.get(local_idx)? as usize)?.as_ref()
    }
    /// Type of a function in the function index space.
    pub fn type_of_func(&self, idx: u32) -> Option<&FnType> {
        if idx < self.imported_funcs {
            let mut k = 0;
            for (_, _, kind) in &self.imports {
                if let ImportKind::Func(t) = kind {
                    if k == idx {
                        return self.types.get(*t as usize)?.as_ref();
                    }
                    k += 1;
                }
            }
            None
        } else {
            self.type_of_local_func((idx - self.imported_funcs) as usize)
        }
    }

    /// First place where floating point appears, if any.
    pub fn float_use(&self) -> Option<String> {
        for (i, t) in self.types.iter().enumerate() {
            if let Some(t) = t {
                if t.params.iter().chain(t.results.iter()).any(is_float) {
                    return Some(format!("type {}", i));
                }
            }
        }
        for (i, (t, _)) in self.globals.iter().enumerate() {
            if is_float(t) {
                return Some(format!("global {}", i));
            }
        }
        for (i, b) in self.bodies.iter().enumerate() {
            if b.local_types.iter().any(is_float) {
                return Some(format!("local of function {}", i));
            }
            for op in &b.ops {
                // every floating point operator carries F32/F64 in its name (F32Add, I32TruncF64S,
                // I64ReinterpretF64, F64Load, F32Const, ...); cheap pre-filter on the common ones
                match op {
                    Operator::LocalGet { .. } | Operator::LocalSet { .. } | Operator::I32Const { .. } | Operator::I64Const { .. } | Operator::End | Operator::Call { .. } => continue,
                    _ => {}
                }
                let n = op_name(op);
                if n.contains("F32") || n.contains("F64") {
                    return Some(format!("operator {} in function {}", n, i));
                }
            }
        }
        for (i, s) in self.global_inits.iter().enumerate() {
            if s.contains("F32") || s.contains("F64") {
                return Some(format!("initialiser of global {}", i));
            }
        }
        None
    }

    pub fn max_br_table(&self) -> u32 {
        let mut m = 0;
        for b in &self.bodies {
            for op in &b.ops {
                if let Operator::BrTable { targets } = op {
                    m = m.max(targets.len());
                }
            }
        }
        m
    }

    /// The first import that is not a permitted host function for `version` (0,1,2).
    pub fn bad_import(&self, version: u8, allow_gas: bool) -> Option<String> {
        let mut gas_seen = 0;
        for (module, name, kind) in &self.imports {
            if module != "env" {
                return Some(format!("import from module {:?}", module));
            }
            let t = match kind {
                ImportKind::Func(t) => match self.types.get(*t as usize).and_then(|x| x.as_ref()) {
                    Some(t) => t,
                    None => return Some(format!("import {} has no function type", name)),
                },
                ImportKind::Other(k) => return Some(format!("{} import env.{}", k, name)),
            };
            if allow_gas && name == "gas" {
                gas_seen += 1;
                if gas_seen > 1 || t.params != vec![ValType::I64] || !t.results.is_empty() {
                    return Some("gas import duplicated or of the wrong type".into());
                }
                continue;
            }
            let h = match host_fn(name) {
                Some(h) => h,
                None => return Some(format!("env.{} is not a host function", name)),
            };
            if h.min_version > version {
                return Some(format!("env.{} needs VM version {} > {}", name, h.min_version, version));
            }
            let conv = |t: &Ty| match t {
                Ty::I32 => ValType::I32,
                Ty::I64 => ValType::I64,
                Ty::F32 => ValType::F32,
                Ty::F64 => ValType::F64,
            };
            let params: Vec<ValType> = h.params.iter().map(conv).collect();
            let results: Vec<ValType> = h.result.iter().map(conv).collect();
            if t.params != params || t.results != results {
                return Some(format!("env.{} imported with type {:?} -> {:?}", name, t.params, t.results));
            }
        }
        None
    }

    /// The sandbox rule an *input* module breaks, if any: (class, detail).
    pub fn violation(&self, version: u8) -> Option<(&'static str, String)> {
        if let Some(f) = self.float_use() {
            return Some(("floating point", f));
        }
        if self.start.is_some() {
            return Some(("start function", format!("start = {:?}", self.start)));
        }
        if let Some(b) = self.bad_import(version, false) {
            return Some(("forbidden import", b));
        }
        if self.memories.len() != 1 {
            return Some(("not exactly one memory", format!("{} memories", self.memories.len())));
        }
        let (initial, max) = self.memories[0];
        if initial > LIM_MEMORY_PAGES as u64 || max.map(|m| m > LIM_MEMORY_PAGES as u64).unwrap_or(false) {
            return Some(("memory above the limit", format!("memory {}..{:?} pages", initial, max)));
        }
        if self.imported_memories != 0 || !self.exports.iter().any(|(n, k, i)| n == "memory" && *k == ExternalKind::Memory && *i == 0) {
            return Some(("memory not exported as \"memory\"", format!("exports {:?}", self.exports)));
        }
        if let Some((initial, _)) = self.tables.first() {
            if *initial > LIM_TABLE as u64 {
                return Some(("table above the limit", format!("table of {} entries", initial)));
            }
        }
        if self.func_types.len() as u64 > LIM_FUNCTIONS as u64 {
            return Some(("too many functions", format!("{} functions", self.func_types.len())));
        }
        for i in 0..self.func_types.len() {
            if let Some(t) = self.type_of_local_func(i) {
                if t.params.len() > LIM_PARAMS as usize {
                    return Some((
                        "too many function parameters",
                        format!("local function {} of {} (after {} imported functions) has {} parameters", i, self.func_types.len(), self.imported_funcs, t.params.len()),
                    ));
                }
            }
        }
        for (i, b) in self.bodies.iter().enumerate() {
            if b.locals > LIM_LOCALS as u64 {
                return Some(("too many locals", format!("function {} has {} locals", i, b.locals)));
            }
        }
        let local_globals = self.globals.len() as u64 - self.imported_globals as u64;
        if local_globals > LIM_GLOBALS as u64 {
            return Some(("too many globals", format!("{} globals", local_globals)));
        }
        if self.max_br_table() > LIM_BR_TABLE {
            return Some(("oversize br_table", format!("br_table with {} targets", self.max_br_table())));
        }
        None
    }
}
