//! The harness's own full-ledger scan: enumerates every node from the raw database, decodes vaults
//! and resource managers directly from their substates (no engine logic, no receipt summaries), and
//! totals them. Used by conservation / supply / failure-isolation checks.

use scrypto_test::prelude::*;
use radix_engine::system::type_info::TypeInfoSubstate;
use std::collections::{BTreeMap, BTreeSet};

#[derive(Clone, Debug, Default, PartialEq, Eq)]
pub struct Totals {
    /// Σ balances of all fungible vaults, per resource
    pub fungible_vault_sum: BTreeMap<ResourceAddress, Decimal>,
    /// every fungible vault: (resource, balance)
    pub fungible_vaults: BTreeMap<NodeId, (ResourceAddress, Decimal)>,
    /// every non-fungible vault: (resource, stored amount counter, ids in the vault's index)
    pub non_fungible_vaults: BTreeMap<NodeId, (ResourceAddress, Decimal, BTreeSet<NonFungibleLocalId>)>,
    /// union of ids over vaults per resource (with multiplicity check done in `problems`)
    pub non_fungible_ids: BTreeMap<ResourceAddress, BTreeSet<NonFungibleLocalId>>,
    /// TotalSupply field of each resource manager, None when supply tracking is off
    pub supply: BTreeMap<ResourceAddress, Option<Decimal>>,
    /// structural problems met while scanning (negative balance, id in two vaults, count mismatch…)
    pub problems: Vec<String>,
    pub nodes: usize,
}

pub fn all_nodes<D: ListableSubstateDatabase>(db: &D) -> BTreeSet<NodeId> {
    let mut out = BTreeSet::new();
    for key in db.list_partition_keys() {
        let (node_id, _) = SpreadPrefixKeyMapper::from_db_partition_key(&key);
        out.insert(node_id);
    }
    out
}

pub fn type_info<D: SubstateDatabase>(db: &D, node: &NodeId) -> Option<TypeInfoSubstate> {
    db.get_substate::<TypeInfoSubstate>(node, TYPE_INFO_FIELD_PARTITION, TypeInfoField::TypeInfo)
}

fn outer_resource(info: &TypeInfoSubstate) -> Option<ResourceAddress> {
    match info {
        TypeInfoSubstate::Object(o) => match &o.blueprint_info.outer_obj_info {
            OuterObjectInfo::Some { outer_object } => ResourceAddress::try_from(outer_object.into_node_id()).ok(),
            OuterObjectInfo::None => None,
        },
        _ => None,
    }
}

pub fn fungible_vault_balance<D: SubstateDatabase>(db: &D, vault: &NodeId) -> Option<Decimal> {
    let s = db.get_substate::<FungibleVaultBalanceFieldSubstate>(vault, MAIN_BASE_PARTITION, FungibleVaultField::Balance)?;
    Some(s.into_payload().fully_update_and_into_latest_version().amount())
}

pub fn non_fungible_vault_contents<D: SubstateDatabase>(
    db: &D,
    vault: &NodeId,
) -> Option<(Decimal, BTreeSet<NonFungibleLocalId>)> {
    let s = db.get_substate::<NonFungibleVaultBalanceFieldSubstate>(vault, MAIN_BASE_PARTITION, NonFungibleVaultField::Balance)?;
    let amount = s.into_payload().fully_update_and_into_latest_version().amount;
    let ids: BTreeSet<NonFungibleLocalId> = db
        .list_map_values::<ScryptoValue>(vault, MAIN_BASE_PARTITION.at_offset(PartitionOffset(1u8)).unwrap(), None::<&MapKey>)
        .map(|(key, _)| scrypto_decode::<NonFungibleLocalId>(&key).expect("vault index key is a local id"))
        .collect();
    Some((amount, ids))
}

impl Totals {
    pub fn scan<D: SubstateDatabase + ListableSubstateDatabase>(db: &D) -> Totals {
        let mut t = Totals::default();
        let nodes = all_nodes(db);
        t.nodes = nodes.len();
        let mut id_owner: BTreeMap<(ResourceAddress, NonFungibleLocalId), NodeId> = BTreeMap::new();
        for node in &nodes {
            match node.entity_type() {
                Some(EntityType::InternalFungibleVault) => {
                    let Some(info) = type_info(db, node) else {
                        t.problems.push(format!("fungible vault {:?} has no type info", node));
                        continue;
                    };
                    let Some(res) = outer_resource(&info) else {
                        t.problems.push(format!("fungible vault {:?} has no outer resource", node));
                        continue;
                    };
                    let Some(bal) = fungible_vault_balance(db, node) else {
                        t.problems.push(format!("fungible vault {:?} has no balance field", node));
                        continue;
                    };
                    if bal.is_negative() {
                        t.problems.push(format!("fungible vault {:?} of {:?} has negative balance {}", node, res, bal));
                    }
                    let e = t.fungible_vault_sum.entry(res).or_insert(Decimal::ZERO);
                    match e.checked_add(bal) {
                        Some(s) => *e = s,
                        None => t.problems.push(format!("sum of vaults of {:?} overflows", res)),
                    }
                    t.fungible_vaults.insert(*node, (res, bal));
                }
                Some(EntityType::InternalNonFungibleVault) => {
                    let Some(info) = type_info(db, node) else {
                        t.problems.push(format!("nf vault {:?} has no type info", node));
                        continue;
                    };
                    let Some(res) = outer_resource(&info) else {
                        t.problems.push(format!("nf vault {:?} has no outer resource", node));
                        continue;
                    };
                    let Some((amount, ids)) = non_fungible_vault_contents(db, node) else {
                        t.problems.push(format!("nf vault {:?} has no balance field", node));
                        continue;
                    };
                    if amount != Decimal::from(ids.len() as u64) {
                        t.problems.push(format!(
                            "nf vault {:?} of {:?}: amount counter {} but {} ids stored",
                            node,
                            res,
                            amount,
                            ids.len()
                        ));
                    }
                    for id in &ids {
                        if let Some(prev) = id_owner.insert((res, id.clone()), *node) {
                            t.problems.push(format!("non-fungible {:?}:{} is in two vaults {:?} and {:?}", res, id, prev, node));
                        }
                        t.non_fungible_ids.entry(res).or_default().insert(id.clone());
                    }
                    t.non_fungible_ids.entry(res).or_default();
                    t.non_fungible_vaults.insert(*node, (res, amount, ids));
                }
                Some(EntityType::GlobalFungibleResourceManager) => {
                    let res = ResourceAddress::try_from(*node).unwrap();
                    let supply = db
                        .get_substate::<FungibleResourceManagerTotalSupplyFieldSubstate>(
                            node,
                            MAIN_BASE_PARTITION,
                            FungibleResourceManagerField::TotalSupply,
                        )
                        .map(|s| s.into_payload().fully_update_and_into_latest_version());
                    t.supply.insert(res, supply);
                }
                Some(EntityType::GlobalNonFungibleResourceManager) => {
                    let res = ResourceAddress::try_from(*node).unwrap();
                    let supply = db
                        .get_substate::<NonFungibleResourceManagerTotalSupplyFieldSubstate>(
                            node,
                            MAIN_BASE_PARTITION,
                            NonFungibleResourceManagerField::TotalSupply,
                        )
                        .map(|s| s.into_payload().fully_update_and_into_latest_version());
                    t.supply.insert(res, supply);
                }
                _ => {}
            }
        }
        t
    }

    /// Amount held in vaults for a resource (fungible sum, or number of non-fungible ids).
    pub fn held(&self, res: &ResourceAddress) -> Decimal {
        if let Some(ids) = self.non_fungible_ids.get(res) {
            return Decimal::from(ids.len() as u64);
        }
        self.fungible_vault_sum.get(res).copied().unwrap_or(Decimal::ZERO)
    }

    /// supply == Σ vaults for every supply-tracked resource; plus structural problems.
    pub fn supply_problems(&self) -> Vec<String> {
        let mut out = self.problems.clone();
        for (res, supply) in &self.supply {
            if let Some(s) = supply {
                let held = self.held(res);
                if *s != held {
                    out.push(format!("resource {:?}: total supply {} != sum of vaults {}", res, s, held));
                }
            }
        }
        out
    }
}
