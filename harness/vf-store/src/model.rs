//! R4: the model database and the generator of commit histories.
//!
//! The model is a `BTreeMap<(node key, partition, sort key), value>` with the Delta / Reset
//! semantics of `DatabaseUpdates` written out in a few lines. It uses its own plain representation
//! of a commit (`Commit`); the conversion to the repository's `DatabaseUpdates` is mechanical.
//!
//! Alphabets are deliberately small, so that overwrites, deletes of a partition's last substate,
//! resets of populated partitions and re-creation happen all the time.

use radix_common::types::NodeId;
use radix_substate_store_interface::db_key_mapper::{DatabaseKeyMapper, SpreadPrefixKeyMapper};
use radix_common::prelude::DatabaseUpdate;
use radix_substate_store_interface::interface::{
    DatabaseUpdates, DbSortKey, NodeDatabaseUpdates, PartitionDatabaseUpdates,
};
use std::collections::{BTreeMap, BTreeSet};
use vf_core::Gen;

pub type Key = (Vec<u8>, u8, Vec<u8>);

#[derive(Clone, Debug, PartialEq, Eq)]
pub enum PartUpdate {
    /// `Some(value)` = set, `None` = delete.
    Delta(Vec<(Vec<u8>, Option<Vec<u8>>)>),
    Reset(Vec<(Vec<u8>, Vec<u8>)>),
}

#[derive(Clone, Debug, PartialEq, Eq, Default)]
pub struct Commit {
    pub nodes: Vec<(Vec<u8>, Vec<(u8, PartUpdate)>)>,
}

#[derive(Clone, Debug, Default, PartialEq, Eq)]
pub struct Model {
    pub map: BTreeMap<Key, Vec<u8>>,
}

impl Model {
    pub fn apply(&mut self, c: &Commit) {
        for (node, parts) in &c.nodes {
            for (p, upd) in parts {
                match upd {
                    PartUpdate::Delta(items) => {
                        for (sk, v) in items {
                            let k = (node.clone(), *p, sk.clone());
                            match v {
                                Some(v) => {
                                    self.map.insert(k, v.clone());
                                }
                                None => {
                                    self.map.remove(&k);
                                }
                            }
                        }
                    }
                    PartUpdate::Reset(items) => {
                        self.map.retain(|k, _| !(k.0 == *node && k.1 == *p));
                        for (sk, v) in items {
                            self.map.insert((node.clone(), *p, sk.clone()), v.clone());
                        }
                    }
                }
            }
        }
    }

    pub fn get(&self, node: &[u8], p: u8, sk: &[u8]) -> Option<&Vec<u8>> {
        self.map.get(&(node.to_vec(), p, sk.to_vec()))
    }

    /// Entries of one partition in ascending sort-key order, starting at the first key ≥ `from`.
    pub fn list(&self, node: &[u8], p: u8, from: Option<&[u8]>) -> Vec<(Vec<u8>, Vec<u8>)> {
        self.map
            .iter()
            .filter(|(k, _)| k.0 == node && k.1 == p && from.map(|f| k.2.as_slice() >= f).unwrap_or(true))
            .map(|(k, v)| (k.2.clone(), v.clone()))
            .collect()
    }

    pub fn partitions(&self) -> BTreeSet<(Vec<u8>, u8)> {
        self.map.keys().map(|k| (k.0.clone(), k.1)).collect()
    }

    pub fn partition_len(&self, node: &[u8], p: u8) -> usize {
        self.map.keys().filter(|k| k.0 == node && k.1 == p).count()
    }
}

impl Commit {
    pub fn to_database_updates(&self) -> DatabaseUpdates {
        let mut out = DatabaseUpdates::default();
        for (node, parts) in &self.nodes {
            let mut n = NodeDatabaseUpdates::default();
            for (p, upd) in parts {
                let u = match upd {
                    PartUpdate::Delta(items) => PartitionDatabaseUpdates::Delta {
                        substate_updates: items
                            .iter()
                            .map(|(sk, v)| {
                                (
                                    DbSortKey(sk.clone()),
                                    match v {
                                        Some(v) => DatabaseUpdate::Set(v.clone()),
                                        None => DatabaseUpdate::Delete,
                                    },
                                )
                            })
                            .collect(),
                    },
                    PartUpdate::Reset(items) => PartitionDatabaseUpdates::Reset {
                        new_substate_values: items.iter().map(|(sk, v)| (DbSortKey(sk.clone()), v.clone())).collect(),
                    },
                };
                n.partition_updates.insert(*p, u);
            }
            out.node_updates.insert(node.clone(), n);
        }
        out
    }

    /// Number of substate-level changes named by the commit (a reset counts as one more).
    pub fn touched(&self) -> usize {
        self.nodes
            .iter()
            .flat_map(|(_, ps)| ps.iter())
            .map(|(_, u)| match u {
                PartUpdate::Delta(i) => i.len(),
                PartUpdate::Reset(i) => i.len() + 1,
            })
            .sum()
    }
}

pub fn hx(b: &[u8]) -> String {
    if b.len() <= 12 {
        hex::encode(b)
    } else {
        format!("{}..{}[{}B]", hex::encode(&b[..4]), hex::encode(&b[b.len() - 3..]), b.len())
    }
}

pub fn render_commit(c: &Commit) -> String {
    let mut s = String::new();
    for (node, parts) in &c.nodes {
        for (p, u) in parts {
            match u {
                PartUpdate::Delta(items) => {
                    s.push_str(&format!("{}/{} Δ{{", hx(node), p));
                    for (k, v) in items {
                        match v {
                            Some(v) => s.push_str(&format!("{}={} ", hx(k), hx(v))),
                            None => s.push_str(&format!("{}=del ", hx(k))),
                        }
                    }
                    s.push_str("} ");
                }
                PartUpdate::Reset(items) => {
                    s.push_str(&format!("{}/{} RESET{{", hx(node), p));
                    for (k, v) in items {
                        s.push_str(&format!("{}={} ", hx(k), hx(v)));
                    }
                    s.push_str("} ");
                }
            }
        }
    }
    s
}

pub fn render_model(m: &Model) -> String {
    let mut s = String::from("{");
    for (k, v) in &m.map {
        s.push_str(&format!("{}/{}/{}={} ", hx(&k.0), k.1, hx(&k.2), hx(v)));
    }
    s.push('}');
    s
}

// ---------------------------------------------------------------------------------------------
// Alphabets
// ---------------------------------------------------------------------------------------------

#[derive(Clone, Debug)]
pub struct Alphabet {
    pub nodes: Vec<Vec<u8>>,
    pub parts: Vec<u8>,
    /// Several sort-key alphabets; partition `(node i, partition j)` uses alphabet `(i + j) % n`.
    /// Each alphabet is prefix-free when the domain is (`Domain::prefix_free`).
    pub sorts: Vec<Vec<Vec<u8>>>,
}

impl Alphabet {
    pub fn sort_alpha(&self, ni: usize, pi: usize) -> &Vec<Vec<u8>> {
        &self.sorts[(ni + pi) % self.sorts.len()]
    }
}

#[derive(Clone, Copy, Debug)]
pub struct Domain {
    /// Node keys pairwise prefix-free and sort keys prefix-free within a partition: the
    /// precondition of the Merkle tiers (guaranteed by `SpreadPrefixKeyMapper` for real callers).
    pub prefix_free: bool,
    pub max_nodes: usize,
    pub max_parts: usize,
    pub max_sort_alphas: usize,
    pub max_sort_keys: usize,
    pub max_key_len: usize,
    /// Allow a few keys of the maximal size real callers can produce (sorted key: 2+20+1024).
    pub long_keys: bool,
}

fn is_prefix(a: &[u8], b: &[u8]) -> bool {
    a.len() <= b.len() && &b[..a.len()] == a
}

fn admissible(set: &[Vec<u8>], k: &[u8], prefix_free: bool) -> bool {
    set.iter().all(|x| if prefix_free { !is_prefix(x, k) && !is_prefix(k, x) } else { x.as_slice() != k })
}

/// Byte string of length `n` in one of the shapes that matter for a flat byte-ordered key layout.
fn shaped_bytes(g: &mut Gen, n: usize) -> Vec<u8> {
    if n == 0 {
        return vec![];
    }
    match g.weighted(&[3, 2, 2, 2, 2, 3]) {
        0 => {
            // small counter-like key
            let mut v = vec![0u8; n];
            v[n - 1] = g.below(4) as u8;
            v
        }
        1 => vec![0xFF; n],
        2 => {
            let mut v = vec![0xFF; n];
            v[n - 1] = *g.pick(&[0x00u8, 0x01, 0x7F, 0xFE]);
            v
        }
        3 => vec![0x00; n],
        4 => {
            let mut v = vec![0x00; n];
            v[0] = *g.pick(&[0x01u8, 0x5F, 0x80, 0xFF]);
            v
        }
        _ => g.bytes(n),
    }
}

fn key_len(g: &mut Gen, max: usize) -> usize {
    // 1..=max, biased to 1, 2, 3 and a few longer ones
    match g.weighted(&[5, 3, 1]) {
        0 => 1 + g.index(max.min(3)),
        1 => 1 + g.index(max),
        _ => max,
    }
}

fn some_node_id(g: &mut Gen) -> NodeId {
    let mut id = [0u8; NodeId::LENGTH];
    id[0] = *g.pick(&[0x5du8, 0xc0, 0x51, 0x0d, 0xf8]);
    id[NodeId::LENGTH - 1] = g.below(4) as u8;
    NodeId(id)
}

fn mapped_sort_key(g: &mut Gen, flavour: usize) -> Vec<u8> {
    match flavour {
        0 => SpreadPrefixKeyMapper::field_to_db_sort_key(g.pick(&[0u8, 1, 2, 0x7f, 0xfe, 0xff])).0,
        1 => {
            let n = g.index(4);
            let k = shaped_bytes(g, n);
            SpreadPrefixKeyMapper::map_to_db_sort_key(&k).0
        }
        _ => {
            let prefix = *g.pick(&[[0u8, 0], [0, 1], [1, 0], [0xff, 0xff], [0xff, 0xfe]]);
            let n = g.index(3);
            let k = shaped_bytes(g, n);
            SpreadPrefixKeyMapper::sorted_to_db_sort_key(&(prefix, k)).0
        }
    }
}

/// A key related by prefix to `base`: a truncation, an extension, or a last-byte neighbour.
fn relative_of(g: &mut Gen, base: &[u8], max_len: usize) -> Vec<u8> {
    let mut v = base.to_vec();
    match g.weighted(&[2, 2, 1, 1]) {
        0 => {
            if v.len() > 1 {
                let n = 1 + g.index(v.len() - 1);
                v.truncate(n);
            }
        }
        1 => {
            if v.len() < max_len {
                v.push(*g.pick(&[0x00u8, 0xFF, 0x01]));
            }
        }
        2 => {
            if let Some(l) = v.last_mut() {
                *l = l.wrapping_add(1);
            }
        }
        _ => {
            if let Some(l) = v.last_mut() {
                *l = l.wrapping_sub(1);
            }
        }
    }
    v
}

pub fn gen_alphabet(g: &mut Gen, d: &Domain) -> Alphabet {
    // --- node keys
    let n_nodes = 1 + g.index(d.max_nodes);
    let shared_len = key_len(g, d.max_key_len);
    let mut nodes: Vec<Vec<u8>> = Vec::new();
    for i in 0..n_nodes {
        let cand = match g.weighted(&[3, 3, 2, 2]) {
            0 => shaped_bytes(g, shared_len),
            1 => SpreadPrefixKeyMapper::to_db_node_key(&some_node_id(g)),
            2 => {
                let n = key_len(g, d.max_key_len);
                shaped_bytes(g, n)
            }
            _ => {
                if let Some(base) = nodes.first().cloned() {
                    relative_of(g, &base, d.max_key_len)
                } else {
                    shaped_bytes(g, shared_len)
                }
            }
        };
        if admissible(&nodes, &cand, d.prefix_free) {
            nodes.push(cand);
        } else if i == 0 {
            nodes.push(cand);
        }
    }
    if !d.prefix_free && g.chance(1, 16) && admissible(&nodes, &[], false) {
        nodes.push(vec![]); // the empty node key is a legal `Vec<u8>`
    }

    // --- partition numbers
    let n_parts = 1 + g.index(d.max_parts);
    let mut parts: Vec<u8> = Vec::new();
    for _ in 0..n_parts {
        let p = match g.weighted(&[4, 1]) {
            0 => *g.pick(&[0u8, 1, 2, 64, 127, 128, 254, 255]),
            _ => g.u8(),
        };
        if !parts.contains(&p) {
            parts.push(p);
        }
    }

    // --- sort-key alphabets
    let n_alphas = 1 + g.index(d.max_sort_alphas);
    let mut sorts: Vec<Vec<Vec<u8>>> = Vec::new();
    for _ in 0..n_alphas {
        let n_keys = 1 + g.index(d.max_sort_keys);
        let flavour = g.weighted(&[3, 2, 2, 2, 3]);
        let len = key_len(g, d.max_key_len);
        let mut a: Vec<Vec<u8>> = Vec::new();
        for _ in 0..n_keys {
            let cand = match flavour {
                0 => shaped_bytes(g, len),
                1 => mapped_sort_key(g, 0),
                2 => mapped_sort_key(g, 1),
                3 => mapped_sort_key(g, 2),
                _ => {
                    // free lengths; related by prefix to keys of *other* alphabets (or, outside the
                    // prefix-free domain, of this one)
                    let pool: Vec<&Vec<u8>> = sorts.iter().flatten().chain(a.iter()).collect();
                    if !pool.is_empty() && g.chance(2, 3) {
                        let base = (*g.pick(&pool)).clone();
                        relative_of(g, &base, d.max_key_len)
                    } else {
                        let n = key_len(g, d.max_key_len);
                        shaped_bytes(g, n)
                    }
                }
            };
            if admissible(&a, &cand, d.prefix_free) {
                a.push(cand);
            }
        }
        if d.long_keys && g.chance(1, 12) {
            // the largest db sort key a real caller can produce: sorted key with a 1024-byte remainder
            let k = vec![0xFFu8; 2 + 20 + 1024];
            if admissible(&a, &k, d.prefix_free) {
                a.push(k);
            }
        }
        if !d.prefix_free && g.chance(1, 12) && admissible(&a, &[], false) {
            a.push(vec![]);
        }
        if a.is_empty() {
            a.push(vec![0]);
        }
        sorts.push(a);
    }
    Alphabet { nodes, parts, sorts }
}

// ---------------------------------------------------------------------------------------------
// Commits
// ---------------------------------------------------------------------------------------------

fn value(g: &mut Gen) -> Vec<u8> {
    match g.weighted(&[6, 2, 1]) {
        0 => {
            let n = 1 + g.index(3);
            g.bytes(n)
        }
        1 => g.blob(64),
        _ => vec![],
    }
}

/// Distinct indices `0..n`, `k` of them, in tape order.
fn distinct(g: &mut Gen, n: usize, k: usize) -> Vec<usize> {
    let mut pool: Vec<usize> = (0..n).collect();
    let mut out = Vec::new();
    for _ in 0..k.min(n) {
        let i = g.index(pool.len());
        out.push(pool.remove(i));
    }
    out
}

pub struct CommitShape {
    pub max_nodes: usize,
    pub max_parts: usize,
    pub max_items: usize,
}

pub fn gen_commit(g: &mut Gen, a: &Alphabet, m: &Model, shape: &CommitShape) -> Commit {
    let mut c = Commit::default();
    let n_nodes = 1 + g.index(shape.max_nodes.min(a.nodes.len()));
    for ni in distinct(g, a.nodes.len(), n_nodes) {
        let node = &a.nodes[ni];
        let n_parts = 1 + g.index(shape.max_parts.min(a.parts.len()));
        let mut parts = Vec::new();
        for pi in distinct(g, a.parts.len(), n_parts) {
            let p = a.parts[pi];
            let alpha = a.sort_alpha(ni, pi);
            let existing: Vec<Vec<u8>> = m.list(node, p, None).into_iter().map(|(k, _)| k).collect();
            let upd = match g.weighted(&[10, 4, 2, 1]) {
                0 => {
                    // delta over a few distinct keys
                    let k = 1 + g.index(shape.max_items.min(alpha.len()));
                    let items = distinct(g, alpha.len(), k)
                        .into_iter()
                        .map(|i| {
                            let sk = alpha[i].clone();
                            // deletes mostly hit existing substates; deleting an absent one is legal
                            let exists = existing.contains(&sk);
                            let del = if exists { g.chance(2, 5) } else { g.chance(1, 10) };
                            (sk, if del { None } else { Some(value(g)) })
                        })
                        .collect();
                    PartUpdate::Delta(items)
                }
                1 => {
                    let k = g.index(shape.max_items.min(alpha.len()) + 1);
                    let items = distinct(g, alpha.len(), k).into_iter().map(|i| (alpha[i].clone(), value(g))).collect();
                    PartUpdate::Reset(items)
                }
                2 => {
                    // delete everything the partition holds, one substate at a time
                    PartUpdate::Delta(existing.iter().map(|k| (k.clone(), None)).collect())
                }
                _ => PartUpdate::Delta(vec![]),
            };
            parts.push((p, upd));
        }
        c.nodes.push((node.clone(), parts));
    }
    c
}

/// What a commit does to the model, for the "non-trivial" rules.
#[derive(Default, Clone, Copy, Debug)]
pub struct Effects {
    pub reset_of_populated: bool,
    pub deleted_last: bool,
    pub recreated_partition: bool,
    pub overwrite: bool,
}

pub fn effects(before: &Model, c: &Commit) -> Effects {
    let mut e = Effects::default();
    for (node, parts) in &c.nodes {
        for (p, u) in parts {
            let n_before = before.partition_len(node, *p);
            match u {
                PartUpdate::Reset(items) => {
                    if n_before > 0 {
                        e.reset_of_populated = true;
                    }
                    if n_before == 0 && !items.is_empty() {
                        e.recreated_partition = true;
                    }
                }
                PartUpdate::Delta(items) => {
                    let mut after = n_before;
                    for (k, v) in items {
                        let ex = before.get(node, *p, k).is_some();
                        match (ex, v.is_some()) {
                            (true, true) => e.overwrite = true,
                            (true, false) => after -= 1,
                            (false, true) => after += 1,
                            (false, false) => {}
                        }
                    }
                    if n_before > 0 && after == 0 {
                        e.deleted_last = true;
                    }
                    if n_before == 0 && after > 0 {
                        e.recreated_partition = true;
                    }
                }
            }
        }
    }
    e
}
