//! C22 Typed SBOR codecs agree with their generated schemas.

use radix_common::prelude::*;
use std::any::TypeId;
use std::collections::HashMap;
use std::fmt::Debug;
use std::sync::{Arc, Mutex, OnceLock};
use vf_core::{catch, Check, Gen, Outcome, Part};
use vf_sbor::typed::{tree_is_rich, TypedGen};
use vf_sbor::wire::{hexs, print_payload, print_payload_sites, Flavour, SiteKind, BASIC_KINDS};

pub struct Entry {
    pub name: &'static str,
    pub flavour: Flavour,
    pub(crate) accepted_label: &'static str,
    pub(crate) rejected_label: &'static str,
    pub(crate) low_label: &'static str,
    pub(crate) case: fn(&mut Gen, &Entry) -> Outcome,
    pub(crate) acceptance: fn(&mut Gen, &Entry) -> Outcome,
}

type SchemaFixture = Arc<(LocalTypeId, VersionedScryptoSchema)>;

fn schema_of<T: ScryptoDescribe + 'static>() -> SchemaFixture {
    static CACHE: OnceLock<Mutex<HashMap<TypeId, SchemaFixture>>> = OnceLock::new();
    let cache = CACHE.get_or_init(|| Mutex::new(HashMap::new()));
    let mut guard = cache.lock().unwrap_or_else(|e| e.into_inner());
    guard.entry(TypeId::of::<T>()).or_insert_with(|| Arc::new(generate_full_schema_from_single_type::<T, ScryptoCustomSchema>())).clone()
}

trait Codec {
    const FL: Flavour;
    const DEPTH: usize;
    type Ext: ValidatableCustomExtension<()> + CustomExtension<CustomSchema = ScryptoCustomSchema>;
}
struct ScryptoCodec;
struct ManifestCodec;
impl Codec for ScryptoCodec {
    const FL: Flavour = Flavour::Scrypto;
    const DEPTH: usize = SCRYPTO_SBOR_V1_MAX_DEPTH;
    type Ext = ScryptoCustomExtension;
}
impl Codec for ManifestCodec {
    const FL: Flavour = Flavour::Manifest;
    const DEPTH: usize = MANIFEST_SBOR_V1_MAX_DEPTH;
    type Ext = ManifestCustomExtension;
}

fn validate<C: Codec>(payload: &[u8], fixture: &SchemaFixture) -> Result<Result<(), String>, String> {
    let (id, schema) = (&fixture.0, &fixture.1);
    catch(|| validate_payload_against_schema::<C::Ext, ()>(payload, schema.v1(), *id, &(), C::DEPTH).map_err(|e| format!("{:?}", e.error)))
}

/// Class of a schema-validation rejection (part of failure signatures; no case data).
fn rejection_class(e: &str) -> &'static str {
    if e.contains("Expected = Own<") || e.contains("Expected Own<") {
        "owned node id outside the entity class the schema requires"
    } else if e.contains("Expected = Reference<") || e.contains("Expected Reference<") {
        "reference outside the entity class the schema requires"
    } else if e.contains("LengthValidationError") {
        "length outside the schema's length validation"
    } else if e.contains("ValidationError(") && e.contains("ValidationError {") {
        "number outside the schema's numeric validation"
    } else if e.contains("ValueMismatchWithType") {
        "value kind or shape differs from the schema"
    } else if e.contains("DecodeError") {
        "payload the traverser cannot decode"
    } else {
        "other validation error"
    }
}

fn panic_site(msg: &str) -> &str {
    msg.rsplit_once(" @ ").map(|(_, l)| l).unwrap_or("unknown location")
}

fn typed_case<T, C>(
    g: &mut Gen,
    entry: &Entry,
    decode: fn(&[u8]) -> Result<T, DecodeError>,
    encode: fn(&T) -> Result<Vec<u8>, EncodeError>,
) -> Outcome
where
    T: ScryptoDescribe + PartialEq + Debug + 'static,
    C: Codec,
{
    let name = entry.name;
    let fixture = schema_of::<T>();
    let (payload, tree_text, rich, mutation) = {
        let mut tg = TypedGen::new(g, fixture.1.v1(), C::FL);
        tg.max_len = 3;
        tg.budget = 150;
        tg.alt_kind_chance = (1, 40);
        if tg.g.chance(1, 4) {
            tg.mutate_at = Some(tg.g.index(12));
        }
        let Some(tree) = tg.payload(fixture.0, C::DEPTH) else {
            return Outcome::Discard;
        };
        let mut mutation = tg.mutation;
        let (mut bytes, sites) = print_payload_sites(C::FL, &tree);
        // "kind byte only": the tree is intact but one value-kind byte (of a value, or the
        // element / key / value kind in a container header) is overwritten with another kind of
        // the flavour. Drawn last, so an exhausted tape plants nothing.
        if mutation.is_none() && g.chance(1, 6) {
            let kind_sites: Vec<usize> = sites.iter().filter(|s| s.what == SiteKind::Kind).map(|s| s.off).collect();
            if !kind_sites.is_empty() {
                let off = kind_sites[g.index(kind_sites.len())];
                let mut all = BASIC_KINDS.to_vec();
                all.extend_from_slice(C::FL.custom_kinds());
                let others: Vec<u8> = all.into_iter().filter(|k| *k != bytes[off]).collect();
                bytes[off] = *g.pick(&others);
                mutation = Some("kind byte only");
            }
        }
        (bytes, tree.render(), tree_is_rich(&tree), mutation)
    };
    g.sample(|| format!("{} ({}) payload {} = {}{}", name, C::FL.name(), hexs(&payload[..payload.len().min(120)]), tree_text, mutation.map(|m| format!(" [defect: {}]", m)).unwrap_or_default()));
    if let Some(m) = mutation {
        g.label(m);
        g.label("near-valid payload");
    } else {
        g.label("payload valid by construction");
    }

    let schema_says = match validate::<C>(&payload, &fixture) {
        Ok(r) => r,
        Err(p) => return Outcome::fail("payload validation panics", format!("type {} payload {} ({}): {}", name, hexs(&payload), tree_text, p)),
    };
    if mutation.is_none() {
        if let Err(e) = &schema_says {
            return Outcome::fail(
                format!("a payload built to conform to a type's schema is rejected by that schema: {}", rejection_class(e)),
                format!("type {} ({}) payload {} = {} : {}", name, C::FL.name(), hexs(&payload), tree_text, e),
            );
        }
    }
    let typed = {
        let b = payload.clone();
        match catch(move || decode(&b)) {
            Ok(r) => r,
            Err(p) => return Outcome::fail(format!("typed decode panics at {}", panic_site(&p)), format!("type {} payload {} ({}): {}", name, hexs(&payload), tree_text, p)),
        }
    };
    let value = match typed {
        Err(e) => {
            // allowed: typed decoders add content checks
            if mutation.is_none() && std::env::var("VERIF_C22_DEBUG").map(|t| name.contains(&t)).unwrap_or(false) {
                eprintln!("[C22 debug] {} rejects {} = {} : {:?}", name, hexs(&payload[..payload.len().min(200)]), tree_text, e);
            }
            g.label(entry.rejected_label);
            if mutation.is_none() {
                g.label("typed decoder stricter than schema");
            }
            return Outcome::Pass;
        }
        Ok(v) => v,
    };
    g.label(entry.accepted_label);
    if mutation.is_none() {
        g.count("valid payloads accepted by the typed decoder", 1);
    }
    g.set_nontrivial(rich);
    if let Err(e) = &schema_says {
        return Outcome::fail(
            format!("typed decoder accepts a payload that its schema rejects: {}", rejection_class(e)),
            format!("type {} ({}) payload {} = {} decodes to {:?} but schema validation says {}", name, C::FL.name(), hexs(&payload), tree_text, value, e),
        );
    }
    // encode side
    let encoded = match catch(|| encode(&value)) {
        Ok(Ok(b)) => b,
        Ok(Err(e)) => {
            return Outcome::fail("a decoded value cannot be encoded", format!("type {} value {:?} (from payload {}): {:?}", name, value, hexs(&payload), e))
        }
        Err(p) => return Outcome::fail("typed encode panics", format!("type {} value {:?}: {}", name, value, p)),
    };
    match validate::<C>(&encoded, &fixture) {
        Ok(Ok(())) => {}
        Ok(Err(e)) => {
            return Outcome::fail(
                format!("encoding of a value does not validate against the type's schema: {}", rejection_class(&e)),
                format!("type {} ({}) value {:?} encodes to {} : {}", name, C::FL.name(), value, hexs(&encoded), e),
            )
        }
        Err(p) => return Outcome::fail("payload validation panics", format!("type {} payload {}: {}", name, hexs(&encoded), p)),
    }
    let back = {
        let b = encoded.clone();
        match catch(move || decode(&b)) {
            Ok(r) => r,
            Err(p) => return Outcome::fail(format!("typed decode panics at {}", panic_site(&p)), format!("type {} payload {}: {}", name, hexs(&encoded), p)),
        }
    };
    match back {
        Err(e) => Outcome::fail(
            "typed decoder rejects the encoding of a value",
            format!("type {} value {:?} encodes to {} which decode rejects: {:?}", name, value, hexs(&encoded), e),
        ),
        Ok(b) => {
            if b != value {
                return Outcome::fail("decode(encode(v)) != v", format!("type {} value {:?} came back as {:?}", name, value, b));
            }
            Outcome::Pass
        }
    }
}

/// Acceptance probe: `PROBES` payloads built from the type's own schema; the typed decoder must
/// accept at least one (a decoder that rejects everything its schema describes means that schema
/// and codec describe different shapes, which the per-payload oracle cannot see because it only
/// obtains values through the decoder).
const PROBES: usize = 48;

fn sub_tape(seed: u64, index: u64, len: usize) -> Vec<u8> {
    let mut out = Vec::with_capacity(len + 8);
    let mut x = vf_core::splitmix(seed ^ index.wrapping_add(1).wrapping_mul(0xD6E8_FEB8_6659_FD93));
    while out.len() < len {
        x = vf_core::splitmix(x);
        out.extend_from_slice(&x.to_le_bytes());
    }
    out.truncate(len);
    out
}

fn acceptance_case<T, C>(g: &mut Gen, entry: &Entry, decode: fn(&[u8]) -> Result<T, DecodeError>) -> Outcome
where
    T: ScryptoDescribe + PartialEq + Debug + 'static,
    C: Codec,
{
    let name = entry.name;
    let fixture = schema_of::<T>();
    let mut accepted = 0usize;
    let mut built = 0usize;
    let mut errors: Vec<String> = Vec::new();
    let mut first: Option<String> = None;
    // Every probe draws from its own pseudo-random sub-tape derived from one tape value, so the
    // probes stay independent of each other even when the tape is short or exhausted (48 copies
    // of the one minimal payload say nothing about the type).
    let seed = g.u64();
    for probe in 0..PROBES {
        let sub = sub_tape(seed, probe as u64, 2048);
        let mut sub_gen = Gen::new(&sub);
        let mut tg = TypedGen::new(&mut sub_gen, fixture.1.v1(), C::FL);
        tg.max_len = 2;
        tg.budget = 80;
        tg.alt_kind_chance = (0, 1);
        let Some(tree) = tg.payload(fixture.0, C::DEPTH) else { continue };
        built += 1;
        let payload = print_payload(C::FL, &tree);
        if first.is_none() {
            first = Some(format!("{} = {}", hexs(&payload[..payload.len().min(120)]), tree.render()));
        }
        let b = payload.clone();
        match catch(move || decode(&b)) {
            Ok(Ok(_)) => accepted += 1,
            Ok(Err(e)) => {
                let e = format!("{:?}", e);
                if !errors.contains(&e) && errors.len() < 6 {
                    errors.push(e);
                }
            }
            Err(p) => return Outcome::fail(format!("typed decode panics at {}", panic_site(&p)), format!("type {} payload {}: {}", name, hexs(&payload), p)),
        }
    }
    g.sample(|| format!("{} ({}): {} of {} schema-built payloads accepted; first: {}", name, C::FL.name(), accepted, built, first.clone().unwrap_or_default()));
    if built == 0 {
        return Outcome::Discard;
    }
    g.count("acceptance probes", built as u64);
    g.count("acceptance probes accepted", accepted as u64);
    if accepted * 2 < built {
        g.label("under half of the schema-built payloads accepted");
    }
    if accepted * 4 < built {
        g.label(entry.low_label);
    }
    g.set_nontrivial(accepted > 0);
    if accepted == 0 && built >= PROBES / 2 {
        return Outcome::fail(
            "typed decoder rejects every payload built from the type's own schema",
            format!("type {} ({}): 0 of {} payloads conforming to the generated schema decode; errors {:?}; first payload {}", name, C::FL.name(), built, errors, first.unwrap_or_default()),
        );
    }
    Outcome::Pass
}

pub(crate) fn scrypto_acceptance<T: ScryptoEncode + ScryptoDecode + ScryptoDescribe + PartialEq + Debug + 'static>(g: &mut Gen, e: &Entry) -> Outcome {
    acceptance_case::<T, ScryptoCodec>(g, e, |b| scrypto_decode::<T>(b))
}

pub(crate) fn manifest_acceptance<T: ManifestEncode + ManifestDecode + ScryptoDescribe + PartialEq + Debug + 'static>(g: &mut Gen, e: &Entry) -> Outcome {
    acceptance_case::<T, ManifestCodec>(g, e, |b| manifest_decode::<T>(b))
}

pub(crate) fn scrypto_case<T: ScryptoEncode + ScryptoDecode + ScryptoDescribe + PartialEq + Debug + 'static>(g: &mut Gen, e: &Entry) -> Outcome {
    typed_case::<T, ScryptoCodec>(g, e, |b| scrypto_decode::<T>(b), |v| scrypto_encode(v))
}

pub(crate) fn manifest_case<T: ManifestEncode + ManifestDecode + ScryptoDescribe + PartialEq + Debug + 'static>(g: &mut Gen, e: &Entry) -> Outcome {
    typed_case::<T, ManifestCodec>(g, e, |b| manifest_decode::<T>(b), |v| manifest_encode(v))
}

pub(crate) fn leak(s: String) -> &'static str {
    Box::leak(s.into_boxed_str())
}

macro_rules! reg {
    ($v:ident, scrypto, $t:ty) => {
        $v.push($crate::c22::Entry {
            name: stringify!($t),
            flavour: vf_sbor::wire::Flavour::Scrypto,
            accepted_label: $crate::c22::leak(format!("accepted: {}", stringify!($t))),
            rejected_label: $crate::c22::leak(format!("rejected: {}", stringify!($t))),
            low_label: $crate::c22::leak(format!("acceptance probe below 25%: {}", stringify!($t))),
            case: $crate::c22::scrypto_case::<$t>,
            acceptance: $crate::c22::scrypto_acceptance::<$t>,
        });
    };
    ($v:ident, manifest, $t:ty) => {
        $v.push($crate::c22::Entry {
            name: stringify!($t),
            flavour: vf_sbor::wire::Flavour::Manifest,
            accepted_label: $crate::c22::leak(format!("accepted: {} (manifest)", stringify!($t))),
            rejected_label: $crate::c22::leak(format!("rejected: {} (manifest)", stringify!($t))),
            low_label: $crate::c22::leak(format!("acceptance probe below 25%: {} (manifest)", stringify!($t))),
            case: $crate::c22::manifest_case::<$t>,
            acceptance: $crate::c22::manifest_acceptance::<$t>,
        });
    };
}

pub fn registry() -> &'static Vec<Entry> {
    static R: OnceLock<Vec<Entry>> = OnceLock::new();
    R.get_or_init(crate::registry::build)
}

pub(crate) fn new_registry() -> Vec<Entry> {
    Vec::new()
}
pub(crate) use reg;

pub fn case(g: &mut Gen) -> Outcome {
    let r = registry();
    let e = &r[g.index(r.len())];
    (e.case)(g, e)
}

pub fn acceptance(g: &mut Gen) -> Outcome {
    let r = registry();
    let e = &r[g.index(r.len())];
    (e.acceptance)(g, e)
}

pub fn check() -> Check {
    Check::new(
        "C22",
        "Typed SBOR codecs agree with their generated schemas",
        "For a registry of SBOR-derived types (transaction models V1/V2, manifest values and resource constraints, substate payloads of every native blueprint and object module, native events, receipt and state-update types, Merkle tree nodes, schema types) a payload is generated from the type's own generated schema (schema-directed: every variant, boundary numerics and lengths, node ids of the required entity class; about a quarter carry one planted defect: wrong kind, a value-kind byte overwritten over an intact body, extra / missing field, unknown variant, out-of-range numeric, length off by one, wrong entity class). Oracle: a payload built to conform validates; every payload the typed decoder accepts validates against the schema; for every decoded value v: encode(v) validates and decode(encode(v)) == v. A typed decoder rejecting a schema-valid payload is allowed (content checks) and counted per type; part acceptance builds 48 conforming payloads for one type (each from its own pseudo-random sub-tape, so they are independent even on a short tape) and requires the typed decoder to accept at least one (schema and codec describing different shapes would otherwise go unseen, since values are only obtained through the decoder). Non-trivial = accepted value with >= 2 levels of nesting and an enum variant != 0 or a non-empty collection.",
    )
    .assume("values are obtained by decoding schema-directed payloads (no hand-written constructors); types whose decoder accepts few generated payloads are under-explored, see the per-type accepted/rejected classes")
    .assume("typed decoders may be stricter than schema validation (the converse of the second clause is not asserted)")
    .part(Part::new("types", 1_500_000, 60_000_000, 3072, case))
    .part(Part::new("acceptance", 20_000, 600_000, 16384, acceptance))
    .min_nontrivial_pct(10.0)
}
