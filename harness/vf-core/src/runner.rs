use crate::gen::Gen;
use crate::known::{self, Known};
use crate::out::{emit, info, park_stdout};
use crate::{catch, fnv, splitmix, verif_root, Check, Failure, Outcome, Part};
use proptest::collection::vec as pvec;
use proptest::prelude::any;
use proptest::test_runner::{Config, RngSeed, TestCaseError, TestError, TestRunner};
use serde_json::{json, Value};
use std::cell::RefCell;
use std::collections::{BTreeMap, HashSet};
use std::path::{Path, PathBuf};
use std::sync::atomic::{AtomicBool, Ordering};
use std::sync::{Arc, Mutex};
use std::time::{Duration, Instant};

thread_local! {
    static LAST_PANIC_LOC: RefCell<Option<String>> = const { RefCell::new(None) };
}

pub(crate) fn take_last_panic_location() -> Option<String> {
    LAST_PANIC_LOC.with(|l| l.borrow_mut().take())
}

fn install_quiet_panic_hook() {
    let verbose = std::env::var_os("VERIF_PANIC_VERBOSE").is_some();
    std::panic::set_hook(Box::new(move |pi| {
        let loc = pi.location().map(|l| format!("{}:{}", l.file(), l.line()));
        if verbose {
            eprintln!("[panic] {:?} {}", loc, pi);
        }
        LAST_PANIC_LOC.with(|l| *l.borrow_mut() = loc);
    }));
}

#[derive(Default)]
struct Stats {
    evaluations: u64,
    discards: u64,
    nontrivial: u64,
    distinct_nontrivial: HashSet<u64>,
    distinct_capped: bool,
    labels: BTreeMap<&'static str, u64>,
    counters: BTreeMap<&'static str, u64>,
    samples: Vec<Value>,
    known_hits: BTreeMap<String, u64>,
    excluded: BTreeMap<String, u64>,
}

const DISTINCT_CAP: usize = 4_000_000;

impl Stats {
    fn merge(&mut self, o: Stats) {
        self.evaluations += o.evaluations;
        self.discards += o.discards;
        self.nontrivial += o.nontrivial;
        for h in o.distinct_nontrivial {
            if self.distinct_nontrivial.len() < DISTINCT_CAP {
                self.distinct_nontrivial.insert(h);
            } else {
                self.distinct_capped = true;
            }
        }
        self.distinct_capped |= o.distinct_capped;
        for (k, v) in o.labels {
            *self.labels.entry(k).or_insert(0) += v;
        }
        for (k, v) in o.counters {
            *self.counters.entry(k).or_insert(0) += v;
        }
        for s in o.samples {
            if self.samples.len() < 8 {
                self.samples.push(s);
            }
        }
        for (k, v) in o.known_hits {
            *self.known_hits.entry(k).or_insert(0) += v;
        }
        for (k, v) in o.excluded {
            *self.excluded.entry(k).or_insert(0) += v;
        }
    }
}

struct Found {
    part: &'static str,
    failure: Failure,
    tape: Vec<u8>,
    sample: Option<String>,
    from_replay: Option<PathBuf>,
}

struct Eval {
    outcome: Outcome,
    nontrivial: bool,
    fp: u64,
    labels: Vec<&'static str>,
    counters: BTreeMap<&'static str, u64>,
    sample: Option<String>,
    excluded: Vec<String>,
}

fn eval(part: &Part, tape: &[u8], want_sample: bool) -> Eval {
    let mut g = Gen::new(tape);
    g.want_sample = want_sample;
    let case = part.case.clone();
    let r = {
        let gref = &mut g;
        catch(move || case(gref))
    };
    let outcome = match r {
        Ok(o) => o,
        Err(msg) => {
            // signature = the panic location (stable under shrinking); the text goes in the message
            let loc = msg.rsplit_once(" @ ").map(|(_, l)| l.to_string()).unwrap_or_else(|| "unknown location".into());
            Outcome::Fail(Failure { signature: format!("panic at {}", loc), message: format!("panicked: {}", msg) })
        }
    };
    Eval {
        outcome,
        nontrivial: g.nontrivial,
        fp: g.fingerprint(),
        labels: std::mem::take(&mut g.labels),
        counters: std::mem::take(&mut g.counters),
        sample: g.sample.take(),
        excluded: std::mem::take(&mut g.excluded),
    }
}

fn record(stats: &mut Stats, e: &Eval, keep_sample: bool) {
    stats.evaluations += 1;
    if matches!(e.outcome, Outcome::Discard) {
        stats.discards += 1;
    }
    if e.nontrivial {
        stats.nontrivial += 1;
        if stats.distinct_nontrivial.len() < DISTINCT_CAP / 16 {
            stats.distinct_nontrivial.insert(e.fp);
        } else {
            stats.distinct_capped = true;
        }
    }
    for l in &e.labels {
        *stats.labels.entry(l).or_insert(0) += 1;
    }
    for (k, v) in &e.counters {
        *stats.counters.entry(k).or_insert(0) += v;
    }
    for x in &e.excluded {
        *stats.excluded.entry(x.clone()).or_insert(0) += 1;
    }
    if keep_sample {
        if let Some(s) = &e.sample {
            stats.samples.push(json!({"case": s, "classes": e.labels, "nontrivial": e.nontrivial}));
        }
    }
}

fn is_known(known: &[Known], id: &str, sig: &str) -> bool {
    known.iter().any(|k| k.property == id && k.signature == sig)
}

struct Shared {
    stop: AtomicBool,
    /// end of the current part's share of the time budget
    deadline: Mutex<Instant>,
    truncated: AtomicBool,
    found: Mutex<Vec<Found>>,
}

fn run_part(check: &Check, part: &Part, cases: u64, seed: u64, known: &[Known], shared: &Arc<Shared>) -> Stats {
    let threads = part
        .threads
        .unwrap_or_else(|| std::thread::available_parallelism().map(|n| n.get()).unwrap_or(8))
        .max(1);
    let threads = threads.min(cases.max(1) as usize);
    let per_worker = cases.div_ceil(threads as u64);
    let base = splitmix(seed ^ fnv(check.id.as_bytes()) ^ fnv(part.name.as_bytes()).rotate_left(17));
    let mut total = Stats::default();

    // fixed tapes first, on this thread
    for tape in &part.fixed {
        let e = eval(part, tape, true);
        if let Outcome::Fail(f) = &e.outcome {
            if is_known(known, check.id, &f.signature) {
                *total.known_hits.entry(f.signature.clone()).or_insert(0) += 1;
            } else {
                shared.found.lock().unwrap().push(Found {
                    part: part.name,
                    failure: f.clone(),
                    tape: tape.clone(),
                    sample: e.sample.clone(),
                    from_replay: None,
                });
            }
        }
        record(&mut total, &e, false);
    }
    if per_worker == 0 {
        return total;
    }

    let results: Vec<Stats> = std::thread::scope(|scope| {
        let mut handles = Vec::new();
        for w in 0..threads {
            let shared = shared.clone();
            let h = std::thread::Builder::new()
                .name(format!("{}-{}-{}", check.id, part.name, w))
                .stack_size(256 << 20)
                .spawn_scoped(scope, move || worker(check, part, per_worker, splitmix(base ^ (w as u64) << 32 | w as u64), w, known, &shared))
                .expect("spawn worker");
            handles.push(h);
        }
        handles.into_iter().map(|h| h.join().unwrap_or_default()).collect()
    });
    for s in results {
        total.merge(s);
    }
    total
}

fn worker(check: &Check, part: &Part, cases: u64, seed: u64, index: usize, known: &[Known], shared: &Arc<Shared>) -> Stats {
    let stats = RefCell::new(Stats::default());
    let failed: RefCell<Option<(String, Instant)>> = RefCell::new(None);
    let shrink_cap = Duration::from_secs(
        std::env::var("VERIF_SHRINK_S").ok().and_then(|s| s.parse().ok()).unwrap_or(120),
    );
    let strategy = pvec(any::<u8>(), 0..=part.tape_max);
    let sample_budget = if index < 4 { 2usize } else { 0 };
    let samples_taken = std::cell::Cell::new(0usize);
    let seen = std::cell::Cell::new(0u64);

    // The cases are run in chunks, each with its own TestRunner seeded from (seed, chunk index):
    // still a pure function of the seed, but a stop request or the time budget ends the worker at
    // the next chunk boundary instead of spinning through the remaining cases.
    let chunk = (cases / 64).clamp(256, 200_000).min(cases.max(1));
    let mut done = 0u64;
    let mut chunk_index = 0u64;
    let mut result = Ok(());
    while done < cases {
        if shared.stop.load(Ordering::Relaxed) {
            break;
        }
        if Instant::now() > *shared.deadline.lock().unwrap() {
            shared.truncated.store(true, Ordering::Relaxed);
            break;
        }
        let n = chunk.min(cases - done);
        let config = Config {
            cases: n.min(u32::MAX as u64) as u32,
            failure_persistence: None,
            rng_seed: RngSeed::Fixed(splitmix(seed ^ chunk_index.wrapping_mul(0xA24BAED4963EE407))),
            max_shrink_iters: 4000,
            max_global_rejects: u32::MAX,
            max_local_rejects: u32::MAX,
            ..Config::default()
        };
        let mut runner = TestRunner::new(config);
        done += n;
        chunk_index += 1;
        result = runner.run(&strategy, |tape| {
        if let Some((sig, since)) = failed.borrow().as_ref() {
            // shrinking: only the same failure counts, and only within the wall-clock cap
            if since.elapsed() > shrink_cap {
                return Ok(());
            }
            let e = eval(part, &tape, false);
            return match e.outcome {
                Outcome::Fail(f) if &f.signature == sig => Err(TestCaseError::fail(f.signature)),
                _ => Ok(()),
            };
        }
        if shared.stop.load(Ordering::Relaxed) {
            return Ok(());
        }
        seen.set(seen.get() + 1);
        let want = samples_taken.get() < sample_budget && seen.get() < 3000;
        let e = eval(part, &tape, want);
        let keep = want && e.sample.is_some() && (e.nontrivial || seen.get() > 200);
        if keep {
            samples_taken.set(samples_taken.get() + 1);
        }
        record(&mut stats.borrow_mut(), &e, keep);
        match e.outcome {
            Outcome::Fail(f) => {
                if is_known(known, check.id, &f.signature) {
                    *stats.borrow_mut().known_hits.entry(f.signature).or_insert(0) += 1;
                    Ok(())
                } else {
                    *failed.borrow_mut() = Some((f.signature.clone(), Instant::now()));
                    Err(TestCaseError::fail(f.signature))
                }
            }
            _ => Ok(()),
        }
        });
        if result.is_err() {
            break;
        }
    }

    if let Err(TestError::Fail(_, tape)) = result {
        shared.stop.store(true, Ordering::Relaxed);
        let e = eval(part, &tape, true);
        let failure = match e.outcome {
            Outcome::Fail(f) => f,
            _ => Failure {
                signature: failed.borrow().as_ref().map(|x| x.0.clone()).unwrap_or_default(),
                message: "failure did not reproduce on the shrunk tape (non-deterministic case function?)".into(),
            },
        };
        shared.found.lock().unwrap().push(Found { part: part.name, failure, tape, sample: e.sample, from_replay: None });
    } else if let Err(TestError::Abort(r)) = result {
        info(&format!("[{}] worker {} aborted: {}", check.id, index, r));
    }
    stats.into_inner()
}

fn read_replay(path: &Path) -> Result<(String, Vec<u8>), String> {
    let text = std::fs::read_to_string(path).map_err(|e| format!("cannot read {}: {}", path.display(), e))?;
    let v: Value = serde_json::from_str(&text).map_err(|e| format!("bad replay json {}: {}", path.display(), e))?;
    let part = v.get("part").and_then(|p| p.as_str()).unwrap_or("").to_string();
    let tape_hex = v.get("tape_hex").and_then(|p| p.as_str()).ok_or("replay has no tape_hex")?;
    let tape = hex::decode(tape_hex).map_err(|e| format!("bad tape_hex: {}", e))?;
    Ok((part, tape))
}

fn write_replay(check: &Check, f: &Found, seed: u64, tier: &str) -> PathBuf {
    let dir = verif_root().join(".work").join("found").join(check.id);
    let _ = std::fs::create_dir_all(&dir);
    let name = format!("{}-{:016x}.json", f.part, fnv(&f.tape) ^ fnv(f.failure.signature.as_bytes()));
    let path = dir.join(name);
    let v = json!({
        "property": check.id,
        "part": f.part,
        "tape_hex": hex::encode(&f.tape),
        "signature": f.failure.signature,
        "message": f.failure.message,
        "decoded_case": f.sample,
        "seed": seed,
        "tier": tier,
    });
    let _ = std::fs::write(&path, serde_json::to_string_pretty(&v).unwrap());
    path
}

fn committed_replays(id: &str) -> Vec<PathBuf> {
    let dir = verif_root().join("replays").join(id);
    let mut v: Vec<PathBuf> = match std::fs::read_dir(&dir) {
        Ok(rd) => rd.filter_map(|e| e.ok()).map(|e| e.path()).filter(|p| p.extension().map(|x| x == "json").unwrap_or(false)).collect(),
        Err(_) => Vec::new(),
    };
    v.sort();
    v
}

/// Runs a check; returns the process exit code.
pub fn run_check(check: &Check, tier: &str, seed: u64) -> i32 {
    install_quiet_panic_hook();
    park_stdout();
    let started = Instant::now();
    let known = known::load();
    let thorough = tier == "thorough";
    let budget = std::env::var("VERIF_BUDGET_S")
        .ok()
        .and_then(|s| s.parse::<u64>().ok())
        .unwrap_or(if thorough { 3 * 3600 } else { 1200 });
    let scale: f64 = std::env::var("VERIF_CASES_SCALE").ok().and_then(|s| s.parse().ok()).unwrap_or(1.0);
    let shared = Arc::new(Shared {
        stop: AtomicBool::new(false),
        deadline: Mutex::new(started + Duration::from_secs(budget)),
        truncated: AtomicBool::new(false),
        found: Mutex::new(Vec::new()),
    });

    // 1. regression tier: committed replays
    let mut replay_count = 0u64;
    let mut known_hits_replay: BTreeMap<String, u64> = BTreeMap::new();
    for path in committed_replays(check.id) {
        match read_replay(&path) {
            Ok((pname, tape)) => {
                let Some(part) = check.parts.iter().find(|p| p.name == pname).or(check.parts.first()) else { continue };
                replay_count += 1;
                let e = eval(part, &tape, true);
                if let Outcome::Fail(f) = e.outcome {
                    if is_known(&known, check.id, &f.signature) {
                        *known_hits_replay.entry(f.signature).or_insert(0) += 1;
                    } else {
                        shared.found.lock().unwrap().push(Found {
                            part: part.name,
                            failure: f,
                            tape,
                            sample: e.sample,
                            from_replay: Some(path.clone()),
                        });
                    }
                }
            }
            Err(e) => info(&format!("[{}] skipping replay: {}", check.id, e)),
        }
    }

    // 2. generated cases
    let mut per_part: Vec<(&'static str, Stats, u64)> = Vec::new();
    let budget_end = started + Duration::from_secs(budget);
    for (i, part) in check.parts.iter().enumerate() {
        let cases = if thorough { part.thorough_cases } else { part.quick_cases };
        let cases = ((cases as f64) * scale).ceil() as u64;
        let t0 = Instant::now();
        // each part gets an equal share of what is left of the time budget
        let remaining = budget_end.saturating_duration_since(t0);
        *shared.deadline.lock().unwrap() = t0 + remaining / (check.parts.len() - i) as u32;
        let stats = run_part(check, part, cases, seed, &known, &shared);
        info(&format!(
            "[{}] part {}: {} cases, {} non-trivial, {} discarded, {:.1}s",
            check.id,
            part.name,
            stats.evaluations,
            stats.nontrivial,
            stats.discards,
            t0.elapsed().as_secs_f64()
        ));
        per_part.push((part.name, stats, cases));
    }

    // 3. verdict
    let found = std::mem::take(&mut *shared.found.lock().unwrap());
    let mut violations: Vec<(String, PathBuf, String)> = Vec::new();
    let mut seen_sigs = HashSet::new();
    for f in &found {
        if !seen_sigs.insert((f.part, f.failure.signature.clone())) {
            continue;
        }
        let path = match &f.from_replay {
            Some(p) => p.clone(),
            None => write_replay(check, f, seed, tier),
        };
        violations.push((f.failure.signature.clone(), path, f.failure.message.clone()));
    }

    let mut known_hits: BTreeMap<String, u64> = known_hits_replay;
    let mut evaluations = replay_count;
    let mut nontrivial = 0u64;
    let mut distinct = 0u64;
    let mut discards = 0u64;
    let mut capped = false;
    let mut samples: Vec<Value> = Vec::new();
    let mut parts_json = Vec::new();
    let mut excluded: BTreeMap<String, u64> = BTreeMap::new();
    for (name, st, planned) in &per_part {
        evaluations += st.evaluations;
        nontrivial += st.nontrivial;
        distinct += st.distinct_nontrivial.len() as u64;
        discards += st.discards;
        capped |= st.distinct_capped;
        for (k, v) in &st.known_hits {
            *known_hits.entry(k.clone()).or_insert(0) += v;
        }
        for (k, v) in &st.excluded {
            *excluded.entry(k.clone()).or_insert(0) += v;
        }
        for s in st.samples.iter().take(4) {
            let mut s = s.clone();
            s["part"] = json!(name);
            samples.push(s);
        }
        parts_json.push(json!({
            "part": name,
            "planned_cases": planned,
            "evaluations": st.evaluations,
            "nontrivial": st.nontrivial,
            "distinct_nontrivial": st.distinct_nontrivial.len(),
            "discarded": st.discards,
            "classes": st.labels,
            "counters": st.counters,
        }));
    }
    if samples.is_empty() {
        samples.push(json!({"note": "no case produced a rendering in this run"}));
    }
    let truncated = shared.truncated.load(Ordering::Relaxed);
    let wall = started.elapsed().as_secs_f64();
    let nontrivial_pct = if evaluations > 0 { 100.0 * nontrivial as f64 / evaluations as f64 } else { 0.0 };
    let mut assumptions: Vec<String> = check.assumptions.iter().map(|s| s.to_string()).collect();
    assumptions.push("sampling, not proof: the property held on every generated case only".into());

    let evidence = json!({
        "property_id": check.id,
        "tier": if thorough { "thorough" } else { "quick" },
        "seed": seed,
        "level": check.level.as_str(),
        "coverage": {
            "evaluations": evaluations,
            "distinct_nontrivial": distinct,
            "nontrivial_evaluations": nontrivial,
            "nontrivial_pct": (nontrivial_pct * 100.0).round() / 100.0,
            "distinct_count_capped": capped,
            "rule": check.rule,
            "samples": samples,
            "discarded": discards,
            "committed_replays_run": replay_count,
            "parts": parts_json,
            "known_finding_hits": known_hits,
            "excluded_by_construction": excluded,
            "truncated_by_time_budget": truncated,
            "stopped_at_first_violation": !violations.is_empty(),
        },
        "assumptions": assumptions,
        "wall_s": (wall * 100.0).round() / 100.0,
        "violations": violations.len(),
    });
    let evdir = verif_root().join("evidence");
    let _ = std::fs::create_dir_all(&evdir);
    let evpath = evdir.join(format!("{}.json", check.id));
    if let Err(e) = std::fs::write(&evpath, serde_json::to_string_pretty(&evidence).unwrap() + "\n") {
        info(&format!("[{}] cannot write evidence {}: {}", check.id, evpath.display(), e));
        return 2;
    }

    for k in known.iter().filter(|k| k.property == check.id) {
        let hits = known_hits.get(&k.signature).copied().unwrap_or(0);
        if hits > 0 {
            emit(&format!("KNOWN-FINDING: property={} {} [{}; met {} times]", check.id, k.what, k.signature, hits));
        }
    }
    for (sig, path, msg) in &violations {
        info(&format!("[{}] violation [{}]: {}", check.id, sig, msg));
        emit(&format!("VIOLATION property={} replay={}", check.id, path.display()));
    }
    info(&format!(
        "[{}] {} tier seed {}: {} cases, {} non-trivial ({} distinct, {:.1}%), {} violations, {:.1}s{}",
        check.id,
        tier,
        seed,
        evaluations,
        nontrivial,
        distinct,
        nontrivial_pct,
        violations.len(),
        wall,
        if truncated { " [truncated by time budget]" } else { "" }
    ));
    if !violations.is_empty() {
        return 1;
    }
    if distinct < 2 {
        info(&format!("[{}] inconclusive: fewer than 2 distinct non-trivial cases were generated", check.id));
        return 2;
    }
    if nontrivial_pct < check.min_nontrivial_pct {
        info(&format!(
            "[{}] generator health warning: {:.2}% non-trivial < expected {:.2}%",
            check.id, nontrivial_pct, check.min_nontrivial_pct
        ));
    }
    0
}

fn replay_one(check: &Check, path: &Path) -> i32 {
    install_quiet_panic_hook();
    park_stdout();
    let known = known::load();
    let (pname, tape) = match read_replay(path) {
        Ok(x) => x,
        Err(e) => {
            info(&e);
            return 2;
        }
    };
    let Some(part) = check.parts.iter().find(|p| p.name == pname).or(check.parts.first()) else { return 2 };
    let e = eval(part, &tape, true);
    if let Some(s) = &e.sample {
        info(&format!("[{}] case: {}", check.id, s));
    }
    match e.outcome {
        Outcome::Fail(f) => {
            info(&format!("[{}] fails [{}]: {}", check.id, f.signature, f.message));
            if let Some(k) = known.iter().find(|k| k.property == check.id && k.signature == f.signature) {
                emit(&format!("KNOWN-FINDING: property={} {} [{}]", check.id, k.what, k.signature));
                0
            } else {
                emit(&format!("VIOLATION property={} replay={}", check.id, path.display()));
                1
            }
        }
        Outcome::Discard => {
            info(&format!("[{}] replay decodes to a discarded case", check.id));
            0
        }
        Outcome::Pass => {
            info(&format!("[{}] replay passes", check.id));
            0
        }
    }
}

/// libFuzzer entry: panics (so that libFuzzer keeps the input) on a failure that is not a known finding.
pub fn fuzz_one(check: &Check, part_name: &str, data: &[u8]) {
    use std::sync::OnceLock;
    static KNOWN: OnceLock<Vec<Known>> = OnceLock::new();
    // libfuzzer-sys installs a panic hook that aborts the process; checks rely on catch_unwind for
    // panics that are verdicts, so the quiet hook replaces it (after libFuzzer's initialisation).
    let known = KNOWN.get_or_init(|| {
        install_quiet_panic_hook();
        known::load()
    });
    let part = check.parts.iter().find(|p| p.name == part_name).expect("unknown part");
    let e = eval(part, data, false);
    if let Outcome::Fail(f) = e.outcome {
        if !is_known(known, check.id, &f.signature) {
            eprintln!("FUZZ-VIOLATION property={} part={} signature=[{}]: {}", check.id, part_name, f.signature, f.message);
            std::process::abort();
        }
    }
}

/// `main` of every harness binary.
pub fn main_with(checks: Vec<Check>) -> ! {
    let args: Vec<String> = std::env::args().collect();
    if args.len() >= 2 && args[1] == "list" {
        for c in &checks {
            println!("{}\t{}", c.id, c.title);
        }
        std::process::exit(0);
    }
    if args.len() < 3 {
        eprintln!("usage: {} <ID> quick|thorough | <ID> --replay <file> | list", args[0]);
        std::process::exit(2);
    }
    let Some(check) = checks.iter().find(|c| c.id == args[1]) else {
        eprintln!("unknown check {}", args[1]);
        std::process::exit(2);
    };
    let seed: u64 = std::env::var("VERIF_SEED").ok().and_then(|s| s.trim().parse::<i128>().ok()).map(|v| v as u64).unwrap_or(0);
    let code = if args[2] == "--replay" {
        match args.get(3) {
            Some(p) => replay_one(check, Path::new(p)),
            None => 2,
        }
    } else {
        run_check(check, &args[2], seed)
    };
    std::process::exit(code);
}
