//! R4 — model database and the update generator shared by the state-layer checks.
//!
//! `ModelDb` is the specification of a substate database in ~30 lines: a sorted map
//! `(node key, partition) → sort key → value` with the Delta / Reset semantics of
//! `DatabaseUpdates` (interface.rs: "A delta change, touching just selected substates" / "A reset,
//! dropping all Substates of a partition and replacing them with a new set"), ordered listing from
//! an inclusive cursor ("If the exact given starting key does not exist, the iteration starts with
//! its immediate successor"), and the set of non-empty partitions.
//!
//! The generator draws everything from small alphabets so that overwrites, deletes of the last
//! substate of a partition / entity, resets followed by deltas (and vice versa) and re-creation
//! happen in almost every history.

use radix_common::prelude::{DatabaseUpdate, IndexMap, NodeId};
use radix_substate_store_interface::db_key_mapper::{DatabaseKeyMapper, SpreadPrefixKeyMapper};
use radix_substate_store_interface::interface::*;
use std::collections::{BTreeMap, BTreeSet};
use vf_core::Gen;

pub type PartitionContent = BTreeMap<Vec<u8>, Vec<u8>>;

#[derive(Clone, Debug, Default, PartialEq, Eq)]
pub struct ModelDb {
    /// Invariant: no empty inner map.
    pub parts: BTreeMap<(Vec<u8>, u8), PartitionContent>,
}

impl ModelDb {
    pub fn new() -> Self {
        Self::default()
    }

    pub fn apply(&mut self, updates: &DatabaseUpdates) {
        for (node_key, node_updates) in &updates.node_updates {
            for (partition_num, partition_updates) in &node_updates.partition_updates {
                let id = (node_key.clone(), *partition_num);
                let mut content = self.parts.remove(&id).unwrap_or_default();
                match partition_updates {
                    PartitionDatabaseUpdates::Delta { substate_updates } => {
                        for (sort_key, update) in substate_updates {
                            match update {
                                DatabaseUpdate::Set(value) => {
                                    content.insert(sort_key.0.clone(), value.clone());
                                }
                                DatabaseUpdate::Delete => {
                                    content.remove(&sort_key.0);
                                }
                            }
                        }
                    }
                    PartitionDatabaseUpdates::Reset { new_substate_values } => {
                        content = new_substate_values.iter().map(|(k, v)| (k.0.clone(), v.clone())).collect();
                    }
                }
                if !content.is_empty() {
                    self.parts.insert(id, content);
                }
            }
        }
    }

    pub fn is_empty(&self) -> bool {
        self.parts.is_empty()
    }

    pub fn partition(&self, node_key: &[u8], partition_num: u8) -> Option<&PartitionContent> {
        self.parts.get(&(node_key.to_vec(), partition_num))
    }

    pub fn get(&self, partition_key: &DbPartitionKey, sort_key: &DbSortKey) -> Option<Vec<u8>> {
        self.partition(&partition_key.node_key, partition_key.partition_num).and_then(|p| p.get(&sort_key.0)).cloned()
    }

    /// Entries of the partition with sort key ≥ `from` (all when `None`), ascending.
    pub fn list_from(&self, partition_key: &DbPartitionKey, from: Option<&DbSortKey>) -> Vec<PartitionEntry> {
        let Some(p) = self.partition(&partition_key.node_key, partition_key.partition_num) else { return Vec::new() };
        match from {
            None => p.iter().map(|(k, v)| (DbSortKey(k.clone()), v.clone())).collect(),
            Some(c) => p.range(c.0.clone()..).map(|(k, v)| (DbSortKey(k.clone()), v.clone())).collect(),
        }
    }

    /// The non-empty partitions.
    pub fn partition_keys(&self) -> BTreeSet<DbPartitionKey> {
        self.parts.keys().map(|(n, p)| DbPartitionKey { node_key: n.clone(), partition_num: *p }).collect()
    }

    /// Node keys owning at least one substate.
    pub fn node_keys(&self) -> BTreeSet<Vec<u8>> {
        self.parts.keys().map(|(n, _)| n.clone()).collect()
    }

    pub fn substate_count(&self) -> usize {
        self.parts.values().map(|p| p.len()).sum()
    }

    /// Updates that build this content on an empty database: one `Delta` of sets (or one `Reset`) per partition.
    pub fn as_updates(&self, as_reset: bool) -> DatabaseUpdates {
        let mut u = DatabaseUpdates::default();
        for ((n, p), content) in &self.parts {
            let pu = if as_reset {
                PartitionDatabaseUpdates::Reset {
                    new_substate_values: content.iter().map(|(k, v)| (DbSortKey(k.clone()), v.clone())).collect(),
                }
            } else {
                PartitionDatabaseUpdates::Delta {
                    substate_updates: content.iter().map(|(k, v)| (DbSortKey(k.clone()), DatabaseUpdate::Set(v.clone()))).collect(),
                }
            };
            u.node_updates.entry(n.clone()).or_default().partition_updates.insert(*p, pu);
        }
        u
    }
}

// ---------------------------------------------------------------------------------------------
// Alphabets
// ---------------------------------------------------------------------------------------------

/// Which database keys a case may use.
///
/// * `Tree`: what callers of the state tree produce. The tree documents (`LeafKey` in
///   `state_tree/types.rs`) that all leaf keys of one tree have the same length, "otherwise the
///   tree's behavior becomes unspecified"; the protocol mapper relaxes that to *prefix-free*:
///   node keys are always 20+30 bytes, partition numbers one byte, field keys one byte, map keys
///   `hash20(k) ‖ k` and sorted keys `prefix2 ‖ hash20(k) ‖ k` (variable length, but one is a prefix
///   of another only on a 160-bit hash collision), and a partition holds keys of one kind. So:
///   within a partition either mapper keys of one kind or raw byte strings of one length; node
///   keys either mapper keys or raw byte strings of one length (which also keeps the
///   `entity ‖ '_' ‖ partition ‖ '_'` storage prefixes of different tiers from colliding).
/// * `Any`: additionally raw keys of unequal length, including the empty key and keys that are
///   prefixes of one another — legal for a plain `SubstateDatabase` (memory db, overlay), whose
///   interface puts no constraint on key bytes.
#[derive(Clone, Copy, Debug, PartialEq, Eq)]
pub enum KeyRegime {
    Tree,
    Any,
}

#[derive(Clone, Debug)]
pub struct PartitionAlphabet {
    pub num: u8,
    pub kind: &'static str,
    /// Sorted, distinct.
    pub sort_keys: Vec<DbSortKey>,
}

#[derive(Clone, Debug)]
pub struct Alphabet {
    pub node_kind: &'static str,
    /// Sorted, distinct.
    pub nodes: Vec<DbNodeKey>,
    /// Distinct partition numbers.
    pub partitions: Vec<PartitionAlphabet>,
}

/// Bytes chosen so that raw keys share nibble prefixes (deep tree paths), hit both halves of every
/// nibble, and contain the tier separator `'_'` (0x5f) used in stored tree node keys.
const NIB: [u8; 8] = [0x00, 0x01, 0x10, 0x11, 0x5f, 0x80, 0xf0, 0xff];
const PARTITION_NUMS: [u8; 8] = [0, 1, 2, 0x40, 0x5f, 0x80, 0xfe, 0xff];
const FIELD_KEYS: [u8; 8] = [0, 1, 2, 0x10, 0x11, 0x12, 0x20, 0xff];
const SORT_PREFIXES: [[u8; 2]; 6] = [[0, 0], [0, 1], [0, 0xff], [1, 0], [0x80, 0], [0xff, 0xff]];

fn plain_map_keys() -> Vec<Vec<u8>> {
    vec![vec![], vec![0], vec![0, 0], vec![1], b"a".to_vec(), b"ab".to_vec(), b"abc".to_vec(), vec![0xff], vec![0xff; 33], vec![0x5c, 0x21, 0x07, 0x00]]
}

fn dedup_sorted<T: Ord>(v: Vec<T>) -> Vec<T> {
    v.into_iter().collect::<BTreeSet<_>>().into_iter().collect()
}

fn raw_key(g: &mut Gen, len: usize) -> Vec<u8> {
    (0..len).map(|_| *g.pick(&NIB)).collect()
}

fn raw_any_key(g: &mut Gen) -> Vec<u8> {
    let len = g.index(4);
    (0..len).map(|_| *g.pick(&[0x00u8, 0x01, 0xff])).collect()
}

pub fn gen_alphabet(g: &mut Gen, regime: KeyRegime) -> Alphabet {
    // node keys
    let n_nodes = 1 + g.weighted(&[2, 4, 3, 1]);
    let node_kind_choice = match regime {
        KeyRegime::Tree => g.weighted(&[3, 3, 1]),
        KeyRegime::Any => g.weighted(&[2, 2, 1, 3]),
    };
    let (node_kind, nodes): (&'static str, Vec<Vec<u8>>) = match node_kind_choice {
        0 => {
            let len = 1 + g.index(2);
            ("nodes: raw 1-2 bytes", (0..n_nodes).map(|_| raw_key(g, len)).collect())
        }
        1 => (
            "nodes: mapper",
            (0..n_nodes)
                .map(|_| {
                    let mut id = [0u8; NodeId::LENGTH];
                    id[0] = *g.pick(&[0x0du8, 0x5d, 0xc0, 0x00]);
                    id[NodeId::LENGTH - 1] = g.below(4) as u8;
                    SpreadPrefixKeyMapper::to_db_node_key(&NodeId(id))
                })
                .collect(),
        ),
        2 => {
            // long raw keys sharing all but the last bytes (deep entity-tier paths)
            let tail = 1 + g.index(2);
            (
                "nodes: raw 50 bytes, long shared prefix",
                (0..n_nodes)
                    .map(|_| {
                        let mut k = vec![0xabu8; 50 - tail];
                        k.extend(raw_key(g, tail));
                        k
                    })
                    .collect(),
            )
        }
        _ => ("nodes: raw unequal length", (0..n_nodes).map(|_| raw_any_key(g)).collect()),
    };
    let nodes = dedup_sorted(nodes);

    // partitions
    let n_parts = 1 + g.weighted(&[3, 4, 2]);
    let mut partitions: Vec<PartitionAlphabet> = Vec::new();
    for _ in 0..n_parts {
        let num = *g.pick(&PARTITION_NUMS);
        if partitions.iter().any(|p| p.num == num) {
            continue;
        }
        let n_keys = 2 + g.index(5);
        let kind_choice = match regime {
            KeyRegime::Tree => g.weighted(&[4, 2, 3, 2]),
            KeyRegime::Any => g.weighted(&[2, 1, 2, 1, 4]),
        };
        let (kind, keys): (&'static str, Vec<Vec<u8>>) = match kind_choice {
            0 => {
                let len = match g.weighted(&[4, 4, 2, 1]) {
                    0 => 1,
                    1 => 2,
                    2 => 3,
                    _ => 32,
                };
                ("sort keys: raw equal length", (0..n_keys).map(|_| raw_key(g, len)).collect())
            }
            1 => (
                "sort keys: field (mapper)",
                (0..n_keys).map(|_| SpreadPrefixKeyMapper::field_to_db_sort_key(g.pick(&FIELD_KEYS)).0).collect(),
            ),
            2 => {
                let plain = plain_map_keys();
                ("sort keys: map (mapper)", (0..n_keys).map(|_| SpreadPrefixKeyMapper::map_to_db_sort_key(g.pick(&plain)).0).collect())
            }
            3 => {
                let plain = plain_map_keys();
                (
                    "sort keys: sorted (mapper)",
                    (0..n_keys)
                        .map(|_| {
                            let prefix = *g.pick(&SORT_PREFIXES);
                            let rest = g.pick(&plain).clone();
                            SpreadPrefixKeyMapper::sorted_to_db_sort_key(&(prefix, rest)).0
                        })
                        .collect(),
                )
            }
            _ => ("sort keys: raw unequal length", (0..n_keys).map(|_| raw_any_key(g)).collect()),
        };
        partitions.push(PartitionAlphabet { num, kind, sort_keys: dedup_sorted(keys).into_iter().map(DbSortKey).collect() });
    }
    Alphabet { node_kind, nodes, partitions }
}

// ---------------------------------------------------------------------------------------------
// Update generator
// ---------------------------------------------------------------------------------------------

/// Relative weights of the update shapes.
#[derive(Clone, Copy, Debug)]
pub struct Profile {
    /// Per node update: ordinary partition updates / delete every substate the entity has / no partition update at all.
    pub node: [u32; 3],
    /// Per partition update: delta / reset with values / reset to empty / delta deleting every
    /// existing substate / empty delta.
    pub partition: [u32; 5],
    /// Within a delta: set / delete.
    pub substate: [u32; 2],
}

impl Profile {
    pub const BALANCED: Profile = Profile { node: [24, 2, 1], partition: [12, 4, 2, 2, 1], substate: [3, 2] };
    /// Emphasis on resets, deletion of whole entities and re-creation.
    pub const CHURN: Profile = Profile { node: [16, 6, 1], partition: [10, 5, 4, 4, 1], substate: [3, 2] };
}

pub fn gen_value(g: &mut Gen) -> Vec<u8> {
    match g.weighted(&[6, 2, 1]) {
        0 => {
            let b = g.below(3) as u8;
            let n = g.index(3);
            vec![b; n]
        }
        1 => g.blob(16),
        _ => vec![g.u8(); 64],
    }
}

fn gen_partition_update(g: &mut Gen, pa: &PartitionAlphabet, existing: Option<&PartitionContent>, profile: &Profile) -> PartitionDatabaseUpdates {
    let existing_keys: Vec<&Vec<u8>> = existing.map(|c| c.keys().collect()).unwrap_or_default();
    match g.weighted(&profile.partition) {
        0 => {
            let n = 1 + g.weighted(&[5, 3, 2, 1]);
            let mut substate_updates: IndexMap<DbSortKey, DatabaseUpdate> = IndexMap::default();
            for _ in 0..n {
                let key = if !existing_keys.is_empty() && g.chance(1, 3) { DbSortKey((*g.pick(&existing_keys)).clone()) } else { g.pick(&pa.sort_keys).clone() };
                let update = if g.weighted(&profile.substate) == 0 { DatabaseUpdate::Set(gen_value(g)) } else { DatabaseUpdate::Delete };
                substate_updates.insert(key, update);
            }
            PartitionDatabaseUpdates::Delta { substate_updates }
        }
        1 => {
            let n = 1 + g.index(3);
            let mut new_substate_values: IndexMap<DbSortKey, Vec<u8>> = IndexMap::default();
            for _ in 0..n {
                let key = g.pick(&pa.sort_keys).clone();
                new_substate_values.insert(key, gen_value(g));
            }
            PartitionDatabaseUpdates::Reset { new_substate_values }
        }
        2 => PartitionDatabaseUpdates::Reset { new_substate_values: IndexMap::default() },
        3 => {
            let mut substate_updates: IndexMap<DbSortKey, DatabaseUpdate> = IndexMap::default();
            if existing_keys.is_empty() {
                // delete of an absent substate
                substate_updates.insert(g.pick(&pa.sort_keys).clone(), DatabaseUpdate::Delete);
            }
            for k in existing_keys {
                substate_updates.insert(DbSortKey(k.clone()), DatabaseUpdate::Delete);
            }
            PartitionDatabaseUpdates::Delta { substate_updates }
        }
        _ => PartitionDatabaseUpdates::Delta { substate_updates: IndexMap::default() },
    }
}

/// One commit over the alphabet. `model` (the content the commit will be applied to) is only used
/// to aim deletes at substates that exist.
pub fn gen_updates(g: &mut Gen, alphabet: &Alphabet, model: &ModelDb, profile: &Profile) -> DatabaseUpdates {
    let mut updates = DatabaseUpdates::default();
    if alphabet.nodes.is_empty() || alphabet.partitions.is_empty() || g.chance(1, 40) {
        return updates; // the empty commit
    }
    let n_nodes = 1 + g.weighted(&[6, 3, 1]);
    for _ in 0..n_nodes {
        let node = g.pick(&alphabet.nodes).clone();
        if updates.node_updates.contains_key(&node) {
            continue;
        }
        let mut node_updates = NodeDatabaseUpdates::default();
        let mut shape = g.weighted(&profile.node);
        if shape == 1 && !alphabet.partitions.iter().any(|pa| model.partition(&node, pa.num).is_some()) {
            shape = 0; // nothing to delete: make an ordinary update instead
        }
        match shape {
            0 => {
                let n_parts = 1 + g.weighted(&[5, 3, 1]);
                for _ in 0..n_parts {
                    let pa = g.pick(&alphabet.partitions);
                    if node_updates.partition_updates.contains_key(&pa.num) {
                        continue;
                    }
                    let pu = gen_partition_update(g, pa, model.partition(&node, pa.num), profile);
                    node_updates.partition_updates.insert(pa.num, pu);
                }
            }
            1 => {
                for pa in &alphabet.partitions {
                    let Some(existing) = model.partition(&node, pa.num) else { continue };
                    let pu = if g.bool() {
                        PartitionDatabaseUpdates::Delta { substate_updates: existing.keys().map(|k| (DbSortKey(k.clone()), DatabaseUpdate::Delete)).collect() }
                    } else {
                        PartitionDatabaseUpdates::Reset { new_substate_values: IndexMap::default() }
                    };
                    node_updates.partition_updates.insert(pa.num, pu);
                }
            }
            _ => {}
        }
        updates.node_updates.insert(node, node_updates);
    }
    updates
}

// ---------------------------------------------------------------------------------------------
// Re-batching (same net effect, different commits)
// ---------------------------------------------------------------------------------------------

/// `first` then `second` as one commit with the same net effect on any database.
pub fn merge_updates(first: &DatabaseUpdates, second: &DatabaseUpdates) -> DatabaseUpdates {
    let mut out = first.clone();
    for (node_key, second_node) in &second.node_updates {
        let out_node = out.node_updates.entry(node_key.clone()).or_default();
        for (num, second_part) in &second_node.partition_updates {
            let merged = match (out_node.partition_updates.get(num), second_part) {
                (None, s) => s.clone(),
                (Some(_), s @ PartitionDatabaseUpdates::Reset { .. }) => s.clone(),
                (Some(PartitionDatabaseUpdates::Delta { substate_updates: a }), PartitionDatabaseUpdates::Delta { substate_updates: b }) => {
                    let mut m = a.clone();
                    for (k, v) in b {
                        m.insert(k.clone(), v.clone());
                    }
                    PartitionDatabaseUpdates::Delta { substate_updates: m }
                }
                (Some(PartitionDatabaseUpdates::Reset { new_substate_values: a }), PartitionDatabaseUpdates::Delta { substate_updates: b }) => {
                    let mut m: BTreeMap<DbSortKey, Vec<u8>> = a.iter().map(|(k, v)| (k.clone(), v.clone())).collect();
                    for (k, v) in b {
                        match v {
                            DatabaseUpdate::Set(value) => {
                                m.insert(k.clone(), value.clone());
                            }
                            DatabaseUpdate::Delete => {
                                m.remove(k);
                            }
                        }
                    }
                    PartitionDatabaseUpdates::Reset { new_substate_values: m.into_iter().collect() }
                }
            };
            out_node.partition_updates.insert(*num, merged);
        }
    }
    out
}

/// The same commit as a sequence of single-substate commits (a reset becomes the empty reset
/// followed by one set per value).
pub fn split_per_substate(updates: &DatabaseUpdates) -> Vec<DatabaseUpdates> {
    fn single(node: &[u8], num: u8, pu: PartitionDatabaseUpdates) -> DatabaseUpdates {
        let mut u = DatabaseUpdates::default();
        u.node_updates.entry(node.to_vec()).or_default().partition_updates.insert(num, pu);
        u
    }
    let mut out = Vec::new();
    for (node_key, node_updates) in &updates.node_updates {
        for (num, pu) in &node_updates.partition_updates {
            match pu {
                PartitionDatabaseUpdates::Delta { substate_updates } => {
                    for (k, v) in substate_updates {
                        let mut m = IndexMap::default();
                        m.insert(k.clone(), v.clone());
                        out.push(single(node_key, *num, PartitionDatabaseUpdates::Delta { substate_updates: m }));
                    }
                }
                PartitionDatabaseUpdates::Reset { new_substate_values } => {
                    out.push(single(node_key, *num, PartitionDatabaseUpdates::Reset { new_substate_values: IndexMap::default() }));
                    for (k, v) in new_substate_values {
                        let mut m = IndexMap::default();
                        m.insert(k.clone(), DatabaseUpdate::Set(v.clone()));
                        out.push(single(node_key, *num, PartitionDatabaseUpdates::Delta { substate_updates: m }));
                    }
                }
            }
        }
    }
    out
}

/// The same commit with entities, partitions and substates listed in reverse order.
pub fn reversed_order(updates: &DatabaseUpdates) -> DatabaseUpdates {
    let mut out = DatabaseUpdates::default();
    for (node_key, node_updates) in updates.node_updates.iter().rev() {
        let mut nu = NodeDatabaseUpdates::default();
        for (num, pu) in node_updates.partition_updates.iter().rev() {
            let pu = match pu {
                PartitionDatabaseUpdates::Delta { substate_updates } => {
                    PartitionDatabaseUpdates::Delta { substate_updates: substate_updates.iter().rev().map(|(k, v)| (k.clone(), v.clone())).collect() }
                }
                PartitionDatabaseUpdates::Reset { new_substate_values } => {
                    PartitionDatabaseUpdates::Reset { new_substate_values: new_substate_values.iter().rev().map(|(k, v)| (k.clone(), v.clone())).collect() }
                }
            };
            nu.partition_updates.insert(*num, pu);
        }
        out.node_updates.insert(node_key.clone(), nu);
    }
    out
}

// ---------------------------------------------------------------------------------------------
// Rendering
// ---------------------------------------------------------------------------------------------

pub fn hx(bytes: &[u8], full: bool) -> String {
    if bytes.is_empty() {
        "''".to_string()
    } else if full || bytes.len() <= 8 {
        hex::encode(bytes)
    } else {
        format!("{}..{}({}B)", hex::encode(&bytes[..3]), hex::encode(&bytes[bytes.len() - 3..]), bytes.len())
    }
}

pub fn render_updates(updates: &DatabaseUpdates, full: bool) -> String {
    let mut s = String::from("{");
    for (i, (node_key, node_updates)) in updates.node_updates.iter().enumerate() {
        if i > 0 {
            s.push_str("; ");
        }
        s.push_str(&format!("node {}:", hx(node_key, full)));
        if node_updates.partition_updates.is_empty() {
            s.push_str(" (no partition updates)");
        }
        for (num, pu) in &node_updates.partition_updates {
            match pu {
                PartitionDatabaseUpdates::Delta { substate_updates } => {
                    s.push_str(&format!(" p{}=Delta[", num));
                    for (j, (k, v)) in substate_updates.iter().enumerate() {
                        if j > 0 {
                            s.push(' ');
                        }
                        match v {
                            DatabaseUpdate::Set(value) => s.push_str(&format!("{}:={}", hx(&k.0, full), hx(value, full))),
                            DatabaseUpdate::Delete => s.push_str(&format!("{}:del", hx(&k.0, full))),
                        }
                    }
                    s.push(']');
                }
                PartitionDatabaseUpdates::Reset { new_substate_values } => {
                    s.push_str(&format!(" p{}=Reset[", num));
                    for (j, (k, value)) in new_substate_values.iter().enumerate() {
                        if j > 0 {
                            s.push(' ');
                        }
                        s.push_str(&format!("{}:={}", hx(&k.0, full), hx(value, full)));
                    }
                    s.push(']');
                }
            }
        }
    }
    s.push('}');
    s
}

pub fn render_history(history: &[DatabaseUpdates], full: bool) -> String {
    history.iter().enumerate().map(|(i, u)| format!("#{} {}", i + 1, render_updates(u, full))).collect::<Vec<_>>().join("  ")
}

pub fn render_model(model: &ModelDb, full: bool) -> String {
    let mut s = String::from("{");
    for (i, ((n, p), content)) in model.parts.iter().enumerate() {
        if i > 0 {
            s.push_str("; ");
        }
        s.push_str(&format!("{}/p{}: ", hx(n, full), p));
        s.push_str(&content.iter().map(|(k, v)| format!("{}={}", hx(k, full), hx(v, full))).collect::<Vec<_>>().join(" "));
    }
    s.push('}');
    s
}

pub fn render_alphabet(a: &Alphabet) -> String {
    format!(
        "{} x{}; {}",
        a.node_kind,
        a.nodes.len(),
        a.partitions.iter().map(|p| format!("p{} {} x{}", p.num, p.kind, p.sort_keys.len())).collect::<Vec<_>>().join(", ")
    )
}

#[cfg(test)]
mod tests {
    use super::*;

    fn sk(b: &[u8]) -> DbSortKey {
        DbSortKey(b.to_vec())
    }

    #[test]
    fn delta_reset_semantics_and_listing() {
        let mut m = ModelDb::new();
        let mut u = DatabaseUpdates::default();
        let mut d = IndexMap::default();
        d.insert(sk(&[1]), DatabaseUpdate::Set(vec![9]));
        d.insert(sk(&[3]), DatabaseUpdate::Set(vec![8]));
        u.node_updates.entry(vec![7]).or_default().partition_updates.insert(0, PartitionDatabaseUpdates::Delta { substate_updates: d });
        m.apply(&u);
        let pk = DbPartitionKey { node_key: vec![7], partition_num: 0 };
        assert_eq!(m.list_from(&pk, Some(&sk(&[2]))), vec![(sk(&[3]), vec![8])]);
        assert_eq!(m.list_from(&pk, Some(&sk(&[1]))).len(), 2);
        let mut u2 = DatabaseUpdates::default();
        u2.node_updates.entry(vec![7]).or_default().partition_updates.insert(0, PartitionDatabaseUpdates::Reset { new_substate_values: IndexMap::default() });
        let merged = merge_updates(&u, &u2);
        m.apply(&u2);
        assert!(m.is_empty());
        let mut m2 = ModelDb::new();
        m2.apply(&merged);
        assert!(m2.is_empty());
    }
}
