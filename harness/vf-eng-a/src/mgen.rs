//! R7: typed manifest generator over the standard world (`vf_world::World::standard` + `build_world`).
//!
//! A `Plan` is a list of abstract instructions (`Ins`) together with what the generator expects of
//! each (`ok` = succeeds when reached) and of the whole transaction (`Expect`). The generator keeps a
//! `Model` of the balances it cares about (fungibles per account in attos, known non-fungible ids per
//! account, a lower bound of the XRD balances), so failing transactions are generated on purpose:
//! every failing plan ends with exactly one instruction (group) that is expected to fail.
//!
//! Everything random is drawn from the `Gen` tape; exhausted tape ⇒ the simplest plan (faucet fee,
//! one small transfer from account 0, success).

use scrypto_test::prelude::*;
use std::collections::BTreeSet;
use vf_core::Gen;
use vf_world::*;

pub const LOOP_WAT: &str = r#"
(module
  (func $Test_f (param $0 i64) (result i64)
    (local $i i32)
    (loop $loop
      local.get $i
      i32.const 1
      i32.add
      local.set $i
      local.get $i
      i32.const ${n}
      i32.lt_s
      br_if $loop
    )
    (i32.const 0)
    (i32.const 92)
    (i32.store8)
    (i32.const 1)
    (i32.const 33)
    (i32.store8)
    (i32.const 2)
    (i32.const 0)
    (i32.store8)
    (i64.const 3)
  )
  (memory $0 1)
  (export "memory" (memory $0))
  (export "Test_f" (func $Test_f))
)
"#;

/// A tiny WASM package (blueprint `Test`, function `f` looping `n` times and returning unit).
pub fn wat_package(n: u32) -> (Vec<u8>, PackageDefinition) {
    let code = wat2wasm(&LOOP_WAT.replace("${n}", &n.to_string()));
    (code, single_function_package_definition("Test", "f"))
}

/// What `build_world` adds to the standard world.
#[derive(Clone, Debug)]
pub struct Ext {
    /// WAT packages published at world creation (loop counts 3 and 400)
    pub wat: Vec<PackageAddress>,
    /// a global Puppet component (owner allow_all) whose state scripts may write
    pub comp: ComponentAddress,
    /// a global Puppet component with a royalty module charging 1 XRD for `act` (None if setting it up failed)
    pub royal: Option<ComponentAddress>,
}

fn any_u32(v: u32) -> Vec<u8> {
    scrypto_encode(&v).unwrap()
}

/// `build_fn` for `with_world`: WAT packages + two persistent puppet components.
pub fn build_world(w: &mut World) {
    let mut wat = Vec::new();
    for n in [3u32, 400] {
        wat.push(w.sim.publish_package(wat_package(n), BTreeMap::new(), OwnerRole::None));
    }
    let fields = || vec![(0u8, any_u32(1), false), (1u8, any_u32(2), false), (2u8, any_u32(3), false)];
    let script = Script(vec![
        Op::NewObject { blueprint: PUPPET_BLUEPRINT.into(), fields: fields(), kv: vec![] },
        Op::Globalize { object: N::Slot(0), owner: OwnerSpec::Fixed(rule!(allow_all)), reservation: None, with_royalty: false },
        Op::NewObject { blueprint: PUPPET_BLUEPRINT.into(), fields: fields(), kv: vec![] },
        Op::Globalize { object: N::Slot(2), owner: OwnerSpec::Fixed(rule!(allow_all)), reservation: None, with_royalty: true },
    ]);
    let run = w.run(w.puppet_manifest(w.puppet_p, &script), vec![]);
    let comps: Vec<ComponentAddress> = run
        .commit()
        .filter(|_| run.is_success())
        .map(|c| c.new_component_addresses().iter().cloned().collect())
        .unwrap_or_else(|| panic!("vf-eng-a build_world: puppet components not created: {}", run.outcome_string()));
    assert!(comps.len() >= 2, "vf-eng-a build_world: expected two puppet components, got {:?}", comps);
    let comp = comps[0];
    let royal = comps[1];
    let m = ManifestBuilder::new()
        .lock_fee_from_faucet()
        .set_component_royalty(royal, PUPPET_ACT, RoyaltyAmount::Xrd(dec!(1)))
        .build();
    let r = w.run(m, vec![]);
    let royal = if r.is_success() { Some(royal) } else { None };
    w.set_ext(Ext { wat, comp, royal });
}

// ---------------------------------------------------------------------------------------------
// model
// ---------------------------------------------------------------------------------------------

pub const ATTO: u128 = 1;
pub const ONE: u128 = 1_000_000_000_000_000_000;

pub fn dec_of(attos: u128) -> Decimal {
    Decimal::from_attos(I192::from(attos))
}

#[derive(Clone, Debug)]
pub struct Model {
    /// balance in attos, `[fungible index][account]`
    pub fung: Vec<Vec<u128>>,
    /// lower bound of the XRD balance of each account, attos
    pub xrd_lb: Vec<u128>,
    /// known ids `[non-fungible index][account]`
    pub nf: Vec<Vec<BTreeSet<NonFungibleLocalId>>>,
    /// counter for fresh non-fungible ids
    pub next_id: u64,
    /// counter for KV keys of the persistent puppet components never used before in this history
    pub next_key: u32,
    /// WASM packages callable (`Test::f`): the world's plus those published by the history
    pub wasm: Vec<PackageAddress>,
}

impl Model {
    pub fn new(w: &World) -> Model {
        let n_acc = w.accounts.len();
        let fung = w
            .fungibles
            .iter()
            .map(|_| (0..n_acc).map(|a| if a == 0 { (100_000 - 10_000 * (n_acc as u128 - 1)) * ONE } else { 10_000 * ONE }).collect())
            .collect();
        let nf = w
            .non_fungibles
            .iter()
            .map(|r| (0..n_acc).map(|a| r.initial_ids.iter().filter(|(acc, _)| *acc == a).map(|(_, id)| id.clone()).collect()).collect())
            .collect();
        Model { fung, xrd_lb: vec![10_000 * ONE; n_acc], nf, next_id: 1, next_key: 0, wasm: w.ext::<Ext>().wat.clone() }
    }
}

// ---------------------------------------------------------------------------------------------
// instructions
// ---------------------------------------------------------------------------------------------

#[derive(Clone, Debug)]
pub enum I {
    LockFeeFaucet,
    LockFee { acct: usize, amount: Decimal, contingent: bool },
    Withdraw { acct: usize, res: ResourceAddress, amount: Decimal },
    WithdrawNf { acct: usize, res: ResourceAddress, ids: Vec<NonFungibleLocalId> },
    TakeAll { res: ResourceAddress, bucket: String },
    Take { res: ResourceAddress, amount: Decimal, bucket: String },
    Deposit { acct: usize, bucket: String },
    TryDeposit { acct: usize, bucket: String },
    DepositAll { acct: usize },
    TryDepositAll { acct: usize },
    AssertContains { res: ResourceAddress, amount: Decimal },
    /// proof of `amount` of the world badge from account 0 into the auth zone
    BadgeProof { amount: Decimal },
    MintFungible { res: ResourceAddress, amount: Decimal },
    MintNf { res: ResourceAddress, entries: Vec<(NonFungibleLocalId, NfData)> },
    MintRuid { res: ResourceAddress, entries: Vec<NfData> },
    UpdateNf { res: ResourceAddress, id: NonFungibleLocalId, field: &'static str, text: Option<String>, number: u64 },
    BurnFromWorktop { res: ResourceAddress, amount: Decimal },
    BurnAllFromWorktop { res: ResourceAddress },
    FaucetFree,
    CallFunction { pkg: PackageAddress, blueprint: String, func: String, args: ManifestValue, what: String },
    CallMethod { addr: ComponentAddress, method: String, args: ManifestValue, what: String },
    PublishWat { n: u32 },
    /// drops the regular (non-signature) proofs of the auth zone
    DropRegularProofs,
}

#[derive(Clone, Debug)]
pub struct Ins {
    pub i: I,
    /// expected to succeed when reached
    pub ok: bool,
}

#[derive(Clone, Debug, PartialEq, Eq)]
pub enum Expect {
    Success,
    /// commits as a failure (the string names the deliberate failure)
    Failure(&'static str),
    /// rejected
    Reject(&'static str),
    /// depends on exact fees; not asserted
    Unknown(&'static str),
}

#[derive(Clone, Debug, PartialEq, Eq)]
pub enum FeePlan {
    Faucet,
    /// (account, amount, contingent)
    Accounts(Vec<(usize, Decimal, bool)>),
    TooSmall(usize, Decimal),
    None,
}

#[derive(Clone, Debug)]
pub struct Plan {
    pub ins: Vec<Ins>,
    pub signers: BTreeSet<usize>,
    pub expect: Expect,
    /// the model after the transaction if it commits successfully
    pub after: Model,
    /// classes of the actions in the body
    pub labels: Vec<&'static str>,
    pub fee: FeePlan,
    /// number of PublishWat instructions (their package addresses are appended to `Model::wasm` by `commit_success`)
    pub publishes: usize,
}

fn short(a: &ResourceAddress, w: &World) -> String {
    if *a == XRD {
        return "XRD".into();
    }
    if *a == w.badge {
        return "BADGE".into();
    }
    if let Some(i) = w.fungibles.iter().position(|f| f.address == *a) {
        return format!("F{}", i);
    }
    if let Some(i) = w.non_fungibles.iter().position(|f| f.address == *a) {
        return format!("NF{}", i);
    }
    format!("{:?}", a)
}

impl I {
    pub fn describe(&self, w: &World) -> String {
        match self {
            I::LockFeeFaucet => "lock_fee(faucet)".into(),
            I::LockFee { acct, amount, contingent } => format!("lock_{}fee(A{},{})", if *contingent { "contingent_" } else { "" }, acct, amount),
            I::Withdraw { acct, res, amount } => format!("withdraw(A{},{},{})", acct, short(res, w), amount),
            I::WithdrawNf { acct, res, ids } => format!("withdraw_nf(A{},{},{:?})", acct, short(res, w), ids.iter().map(|i| i.to_string()).collect::<Vec<_>>()),
            I::TakeAll { res, bucket } => format!("take_all({})->{}", short(res, w), bucket),
            I::Take { res, amount, bucket } => format!("take({},{})->{}", short(res, w), amount, bucket),
            I::Deposit { acct, bucket } => format!("deposit(A{},{})", acct, bucket),
            I::TryDeposit { acct, bucket } => format!("try_deposit_or_abort(A{},{})", acct, bucket),
            I::DepositAll { acct } => format!("deposit_batch(A{},worktop)", acct),
            I::TryDepositAll { acct } => format!("try_deposit_batch_or_abort(A{},worktop)", acct),
            I::AssertContains { res, amount } => format!("assert_worktop_contains({},{})", short(res, w), amount),
            I::BadgeProof { amount } => format!("proof(A0,BADGE,{})", amount),
            I::MintFungible { res, amount } => format!("mint({},{})", short(res, w), amount),
            I::MintNf { res, entries } => format!("mint_nf({},{:?})", short(res, w), entries.iter().map(|(i, _)| i.to_string()).collect::<Vec<_>>()),
            I::MintRuid { res, entries } => format!("mint_ruid({},{})", short(res, w), entries.len()),
            I::UpdateNf { res, id, field, .. } => format!("update_nf_data({},{},{})", short(res, w), id, field),
            I::BurnFromWorktop { res, amount } => format!("burn({},{})", short(res, w), amount),
            I::BurnAllFromWorktop { res } => format!("burn_all({})", short(res, w)),
            I::FaucetFree => "faucet.free()".into(),
            I::CallFunction { what, .. } => format!("call_function[{}]", what),
            I::CallMethod { what, .. } => format!("call_method[{}]", what),
            I::PublishWat { n } => format!("publish_wat(n={})", n),
            I::DropRegularProofs => "drop_auth_zone_regular_proofs".into(),
        }
    }
}

impl Plan {
    pub fn describe(&self, w: &World) -> String {
        format!(
            "[signers {:?}; expect {:?}] {}",
            self.signers,
            self.expect,
            self.ins.iter().map(|i| format!("{}{}", i.i.describe(w), if i.ok { "" } else { " !FAILS" })).collect::<Vec<_>>().join("; ")
        )
    }

    pub fn proofs(&self, w: &World) -> Vec<NonFungibleGlobalId> {
        self.signers.iter().map(|a| w.accounts[*a].badge()).collect()
    }

    /// Same body and signers with another fee section (used by C02's "fee too small at each point").
    pub fn with_single_lock(&self, acct: usize, amount: Decimal) -> Plan {
        let mut p = self.clone();
        p.ins.retain(|i| !matches!(i.i, I::LockFeeFaucet | I::LockFee { .. }));
        p.ins.insert(0, Ins { i: I::LockFee { acct, amount, contingent: false }, ok: true });
        p.signers.insert(acct);
        p.fee = FeePlan::TooSmall(acct, amount);
        p.expect = Expect::Unknown("fee amount varied");
        p
    }

    pub fn render(&self, w: &World) -> TransactionManifestV1 {
        let acc = |a: &usize| w.accounts[*a].address;
        let mut b = ManifestBuilder::new();
        for ins in &self.ins {
            b = match &ins.i {
                I::LockFeeFaucet => b.lock_fee_from_faucet(),
                I::LockFee { acct, amount, contingent } => {
                    if *contingent {
                        b.lock_contingent_fee(acc(acct), *amount)
                    } else {
                        b.lock_fee(acc(acct), *amount)
                    }
                }
                I::Withdraw { acct, res, amount } => b.withdraw_from_account(acc(acct), *res, *amount),
                I::WithdrawNf { acct, res, ids } => b.withdraw_non_fungibles_from_account(acc(acct), *res, ids.clone()),
                I::TakeAll { res, bucket } => b.take_all_from_worktop(*res, bucket.as_str()),
                I::Take { res, amount, bucket } => b.take_from_worktop(*res, *amount, bucket.as_str()),
                I::Deposit { acct, bucket } => b.deposit(acc(acct), bucket.as_str()),
                I::TryDeposit { acct, bucket } => b.try_deposit_or_abort(acc(acct), None, bucket.as_str()),
                I::DepositAll { acct } => b.deposit_entire_worktop(acc(acct)),
                I::TryDepositAll { acct } => b.try_deposit_entire_worktop_or_abort(acc(acct), None),
                I::AssertContains { res, amount } => b.assert_worktop_contains(*res, *amount),
                I::BadgeProof { amount } => b.create_proof_from_account_of_amount(w.accounts[0].address, w.badge, *amount),
                I::MintFungible { res, amount } => b.mint_fungible(*res, *amount),
                I::MintNf { res, entries } => b.mint_non_fungible(*res, entries.clone()),
                I::MintRuid { res, entries } => b.mint_ruid_non_fungible(*res, entries.clone()),
                I::UpdateNf { res, id, field, text, number } => match text {
                    Some(t) => b.update_non_fungible_data(*res, id.clone(), *field, t.clone()),
                    None => b.update_non_fungible_data(*res, id.clone(), *field, *number),
                },
                I::BurnFromWorktop { res, amount } => b.burn_from_worktop(*amount, *res),
                I::BurnAllFromWorktop { res } => b.burn_all_from_worktop(*res),
                I::FaucetFree => b.get_free_xrd_from_faucet(),
                I::CallFunction { pkg, blueprint, func, args, .. } => b.call_function_raw(*pkg, blueprint.clone(), func.clone(), args.clone()),
                I::CallMethod { addr, method, args, .. } => b.call_method_raw(*addr, method.clone(), args.clone()),
                I::PublishWat { n } => {
                    let (code, def) = wat_package(*n);
                    b.publish_package_advanced(None, code, def, MetadataInit::default(), OwnerRole::None)
                }
                I::DropRegularProofs => b.drop_auth_zone_regular_proofs(),
            };
        }
        b.build()
    }

    /// Compares the receipt with the expectation; `Err` describes a misprediction.
    pub fn check_expect(&self, receipt: &TransactionReceipt) -> Result<(), String> {
        let got = match &receipt.result {
            TransactionResult::Commit(c) => match &c.outcome {
                TransactionOutcome::Success(_) => "CommitSuccess".to_string(),
                TransactionOutcome::Failure(e) => format!("CommitFailure({:?})", e),
            },
            TransactionResult::Reject(r) => format!("Reject({:?})", r.reason),
            TransactionResult::Abort(a) => format!("Abort({:?})", a.reason),
        };
        let ok = match &self.expect {
            Expect::Success => got == "CommitSuccess",
            Expect::Failure(_) => got.starts_with("CommitFailure"),
            Expect::Reject(_) => got.starts_with("Reject"),
            Expect::Unknown(_) => true,
        };
        if ok {
            Ok(())
        } else {
            Err(format!("expected {:?}, got {}", self.expect, got))
        }
    }

    /// The model after this plan committed successfully with the given receipt.
    pub fn commit_success(&self, receipt: &TransactionReceipt) -> Model {
        let mut m = self.after.clone();
        if self.publishes > 0 {
            if let TransactionResult::Commit(c) = &receipt.result {
                for p in c.new_package_addresses() {
                    m.wasm.push(*p);
                }
            }
        }
        m
    }
}

// ---------------------------------------------------------------------------------------------
// generation
// ---------------------------------------------------------------------------------------------

#[derive(Clone, Debug)]
pub struct Opts {
    /// allow PublishWat actions
    pub allow_publish: bool,
    /// percentage of plans that end in a deliberate failure
    pub fail_pct: u64,
    /// percentage of plans with an odd fee section (too small / none / failure before the lock)
    pub odd_fee_pct: u64,
    /// maximal number of actions in the body
    pub max_actions: usize,
}

impl Opts {
    pub fn history() -> Opts {
        Opts { allow_publish: true, fail_pct: 15, odd_fee_pct: 6, max_actions: 5 }
    }
    pub fn failing_mix() -> Opts {
        Opts { allow_publish: false, fail_pct: 45, odd_fee_pct: 10, max_actions: 4 }
    }
}

struct B<'a> {
    w: &'a World,
    ext: Ext,
    m: Model,
    ins: Vec<Ins>,
    signers: BTreeSet<usize>,
    labels: Vec<&'static str>,
    buckets: usize,
    badge_proof: bool,
    free_used: bool,
    publishes: usize,
    /// accounts whose XRD vault locks fee in this plan
    payers: Vec<usize>,
}

const UNITS_CAP: u128 = 1_000_000_000_000;

impl<'a> B<'a> {
    fn push(&mut self, i: I) {
        self.ins.push(Ins { i, ok: true });
    }
    fn push_fail(&mut self, i: I) {
        self.ins.push(Ins { i, ok: false });
    }
    fn bucket(&mut self) -> String {
        self.buckets += 1;
        format!("b{}", self.buckets)
    }
    fn n_acc(&self) -> usize {
        self.w.accounts.len()
    }
    fn unit(div: u8) -> u128 {
        10u128.pow(18 - div as u32)
    }
    /// An amount in 1 unit ..= max (attos, multiple of the unit); `None` if max < 1 unit.
    fn amount(g: &mut Gen, max: u128, div: u8) -> Option<u128> {
        let unit = Self::unit(div);
        let max_units = max / unit;
        if max_units == 0 {
            return None;
        }
        let k = match g.weighted(&[5, 2, 2, 3]) {
            0 => 1 + g.below(max_units.min(1000) as u64) as u128,
            1 => 1,
            2 => max_units,
            _ => 1 + g.below(max_units.min(UNITS_CAP) as u64) as u128,
        };
        Some(k * unit)
    }
    fn need_badge_proof(&mut self) {
        if !self.badge_proof {
            let amount = dec_of(ONE);
            self.push(I::BadgeProof { amount });
            self.signers.insert(0);
            self.badge_proof = true;
        }
    }

    /// Moves everything the action put on the worktop (one resource) to an account, by one of the deposit styles.
    fn deposit_worktop(&mut self, g: &mut Gen, res: ResourceAddress, fungible_amount: Option<(u128, u8)>) -> usize {
        let to = g.index(self.n_acc());
        match g.weighted(&[4, 2, 2, 2, 2]) {
            0 => self.push(I::TryDepositAll { acct: to }),
            1 => {
                self.signers.insert(to);
                self.push(I::DepositAll { acct: to });
            }
            2 => {
                let b = self.bucket();
                self.push(I::TakeAll { res, bucket: b.clone() });
                self.push(I::TryDeposit { acct: to, bucket: b });
            }
            3 => {
                let b = self.bucket();
                self.push(I::TakeAll { res, bucket: b.clone() });
                self.signers.insert(to);
                self.push(I::Deposit { acct: to, bucket: b });
            }
            _ => {
                // split: a part through a bucket, the rest through the worktop — both to the same account
                if let Some((total, div)) = fungible_amount {
                    if let Some(part) = Self::amount(g, total, div) {
                        let b = self.bucket();
                        self.push(I::AssertContains { res, amount: dec_of(part) });
                        self.push(I::Take { res, amount: dec_of(part), bucket: b.clone() });
                        self.push(I::TryDeposit { acct: to, bucket: b });
                    }
                }
                self.push(I::TryDepositAll { acct: to });
            }
        }
        to
    }

    // ---- successful actions; each returns false if it could not be built (nothing pushed) ----

    fn transfer_fungible(&mut self, g: &mut Gen) -> bool {
        let r = g.index(self.w.fungibles.len());
        let from = g.index(self.n_acc());
        let div = self.w.fungibles[r].divisibility;
        let bal = self.m.fung[r][from];
        let Some(amount) = Self::amount(g, bal, div) else { return false };
        let res = self.w.fungibles[r].address;
        self.signers.insert(from);
        self.push(I::Withdraw { acct: from, res, amount: dec_of(amount) });
        self.m.fung[r][from] -= amount;
        let to = self.deposit_worktop(g, res, Some((amount, div)));
        self.m.fung[r][to] += amount;
        self.labels.push("transfer fungible");
        true
    }

    fn transfer_xrd(&mut self, g: &mut Gen) -> bool {
        let from = g.index(self.n_acc());
        if self.m.xrd_lb[from] < 1000 * ONE {
            return false;
        }
        let Some(amount) = Self::amount(g, 50 * ONE, 18) else { return false };
        self.signers.insert(from);
        self.push(I::Withdraw { acct: from, res: XRD, amount: dec_of(amount) });
        self.m.xrd_lb[from] -= amount;
        let to = self.deposit_worktop(g, XRD, Some((amount, 18)));
        self.m.xrd_lb[to] += amount;
        self.labels.push("transfer XRD");
        true
    }

    fn mint_fungible(&mut self, g: &mut Gen) -> bool {
        let candidates: Vec<usize> = (0..self.w.fungibles.len()).filter(|i| self.w.fungibles[*i].mint != Gate::Closed).collect();
        let r = *g.pick(&candidates);
        let f = self.w.fungibles[r].clone();
        if f.mint == Gate::Badge {
            self.need_badge_proof();
        }
        let Some(amount) = Self::amount(g, 1000 * ONE, f.divisibility) else { return false };
        self.push(I::MintFungible { res: f.address, amount: dec_of(amount) });
        let to = self.deposit_worktop(g, f.address, Some((amount, f.divisibility)));
        self.m.fung[r][to] += amount;
        self.labels.push("mint fungible");
        true
    }

    fn burn_fungible(&mut self, g: &mut Gen) -> bool {
        let candidates: Vec<usize> = (0..self.w.fungibles.len()).filter(|i| self.w.fungibles[*i].burn != Gate::Closed).collect();
        let r = *g.pick(&candidates);
        let f = self.w.fungibles[r].clone();
        let from = g.index(self.n_acc());
        let Some(amount) = Self::amount(g, self.m.fung[r][from].min(500 * ONE), f.divisibility) else { return false };
        if f.burn == Gate::Badge {
            self.need_badge_proof();
        }
        self.signers.insert(from);
        self.push(I::Withdraw { acct: from, res: f.address, amount: dec_of(amount) });
        self.push(I::BurnFromWorktop { res: f.address, amount: dec_of(amount) });
        self.m.fung[r][from] -= amount;
        self.labels.push("burn fungible");
        true
    }

    fn pick_known_ids(&self, g: &mut Gen, r: usize, acct: usize, max: usize) -> Vec<NonFungibleLocalId> {
        let ids: Vec<NonFungibleLocalId> = self.m.nf[r][acct].iter().cloned().collect();
        if ids.is_empty() {
            return vec![];
        }
        let n = 1 + g.index(max.min(ids.len()));
        let start = g.index(ids.len() - n + 1);
        ids[start..start + n].to_vec()
    }

    fn transfer_nf(&mut self, g: &mut Gen) -> bool {
        let r = g.index(self.w.non_fungibles.len());
        let from = g.index(self.n_acc());
        let ids = self.pick_known_ids(g, r, from, 2);
        if ids.is_empty() {
            return false;
        }
        let res = self.w.non_fungibles[r].address;
        self.signers.insert(from);
        self.push(I::WithdrawNf { acct: from, res, ids: ids.clone() });
        for id in &ids {
            self.m.nf[r][from].remove(id);
        }
        let to = self.deposit_worktop(g, res, None);
        for id in ids {
            self.m.nf[r][to].insert(id);
        }
        self.labels.push("transfer non-fungible");
        true
    }

    fn fresh_id(&mut self, t: NonFungibleIdType) -> NonFungibleLocalId {
        let n = 1000 + self.m.next_id;
        self.m.next_id += 1;
        match t {
            NonFungibleIdType::Integer => NonFungibleLocalId::integer(n),
            NonFungibleIdType::String => NonFungibleLocalId::string(format!("g_{}", n)).unwrap(),
            _ => NonFungibleLocalId::bytes(n.to_be_bytes().to_vec()).unwrap(),
        }
    }

    fn mint_nf(&mut self, g: &mut Gen) -> bool {
        let r = g.index(self.w.non_fungibles.len());
        let nf = self.w.non_fungibles[r].clone();
        if nf.mint == Gate::Closed {
            return false;
        }
        if nf.mint == Gate::Badge {
            self.need_badge_proof();
        }
        let n = 1 + g.index(4);
        let data = |g: &mut Gen| NfData { a: g.below(1000), b: format!("s{}", g.below(100)), c: g.below(7) };
        if nf.id_type == NonFungibleIdType::RUID {
            let entries: Vec<NfData> = (0..n).map(|_| data(g)).collect();
            self.push(I::MintRuid { res: nf.address, entries });
            self.deposit_worktop(g, nf.address, None);
            self.labels.push("mint RUID non-fungibles");
        } else {
            let mut entries = Vec::new();
            for _ in 0..n {
                let id = self.fresh_id(nf.id_type);
                entries.push((id, data(g)));
            }
            let ids: Vec<NonFungibleLocalId> = entries.iter().map(|(i, _)| i.clone()).collect();
            self.push(I::MintNf { res: nf.address, entries });
            let to = self.deposit_worktop(g, nf.address, None);
            for id in ids {
                self.m.nf[r][to].insert(id);
            }
            self.labels.push("mint non-fungibles");
        }
        true
    }

    fn burn_nf(&mut self, g: &mut Gen) -> bool {
        let r = g.index(self.w.non_fungibles.len());
        let nf = self.w.non_fungibles[r].clone();
        if nf.burn == Gate::Closed {
            return false;
        }
        let from = g.index(self.n_acc());
        let ids = self.pick_known_ids(g, r, from, 2);
        if ids.is_empty() {
            return false;
        }
        if nf.burn == Gate::Badge {
            self.need_badge_proof();
        }
        self.signers.insert(from);
        self.push(I::WithdrawNf { acct: from, res: nf.address, ids: ids.clone() });
        self.push(I::BurnAllFromWorktop { res: nf.address });
        for id in &ids {
            self.m.nf[r][from].remove(id);
        }
        self.labels.push("burn non-fungibles");
        true
    }

    fn update_nf(&mut self, g: &mut Gen) -> bool {
        let candidates: Vec<usize> = (0..self.w.non_fungibles.len()).filter(|i| self.w.non_fungibles[*i].update_data != Gate::Closed).collect();
        let r = *g.pick(&candidates);
        let nf = self.w.non_fungibles[r].clone();
        let acct = g.index(self.n_acc());
        let ids = self.pick_known_ids(g, r, acct, 1);
        let Some(id) = ids.first().cloned() else { return false };
        if nf.update_data == Gate::Badge {
            self.need_badge_proof();
        }
        if g.bool() {
            self.push(I::UpdateNf { res: nf.address, id, field: "b", text: Some(format!("u{}", g.below(1000))), number: 0 });
        } else {
            self.push(I::UpdateNf { res: nf.address, id, field: "c", text: None, number: g.below(1 << 20) });
        }
        self.labels.push("update non-fungible data");
        true
    }

    fn faucet_free(&mut self, g: &mut Gen) -> bool {
        if self.free_used {
            return false;
        }
        self.free_used = true;
        self.push(I::FaucetFree);
        let to = self.deposit_worktop(g, XRD, Some((10_000 * ONE, 18)));
        self.m.xrd_lb[to] += 10_000 * ONE;
        self.labels.push("faucet free (WASM)");
        true
    }

    fn wasm_call(&mut self, g: &mut Gen) -> bool {
        let pkg = *g.pick(&self.m.wasm);
        self.push(I::CallFunction {
            pkg,
            blueprint: "Test".into(),
            func: "f".into(),
            args: ManifestValue::Tuple { fields: vec![] },
            what: format!("wat {}", &pkg.to_hex()[50..]),
        });
        self.labels.push("call WAT package");
        true
    }

    fn publish(&mut self, g: &mut Gen) -> bool {
        let n = 1 + g.below(3000) as u32;
        self.push(I::PublishWat { n });
        self.publishes += 1;
        self.labels.push("publish WAT package");
        true
    }

    fn puppet_pkg(&self, g: &mut Gen) -> PackageAddress {
        if g.bool() {
            self.w.puppet_q
        } else {
            self.w.puppet_p
        }
    }

    fn push_puppet_run(&mut self, g: &mut Gen, script: Script, what: String, ok: bool) {
        let pkg = self.puppet_pkg(g);
        let i = I::CallFunction {
            pkg,
            blueprint: PUPPET_BLUEPRINT.into(),
            func: PUPPET_RUN.into(),
            args: ManifestValue::Tuple { fields: vec![script.clone_as_manifest_value()] },
            what,
        };
        self.ins.push(Ins { i, ok });
    }

    fn push_puppet_act(&mut self, addr: ComponentAddress, script: Script, what: String, ok: bool) {
        let i = I::CallMethod {
            addr,
            method: PUPPET_ACT.into(),
            args: ManifestValue::Tuple { fields: vec![script.clone_as_manifest_value()] },
            what,
        };
        self.ins.push(Ins { i, ok });
    }

    /// A script run as a function: `kind` 0 nodes, 1 kv store owned by a new global object, 2 events+logs.
    fn function_script(&mut self, g: &mut Gen, tail: Vec<Op>) -> (Script, String) {
        let mut ops = Vec::new();
        let what;
        match g.weighted(&[3, 3, 2]) {
            0 => {
                let n = 1 + g.index(5);
                for i in 0..n {
                    ops.push(Op::NewObject {
                        blueprint: PUPPET_BLUEPRINT.into(),
                        fields: vec![(0, any_u32(g.below(1 << 16) as u32), false), (1, any_u32(i as u32), false), (2, any_u32(7), g.bool())],
                        kv: vec![],
                    });
                    ops.push(Op::Globalize { object: N::Slot((2 * i) as u8), owner: OwnerSpec::None, reservation: None, with_royalty: g.chance(1, 4) });
                }
                what = format!("puppet: {} new global objects", n);
                self.labels.push("puppet: many new nodes");
            }
            1 => {
                let n = 1 + g.index(12);
                ops.push(Op::KvStoreNew { allow_ownership: false });
                let mut keys = BTreeSet::new();
                for i in 0..n {
                    let mut k = g.below(1 << 12) as u32;
                    while !keys.insert(k) {
                        k += 1;
                    }
                    ops.push(Op::KvOpen { store: N::Slot(0), key: any_u32(k), mutable: true });
                    ops.push(Op::KvSet((1 + 3 * i) as u8, scrypto_encode(&(k, format!("v{}", i))).unwrap()));
                    ops.push(Op::KvClose((1 + 3 * i) as u8));
                }
                let own = scrypto_encode(&Own(placeholder(0))).unwrap();
                let obj_slot = (1 + 3 * n) as u8;
                ops.push(Op::NewObject { blueprint: PUPPET_BLUEPRINT.into(), fields: vec![(0, own, false), (1, any_u32(1), false), (2, any_u32(2), false)], kv: vec![] });
                ops.push(Op::Globalize { object: N::Slot(obj_slot), owner: OwnerSpec::None, reservation: None, with_royalty: false });
                what = format!("puppet: kv store with {} entries in a new global object", n);
                self.labels.push("puppet: many KV entries");
            }
            _ => {
                let n = 1 + g.index(6);
                for _ in 0..n {
                    let name = *g.pick(&PUPPET_EVENTS);
                    let data = g.blob(40);
                    ops.push(Op::ActorEmitEvent { name: name.into(), data: puppet_event_data(data), force_write: false });
                }
                let l = g.index(4);
                for i in 0..l {
                    ops.push(Op::Log { level: g.below(5) as u8, message: format!("log {}", i) });
                }
                what = format!("puppet: {} events, {} logs", n, l);
                self.labels.push("puppet: events and logs");
            }
        }
        ops.extend(tail);
        (Script(ops), what)
    }

    /// A script run as `act` on a persistent puppet component: writes fields and the three collections.
    fn act_script(&mut self, g: &mut Gen, tail: Option<usize>) -> (Script, String) {
        let mut ops: Vec<Op> = Vec::new();
        let mut slot = 0u8;
        let kv = g.index(5);
        let mut keys = BTreeSet::new();
        for _ in 0..kv {
            let mut k = g.below(64) as u32;
            while !keys.insert(k) {
                k += 1;
            }
            ops.push(Op::ActorOpenKv { state: 0, collection: PUPPET_COLL_KV, key: any_u32(k), flags: 1 });
            ops.push(Op::KvSet(slot, any_u32(g.below(1 << 16) as u32)));
            ops.push(Op::KvClose(slot));
            slot += 3;
        }
        let idx = g.index(4);
        for _ in 0..idx {
            ops.push(Op::ActorIndexInsert { state: 0, collection: PUPPET_COLL_INDEX, key: any_u32(g.below(64) as u32), value: any_u32(g.below(100) as u32) });
            slot += 1;
        }
        let sorted = g.index(4);
        for _ in 0..sorted {
            ops.push(Op::ActorSortedInsert { state: 0, collection: PUPPET_COLL_SORTED, sort: g.below(16) as u16, key: any_u32(g.below(64) as u32), value: any_u32(1) });
            slot += 1;
        }
        // several fresh nodes stored by ONE write into an entry of the persistent component (fresh key:
        // an entry owning nodes cannot be overwritten)
        let mut owned = 0;
        if g.chance(1, 3) {
            owned = 2 + g.index(3);
            let first = slot;
            for _ in 0..owned {
                ops.push(Op::KvStoreNew { allow_ownership: false });
                slot += 1;
            }
            let key = 1_000_000 + self.m.next_key;
            self.m.next_key += 1;
            let owns: Vec<Own> = (0..owned).map(|i| Own(placeholder(first + i as u8))).collect();
            ops.push(Op::ActorOpenKv { state: 0, collection: PUPPET_COLL_KV, key: any_u32(key), flags: 1 });
            ops.push(Op::KvSet(slot, scrypto_encode(&owns).unwrap()));
            ops.push(Op::KvClose(slot));
            slot += 3;
            self.labels.push("puppet: several new owned nodes stored by one write");
        }
        // index / sorted-index churn over a very small key space (collides with entries committed by
        // earlier transactions): insert immediately followed by remove of the same key, or insert only
        let mut churn = 0;
        if g.chance(1, 2) {
            churn = 1 + g.index(3);
            for _ in 0..churn {
                match g.index(4) {
                    0 => {
                        ops.push(Op::ActorIndexInsert { state: 0, collection: PUPPET_COLL_INDEX, key: any_u32(g.below(6) as u32), value: any_u32(g.below(100) as u32) });
                        slot += 1;
                    }
                    1 => {
                        let k = any_u32(g.below(6) as u32);
                        ops.push(Op::ActorIndexInsert { state: 0, collection: PUPPET_COLL_INDEX, key: k.clone(), value: any_u32(g.below(100) as u32) });
                        ops.push(Op::ActorIndexRemove { state: 0, collection: PUPPET_COLL_INDEX, key: k });
                        slot += 2;
                    }
                    2 => {
                        ops.push(Op::ActorSortedInsert { state: 0, collection: PUPPET_COLL_SORTED, sort: g.below(2) as u16, key: any_u32(g.below(3) as u32), value: any_u32(2) });
                        slot += 1;
                    }
                    _ => {
                        let (sort, k) = (g.below(2) as u16, any_u32(g.below(3) as u32));
                        ops.push(Op::ActorSortedInsert { state: 0, collection: PUPPET_COLL_SORTED, sort, key: k.clone(), value: any_u32(3) });
                        ops.push(Op::ActorSortedRemove { state: 0, collection: PUPPET_COLL_SORTED, sort, key: k });
                        slot += 2;
                    }
                }
            }
            self.labels.push("puppet: index insert / insert-then-remove on colliding keys");
        }
        let field = g.bool() || (kv + idx + sorted == 0);
        if field {
            ops.push(Op::ActorOpenField { state: 0, field: g.below(3) as u8, flags: 1 });
            ops.push(Op::FieldWrite(slot, any_u32(g.below(1 << 20) as u32)));
            ops.push(Op::FieldClose(slot));
        }
        if field {
            slot += 3;
        }
        if g.bool() {
            ops.push(Op::ActorEmitEvent { name: "E1".into(), data: puppet_event_data(g.blob(16)), force_write: false });
            slot += 1;
        }
        match tail {
            None => {}
            Some(0) => ops.push(Op::Panic("boom".into())),
            Some(1) => {
                // an event with the FORCE_WRITE flag (only the fungible vault blueprint may emit one), then a panic
                ops.push(Op::ActorEmitEvent { name: "E0".into(), data: puppet_event_data(vec![2]), force_write: true });
                ops.push(Op::Panic("boom".into()));
            }
            Some(_) => {
                // a field opened with FORCE_WRITE (only the fungible vault blueprint may), written, then a panic
                ops.push(Op::ActorOpenField { state: 0, field: 2, flags: 7 });
                ops.push(Op::FieldWrite(slot, any_u32(0xdead)));
                ops.push(Op::FieldClose(slot));
                ops.push(Op::Panic("boom".into()));
            }
        }
        (Script(ops), format!("puppet act: {} kv, {} index, {} sorted, {} new owned kv stores in one entry, {} index churn ops, field write {}", kv, idx, sorted, owned, churn, field))
    }

    fn puppet_function(&mut self, g: &mut Gen) -> bool {
        let (s, what) = self.function_script(g, vec![]);
        self.push_puppet_run(g, s, what, true);
        true
    }

    fn puppet_act(&mut self, g: &mut Gen) -> bool {
        let (s, what) = self.act_script(g, None);
        let use_royal = self.ext.royal.is_some() && g.chance(1, 3);
        let addr = if use_royal { self.ext.royal.unwrap() } else { self.ext.comp };
        self.push_puppet_act(addr, s, if use_royal { format!("{} (royalty component)", what) } else { what }, true);
        self.labels.push(if use_royal { "puppet: component state writes, royalty charged" } else { "puppet: component state writes" });
        true
    }

    fn action(&mut self, g: &mut Gen, o: &Opts) {
        for _ in 0..6 {
            let done = match g.weighted(&[10, 4, 5, 4, 5, 5, 3, 3, 3, 5, 5, 6, if o.allow_publish { 3 } else { 0 }]) {
                0 => self.transfer_fungible(g),
                1 => self.transfer_xrd(g),
                2 => self.mint_fungible(g),
                3 => self.burn_fungible(g),
                4 => self.transfer_nf(g),
                5 => self.mint_nf(g),
                6 => self.burn_nf(g),
                7 => self.update_nf(g),
                8 => self.faucet_free(g),
                9 => self.wasm_call(g),
                10 => self.puppet_function(g),
                11 => self.puppet_act(g),
                _ => self.publish(g),
            };
            if done {
                return;
            }
        }
        // fall back to something that always exists: account 0 sends one unit of F0
        let res = self.w.fungibles[0].address;
        if self.m.fung[0][0] >= ONE {
            self.signers.insert(0);
            self.push(I::Withdraw { acct: 0, res, amount: dec_of(ONE) });
            self.push(I::TryDepositAll { acct: 1 });
            self.m.fung[0][0] -= ONE;
            self.m.fung[0][1] += ONE;
            self.labels.push("transfer fungible");
        } else {
            self.wasm_call(g);
        }
    }

    // ---- deliberate failures: the last action of a failing plan ----

    fn failing_action(&mut self, g: &mut Gen) -> &'static str {
        for _ in 0..8 {
            let kind = g.weighted(&[6, 4, 4, 4, 3, 8, 10, 2, 3, 3, 3, 3, 3, 3, 3]);
            match kind {
                0 => {
                    // withdraw more than the balance
                    let r = g.index(self.w.fungibles.len());
                    let from = g.index(self.n_acc());
                    let f = self.w.fungibles[r].clone();
                    let amount = self.m.fung[r][from] + Self::unit(f.divisibility) * (1 + g.below(3) as u128);
                    self.signers.insert(from);
                    self.push_fail(I::Withdraw { acct: from, res: f.address, amount: dec_of(amount) });
                    return "withdraw more than the balance";
                }
                1 => {
                    // assertion failure after a withdraw
                    let r = g.index(self.w.fungibles.len());
                    let from = g.index(self.n_acc());
                    let f = self.w.fungibles[r].clone();
                    let Some(amount) = Self::amount(g, self.m.fung[r][from], f.divisibility) else { continue };
                    self.signers.insert(from);
                    self.push(I::Withdraw { acct: from, res: f.address, amount: dec_of(amount) });
                    self.push_fail(I::AssertContains { res: f.address, amount: dec_of(amount + Self::unit(f.divisibility)) });
                    self.push(I::TryDepositAll { acct: from });
                    return "worktop assertion fails";
                }
                2 => {
                    // unauthorised mint: badge-gated or closed mint without the badge
                    if self.badge_proof {
                        continue;
                    }
                    let candidates: Vec<usize> = (0..self.w.fungibles.len()).filter(|i| self.w.fungibles[*i].mint != Gate::Open).collect();
                    let r = *g.pick(&candidates);
                    let f = self.w.fungibles[r].clone();
                    self.push_fail(I::MintFungible { res: f.address, amount: dec_of(Self::unit(f.divisibility) * 5) });
                    self.push(I::TryDepositAll { acct: 0 });
                    return "unauthorised mint";
                }
                3 => {
                    // withdraw from an account that did not sign
                    let candidates: Vec<usize> = (0..self.n_acc()).filter(|a| !self.signers.contains(a)).collect();
                    if candidates.is_empty() {
                        continue;
                    }
                    let from = *g.pick(&candidates);
                    let res = self.w.fungibles[0].address;
                    self.push_fail(I::Withdraw { acct: from, res, amount: dec_of(ONE) });
                    self.push(I::TryDepositAll { acct: from });
                    return "withdraw without the owner's signature";
                }
                4 => {
                    // resources left on the worktop at the end
                    let r = g.index(self.w.fungibles.len());
                    let from = g.index(self.n_acc());
                    let f = self.w.fungibles[r].clone();
                    let Some(amount) = Self::amount(g, self.m.fung[r][from], f.divisibility) else { continue };
                    self.signers.insert(from);
                    self.push_fail(I::Withdraw { acct: from, res: f.address, amount: dec_of(amount) });
                    return "resources left on the worktop";
                }
                5 => {
                    // puppet function script that wrote state and then fails
                    let tail = match g.index(4) {
                        0 => vec![Op::Panic("boom".into())],
                        1 => vec![Op::ActorEmitEvent { name: "E0".into(), data: puppet_event_data(vec![1]), force_write: true }, Op::Panic("boom".into())],
                        2 => vec![Op::KvStoreNew { allow_ownership: false }],
                        _ => vec![Op::CallFunction { package: self.w.puppet_p, blueprint: PUPPET_BLUEPRINT.into(), function: "no_such_function".into(), args: scrypto_encode(&()).unwrap() }],
                    };
                    let (s, what) = self.function_script(g, tail);
                    self.push_puppet_run(g, s, format!("{} then a failing op", what), false);
                    return "puppet script fails after writing";
                }
                6 => {
                    // puppet method on the persistent component: writes then a forbidden / failing op
                    let t = g.index(3);
                    let (s, what) = self.act_script(g, Some(t));
                    let use_royal = self.ext.royal.is_some() && g.chance(1, 3);
                    let addr = if use_royal { self.ext.royal.unwrap() } else { self.ext.comp };
                    self.push_puppet_act(addr, s, format!("{} then a failing op{}", what, if use_royal { " (royalty component)" } else { "" }), false);
                    return if use_royal { "royalty component method fails after writing" } else { "component method fails after writing" };
                }
                7 => {
                    if self.free_used {
                        continue;
                    }
                    self.free_used = true;
                    self.push(I::FaucetFree);
                    self.push_fail(I::FaucetFree);
                    self.push(I::TryDepositAll { acct: 0 });
                    return "faucet free twice";
                }
                8 => {
                    // mint an existing non-fungible id
                    let candidates: Vec<usize> = (0..self.w.non_fungibles.len())
                        .filter(|i| self.w.non_fungibles[*i].mint == Gate::Open && self.w.non_fungibles[*i].id_type != NonFungibleIdType::RUID)
                        .collect();
                    let r = *g.pick(&candidates);
                    let nf = self.w.non_fungibles[r].clone();
                    let acct = g.index(self.n_acc());
                    let ids = self.pick_known_ids(g, r, acct, 1);
                    let Some(id) = ids.first().cloned() else { continue };
                    self.push_fail(I::MintNf { res: nf.address, entries: vec![(id, NfData { a: 1, b: "x".into(), c: 1 })] });
                    self.push(I::TryDepositAll { acct: 0 });
                    return "mint an existing non-fungible id";
                }
                9 => {
                    // amount violating divisibility
                    let r = 1; // divisibility 0, badge gated
                    let f = self.w.fungibles[r].clone();
                    if f.divisibility != 0 || f.mint != Gate::Badge {
                        continue;
                    }
                    self.need_badge_proof();
                    self.push_fail(I::MintFungible { res: f.address, amount: dec_of(ONE / 2) });
                    self.push(I::TryDepositAll { acct: 0 });
                    return "mint amount violates divisibility";
                }
                10 => {
                    // burn without permission
                    let candidates: Vec<usize> = (0..self.w.fungibles.len())
                        .filter(|i| self.w.fungibles[*i].burn == Gate::Closed || (self.w.fungibles[*i].burn == Gate::Badge && !self.badge_proof))
                        .collect();
                    if candidates.is_empty() {
                        continue;
                    }
                    let r = *g.pick(&candidates);
                    let f = self.w.fungibles[r].clone();
                    let from = g.index(self.n_acc());
                    let Some(amount) = Self::amount(g, self.m.fung[r][from].min(10 * ONE), f.divisibility) else { continue };
                    self.signers.insert(from);
                    self.push(I::Withdraw { acct: from, res: f.address, amount: dec_of(amount) });
                    self.push_fail(I::BurnFromWorktop { res: f.address, amount: dec_of(amount) });
                    return "unauthorised burn";
                }
                11 => {
                    // owner-only deposit without the owner's signature
                    let candidates: Vec<usize> = (0..self.n_acc()).filter(|a| !self.signers.contains(a)).collect();
                    let senders: Vec<usize> = (0..self.n_acc()).filter(|a| self.m.fung[0][*a] >= ONE).collect();
                    if candidates.is_empty() || senders.is_empty() {
                        continue;
                    }
                    let to = *g.pick(&candidates);
                    let senders: Vec<usize> = senders.into_iter().filter(|a| *a != to).collect();
                    if senders.is_empty() {
                        continue;
                    }
                    let from = *g.pick(&senders);
                    let res = self.w.fungibles[0].address;
                    self.signers.insert(from);
                    self.push(I::Withdraw { acct: from, res, amount: dec_of(ONE) });
                    self.push_fail(I::DepositAll { acct: to });
                    return "owner-only deposit without signature";
                }
                12 => {
                    // call a function the WAT package does not have
                    let pkg = *g.pick(&self.m.wasm);
                    self.ins.push(Ins {
                        i: I::CallFunction { pkg, blueprint: "Test".into(), func: "g".into(), args: ManifestValue::Tuple { fields: vec![] }, what: "wat missing function".into() },
                        ok: false,
                    });
                    return "call a missing function";
                }
                14 => {
                    // a vault that already locked fee (so is updated in this transaction) locks fee again
                    if self.payers.is_empty() {
                        continue;
                    }
                    let a = *g.pick(&self.payers);
                    self.push_fail(I::LockFee { acct: a, amount: dec_of(ONE), contingent: g.bool() });
                    return "second fee lock on an updated vault";
                }
                _ => {
                    // take more from the worktop than it holds
                    let r = g.index(self.w.fungibles.len());
                    let from = g.index(self.n_acc());
                    let f = self.w.fungibles[r].clone();
                    let Some(amount) = Self::amount(g, self.m.fung[r][from], f.divisibility) else { continue };
                    self.signers.insert(from);
                    self.push(I::Withdraw { acct: from, res: f.address, amount: dec_of(amount) });
                    let b = self.bucket();
                    self.push_fail(I::Take { res: f.address, amount: dec_of(amount + Self::unit(f.divisibility)), bucket: b.clone() });
                    self.push(I::TryDeposit { acct: from, bucket: b });
                    self.push(I::TryDepositAll { acct: from });
                    return "take more than the worktop holds";
                }
            }
        }
        // always possible
        let res = self.w.fungibles[2].address;
        self.push_fail(I::MintFungible { res, amount: dec_of(ONE) });
        self.push(I::TryDepositAll { acct: 0 });
        "unauthorised mint"
    }
}

/// Generates one transaction plan against the model `m`.
pub fn gen_plan(g: &mut Gen, w: &World, m: &Model, o: &Opts) -> Plan {
    let mut b = B {
        w,
        ext: w.ext::<Ext>().clone(),
        m: m.clone(),
        ins: Vec::new(),
        signers: BTreeSet::new(),
        labels: Vec::new(),
        buckets: 0,
        badge_proof: false,
        free_used: false,
        publishes: 0,
        payers: Vec::new(),
    };

    // ---- fee section ----
    let odd = g.chance(o.odd_fee_pct, 100);
    let mut fail_before_lock = false;
    let fee = if odd {
        match g.weighted(&[5, 2, 2]) {
            0 => {
                let a = g.index(b.n_acc());
                let amount = *g.pick(&[dec!("0.05"), dec!("0.2"), dec!("0.21"), dec!("0.4"), dec!("0.7"), dec!(1), dec!(2)]);
                FeePlan::TooSmall(a, amount)
            }
            1 => FeePlan::None,
            _ => {
                fail_before_lock = true;
                FeePlan::Faucet
            }
        }
    } else {
        match g.weighted(&[5, 3, 3]) {
            0 => FeePlan::Faucet,
            1 => {
                let a = g.index(b.n_acc());
                if b.m.xrd_lb[a] >= 1000 * ONE {
                    FeePlan::Accounts(vec![(a, dec_of((100 + g.below(200) as u128) * ONE), false)])
                } else {
                    FeePlan::Faucet
                }
            }
            _ => {
                // 2-3 locks from distinct account vaults (a vault already updated in the transaction cannot lock fee again)
                let n = 2 + g.index(2);
                let first = g.index(b.n_acc());
                let mut locks = Vec::new();
                let mut covered = false;
                for k in 0..n {
                    let a = (first + k) % b.n_acc();
                    if b.m.xrd_lb[a] < 1000 * ONE {
                        continue;
                    }
                    let last = k + 1 == n;
                    let contingent = !(last && !covered) && g.chance(1, 3);
                    let amount = if contingent {
                        dec_of((10 + g.below(40) as u128) * ONE)
                    } else if last && !covered || g.bool() {
                        covered = true;
                        dec_of((100 + g.below(100) as u128) * ONE)
                    } else {
                        *g.pick(&[dec!("0.1"), dec!("0.5"), dec!(2), dec!(50)])
                    };
                    locks.push((a, amount, contingent));
                }
                if covered {
                    FeePlan::Accounts(locks)
                } else {
                    FeePlan::Faucet
                }
            }
        }
    };
    if fail_before_lock {
        b.push_fail(I::AssertContains { res: XRD, amount: dec_of(ONE) });
    } else if g.chance(1, 10) {
        b.push(I::DropRegularProofs);
    }
    match &fee {
        FeePlan::Faucet => b.push(I::LockFeeFaucet),
        FeePlan::Accounts(locks) => {
            for (a, amount, contingent) in locks {
                b.signers.insert(*a);
                b.payers.push(*a);
                b.push(I::LockFee { acct: *a, amount: *amount, contingent: *contingent });
            }
        }
        FeePlan::TooSmall(a, amount) => {
            b.signers.insert(*a);
            b.payers.push(*a);
            b.push(I::LockFee { acct: *a, amount: *amount, contingent: false });
        }
        FeePlan::None => {}
    }

    // ---- body ----
    let fails = g.chance(o.fail_pct, 100);
    let n_actions = if fails { g.index(o.max_actions) } else { 1 + g.index(o.max_actions) };
    for _ in 0..n_actions {
        b.action(g, o);
    }
    let mut failure = None;
    if fails {
        failure = Some(b.failing_action(g));
    }

    // fee payers: lower the XRD bound by a generous estimate of what one transaction can cost
    let per_tx = if b.publishes > 0 { 120 * ONE } else { 40 * ONE };
    for a in b.payers.clone() {
        b.m.xrd_lb[a] = b.m.xrd_lb[a].saturating_sub(per_tx);
    }

    let expect = if fail_before_lock {
        Expect::Reject("failure before any fee is locked")
    } else {
        match (&fee, failure) {
            (FeePlan::None, _) => Expect::Reject("no fee locked"),
            (FeePlan::TooSmall(..), _) => Expect::Unknown("small fee lock"),
            (_, Some(f)) => Expect::Failure(f),
            (_, None) => Expect::Success,
        }
    };
    if let Some(f) = failure {
        b.labels.push(f);
    }
    Plan { ins: b.ins, signers: b.signers, expect, after: b.m, labels: b.labels, fee, publishes: b.publishes }
}
