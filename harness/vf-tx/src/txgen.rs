//! Reusable transaction generator: V1 notarized transactions, V2 notarized transactions with 0-4
//! (nested) subintents, signed partial transactions, preview / system / round-update / flash /
//! ledger transactions. Everything is drawn from a `Gen` tape; signing keys come from a small fixed
//! pool (deterministic scalars) so that signing cost stays low and signer collisions (duplicates,
//! notary-also-signs) are frequent when a check wants them.
//!
//! Transactions are assembled directly from the public model structs; manifests come from the
//! repository's `ManifestBuilder`. The hashes that get signed are computed by `refhash` (the
//! harness's own transcription of the hashing scheme), not by `prepare`, so a check that validates
//! a generated transaction also cross-checks `prepare`'s hashes against the reference.

use crate::refhash;
use radix_common::prelude::*;
use radix_engine_interface::prelude::*;
use radix_transactions::manifest::*;
use radix_transactions::prelude::*;
use std::sync::OnceLock;
use vf_core::Gen;

/// Simulator network id.
pub const NETWORK: u8 = 0xf2;
pub const POOL: usize = 6;
/// Keys that exist per curve (only the first `POOL` are drawn by `KeyRef::draw`; checks that need
/// many distinct signers address the rest by index).
pub const BIG_POOL: usize = 20;

pub struct Keys {
    pub secp: Vec<(Secp256k1PrivateKey, Secp256k1PublicKey)>,
    pub ed: Vec<(Ed25519PrivateKey, Ed25519PublicKey)>,
}

pub fn keys() -> &'static Keys {
    static K: OnceLock<Keys> = OnceLock::new();
    K.get_or_init(|| Keys {
        secp: (0..BIG_POOL)
            .map(|i| {
                let k = Secp256k1PrivateKey::from_u64(0x1000 + 7 * i as u64 + 1).unwrap();
                let p = k.public_key();
                (k, p)
            })
            .collect(),
        ed: (0..BIG_POOL)
            .map(|i| {
                let k = Ed25519PrivateKey::from_u64(0x2000 + 13 * i as u64 + 1).unwrap();
                let p = k.public_key();
                (k, p)
            })
            .collect(),
    })
}

#[derive(Clone, Copy, Debug, PartialEq, Eq, PartialOrd, Ord, Hash)]
pub struct KeyRef {
    pub ed: bool,
    pub idx: u8,
}

impl KeyRef {
    pub fn draw(g: &mut Gen) -> KeyRef {
        KeyRef { ed: g.bool(), idx: g.below(POOL as u64) as u8 }
    }
    pub fn public_key(&self) -> PublicKey {
        if self.ed {
            PublicKey::Ed25519(keys().ed[self.idx as usize].1)
        } else {
            PublicKey::Secp256k1(keys().secp[self.idx as usize].1)
        }
    }
    pub fn sign_with_public_key(&self, h: &Hash) -> SignatureWithPublicKeyV1 {
        if self.ed {
            let (k, p) = &keys().ed[self.idx as usize];
            SignatureWithPublicKeyV1::Ed25519 { public_key: *p, signature: k.sign(h) }
        } else {
            SignatureWithPublicKeyV1::Secp256k1 { signature: keys().secp[self.idx as usize].0.sign(h) }
        }
    }
    pub fn sign(&self, h: &Hash) -> SignatureV1 {
        if self.ed {
            SignatureV1::Ed25519(keys().ed[self.idx as usize].0.sign(h))
        } else {
            SignatureV1::Secp256k1(keys().secp[self.idx as usize].0.sign(h))
        }
    }
    pub fn short(&self) -> String {
        format!("{}{}", if self.ed { "ed" } else { "k1" }, self.idx)
    }
}

pub fn short_keys(v: &[KeyRef]) -> String {
    v.iter().map(|k| k.short()).collect::<Vec<_>>().join(",")
}

/// `n` pairwise distinct keys, none of them in `exclude` (n + exclude.len() must be ≤ 2*POOL).
pub fn draw_distinct_keys(g: &mut Gen, n: usize, exclude: &[KeyRef]) -> Vec<KeyRef> {
    let mut out: Vec<KeyRef> = Vec::new();
    while out.len() < n {
        let mut k = KeyRef::draw(g);
        let mut guard = 0;
        while (out.contains(&k) || exclude.contains(&k)) && guard < 4 * POOL {
            // deterministic walk to the next free key
            k = if k.idx as usize + 1 < POOL { KeyRef { ed: k.ed, idx: k.idx + 1 } } else { KeyRef { ed: !k.ed, idx: 0 } };
            guard += 1;
        }
        if out.contains(&k) || exclude.contains(&k) {
            break;
        }
        out.push(k);
    }
    out
}

// ---- addresses ------------------------------------------------------------------------------

pub fn component(i: usize) -> ComponentAddress {
    let mut raw = [0u8; NodeId::LENGTH];
    raw[0] = EntityType::GlobalGenericComponent as u8;
    for (j, b) in raw.iter_mut().enumerate().skip(1) {
        *b = (i as u8).wrapping_mul(31).wrapping_add(j as u8);
    }
    raw[1] = (i >> 8) as u8;
    raw[2] = i as u8;
    ComponentAddress::new_or_panic(raw)
}

fn draw_component(g: &mut Gen) -> ComponentAddress {
    match g.below(4) {
        0 => FAUCET,
        _ => component(g.below(12) as usize),
    }
}

// ---- options --------------------------------------------------------------------------------

#[derive(Clone, Debug)]
pub struct Opts {
    pub network_id: u8,
    /// Upper bound of signers drawn per intent.
    pub max_signers: usize,
    pub max_subintents: usize,
    /// Maximal depth of a subintent below the root (root's children are at depth 1).
    pub max_depth: usize,
    /// Maximal epoch window length.
    pub max_epoch_range: u64,
    /// Upper bound of generated body instructions per intent.
    pub max_body: usize,
}

impl Default for Opts {
    fn default() -> Self {
        Opts { network_id: NETWORK, max_signers: 3, max_subintents: 4, max_depth: 3, max_epoch_range: 12 * 24 * 30, max_body: 4 }
    }
}

// ---- messages -------------------------------------------------------------------------------

fn draw_text(g: &mut Gen, max: usize) -> String {
    let n = g.len(max);
    let mut s = String::new();
    for _ in 0..n {
        let c = match g.below(8) {
            0 => 'é',
            1 => ' ',
            _ => (b'a' + g.below(26) as u8) as char,
        };
        if s.len() + c.len_utf8() > max {
            break;
        }
        s.push(c);
    }
    s
}

pub fn gen_plaintext(g: &mut Gen, max_mime: usize, max_body: usize) -> PlaintextMessageV1 {
    let mime_type = if g.bool() { "text/plain".chars().take(max_mime).collect() } else { draw_text(g, max_mime) };
    let message = if g.bool() { MessageContentsV1::String(draw_text(g, max_body)) } else { MessageContentsV1::Bytes(g.blob(max_body)) };
    PlaintextMessageV1 { mime_type, message }
}

fn fingerprints(g: &mut Gen, n: usize, salt: u8) -> Vec<PublicKeyFingerprint> {
    let base = g.u8();
    (0..n)
        .map(|i| {
            let mut f = [salt; 8];
            f[0] = base;
            f[6] = (i >> 8) as u8;
            f[7] = i as u8;
            PublicKeyFingerprint(f)
        })
        .collect()
}

/// Decryptor counts per curve (None = curve absent).
pub fn gen_encrypted_v1(g: &mut Gen, payload_len: usize, ed: Option<usize>, secp: Option<usize>) -> EncryptedMessageV1 {
    let mut decryptors_by_curve = IndexMap::default();
    let filler = g.u8();
    if let Some(n) = ed {
        let decryptors: IndexMap<_, _> = fingerprints(g, n, 1).into_iter().map(|f| (f, AesWrapped128BitKey([filler; 24]))).collect();
        decryptors_by_curve.insert(CurveType::Ed25519, DecryptorsByCurve::Ed25519 { dh_ephemeral_public_key: keys().ed[0].1, decryptors });
    }
    if let Some(n) = secp {
        let decryptors: IndexMap<_, _> = fingerprints(g, n, 2).into_iter().map(|f| (f, AesWrapped128BitKey([filler; 24]))).collect();
        decryptors_by_curve.insert(CurveType::Secp256k1, DecryptorsByCurve::Secp256k1 { dh_ephemeral_public_key: keys().secp[0].1, decryptors });
    }
    EncryptedMessageV1 { encrypted: AesGcmPayload(g.bytes(payload_len)), decryptors_by_curve }
}

pub fn gen_encrypted_v2(g: &mut Gen, payload_len: usize, ed: Option<usize>, secp: Option<usize>) -> EncryptedMessageV2 {
    let mut decryptors_by_curve = IndexMap::default();
    let filler = g.u8();
    if let Some(n) = ed {
        let decryptors: IndexMap<_, _> = fingerprints(g, n, 1).into_iter().map(|f| (f, AesWrapped256BitKey([filler; 40]))).collect();
        decryptors_by_curve.insert(CurveType::Ed25519, DecryptorsByCurveV2::Ed25519 { dh_ephemeral_public_key: keys().ed[0].1, decryptors });
    }
    if let Some(n) = secp {
        let decryptors: IndexMap<_, _> = fingerprints(g, n, 2).into_iter().map(|f| (f, AesWrapped256BitKey([filler; 40]))).collect();
        decryptors_by_curve.insert(CurveType::Secp256k1, DecryptorsByCurveV2::Secp256k1 { dh_ephemeral_public_key: keys().secp[0].1, decryptors });
    }
    EncryptedMessageV2 { encrypted: AesGcmPayload(g.bytes(payload_len)), decryptors_by_curve }
}

fn draw_decryptor_counts(g: &mut Gen) -> (Option<usize>, Option<usize>) {
    match g.below(3) {
        0 => (Some(1 + g.below(3) as usize), None),
        1 => (None, Some(1 + g.below(3) as usize)),
        _ => (Some(1 + g.below(2) as usize), Some(1 + g.below(2) as usize)),
    }
}

/// A small valid message (well inside the default limits).
pub fn gen_message_v1(g: &mut Gen) -> MessageV1 {
    match g.weighted(&[3, 2, 2]) {
        0 => MessageV1::None,
        1 => MessageV1::Plaintext(gen_plaintext(g, 16, 24)),
        _ => {
            let (e, s) = draw_decryptor_counts(g);
            let n = g.len(24);
            MessageV1::Encrypted(gen_encrypted_v1(g, n, e, s))
        }
    }
}

pub fn gen_message_v2(g: &mut Gen) -> MessageV2 {
    match g.weighted(&[3, 2, 2]) {
        0 => MessageV2::None,
        1 => MessageV2::Plaintext(gen_plaintext(g, 16, 24)),
        _ => {
            let (e, s) = draw_decryptor_counts(g);
            let n = g.len(24);
            MessageV2::Encrypted(gen_encrypted_v2(g, n, e, s))
        }
    }
}

// ---- manifests ------------------------------------------------------------------------------

/// Appends up to `max` groups of simple, statically valid instructions (every bucket / proof that is
/// created is consumed again).
pub fn add_body<M>(mut b: ManifestBuilder<M>, g: &mut Gen, max: usize) -> ManifestBuilder<M>
where
    M: BuildableManifest,
    M::Instruction: From<InstructionV1>,
{
    let n = g.len(max);
    for _ in 0..n {
        b = match g.weighted(&[4, 3, 5, 2, 5, 1, 2, 2]) {
            0 => b.drop_auth_zone_proofs(),
            1 => b.lock_fee_from_faucet(),
            2 => {
                let a = draw_component(g);
                match g.below(5) {
                    0 => b.call_method(a, "ping", ()),
                    1 => b.call_method(a, "set", (g.u8(),)),
                    2 => b.call_method(a, "say", (draw_text(g, 8),)),
                    3 => b.call_method(a, "pay", (Decimal::from(g.below(1000)),)),
                    _ => {
                        let other = draw_component(g);
                        b.call_method(a, "link", (other, g.u8() as u32))
                    }
                }
            }
            3 => {
                let name = b.generate_bucket_name("b");
                b.take_all_from_worktop(XRD, &name).return_to_worktop(&name)
            }
            4 => {
                let content = g.blob(12);
                let blob = b.add_blob(content);
                let a = draw_component(g);
                b.call_method(a, "blob", (blob,))
            }
            5 => b.drop_all_proofs(),
            6 => b.call_function(FAUCET_PACKAGE, "Faucet", "noop", (g.u8(),)),
            _ => {
                let name = b.generate_proof_name("p");
                b.create_proof_from_auth_zone_of_all(XRD, &name).drop_proof(&name)
            }
        };
    }
    b
}

pub fn gen_manifest_v1(g: &mut Gen, max_body: usize) -> TransactionManifestV1 {
    add_body(ManifestBuilder::new_v1(), g, max_body).build_no_validate()
}

// ---- headers --------------------------------------------------------------------------------

/// An epoch window containing `common`, no longer than `max_range`.
fn draw_window(g: &mut Gen, common: u64, max_range: u64) -> (u64, u64) {
    let max_range = max_range.max(1);
    let before = match g.below(3) {
        0 => 0,
        1 => g.below(4.min(max_range)),
        _ => g.below(max_range),
    }
    .min(common);
    let room = max_range - 1 - before.min(max_range - 1);
    let after = match g.below(3) {
        0 => 0,
        1 => g.below(4.min(room + 1)),
        _ => g.below(room + 1),
    };
    (common - before, common + 1 + after)
}

pub fn gen_header_v1(g: &mut Gen, notary: KeyRef, o: &Opts) -> TransactionHeaderV1 {
    let common = g.below(2000);
    let (s, e) = draw_window(g, common, o.max_epoch_range);
    TransactionHeaderV1 {
        network_id: o.network_id,
        start_epoch_inclusive: Epoch::of(s),
        end_epoch_exclusive: Epoch::of(e),
        nonce: g.u32(),
        notary_public_key: notary.public_key(),
        notary_is_signatory: g.bool(),
        tip_percentage: match g.below(3) {
            0 => 0,
            1 => g.below(100) as u16,
            _ => g.u16(),
        },
    }
}

/// Shared point (epoch, timestamp) that every generated V2 intent header's window contains, so
/// that the overall validity range of a generated transaction is non-empty.
#[derive(Clone, Copy, Debug)]
pub struct Common {
    pub epoch: u64,
    pub ts: i64,
}

pub fn gen_common(g: &mut Gen) -> Common {
    Common { epoch: g.below(2000), ts: 1_700_000_000 + g.below(1000) as i64 }
}

/// `salt` (< 8) makes the headers of the intents of one transaction pairwise different, so that two
/// otherwise identical subintents never get the same hash.
pub fn gen_intent_header_v2(g: &mut Gen, c: Common, o: &Opts, salt: u64) -> IntentHeaderV2 {
    let (s, e) = draw_window(g, c.epoch, o.max_epoch_range);
    let min_ts = if g.chance(1, 3) { Some(Instant::new(c.ts - g.below(50) as i64)) } else { None };
    let max_ts = if g.chance(1, 3) { Some(Instant::new(c.ts + 1 + g.below(50) as i64)) } else { None };
    IntentHeaderV2 {
        network_id: o.network_id,
        start_epoch_inclusive: Epoch::of(s),
        end_epoch_exclusive: Epoch::of(e),
        min_proposer_timestamp_inclusive: min_ts,
        max_proposer_timestamp_exclusive: max_ts,
        intent_discriminator: g.u64().wrapping_mul(8).wrapping_add(salt),
    }
}

// ---- V1 -------------------------------------------------------------------------------------

#[derive(Clone, Debug)]
pub struct BuiltV1 {
    pub tx: NotarizedTransactionV1,
    pub notary: KeyRef,
    pub signers: Vec<KeyRef>,
}

pub fn gen_intent_v1(g: &mut Gen, notary: KeyRef, o: &Opts) -> IntentV1 {
    let header = gen_header_v1(g, notary, o);
    let (instructions, blobs) = gen_manifest_v1(g, o.max_body).for_intent();
    let message = gen_message_v1(g);
    IntentV1 { header, instructions, blobs, message }
}

/// Signs `intent` with `signers` and notarizes with `notary` (hashes from the reference hasher).
pub fn sign_v1(intent: IntentV1, signers: &[KeyRef], notary: KeyRef) -> NotarizedTransactionV1 {
    let ih = refhash::v1_intent(&intent);
    let signatures = signers.iter().map(|k| IntentSignatureV1(k.sign_with_public_key(&ih))).collect();
    let signed_intent = SignedIntentV1 { intent, intent_signatures: IntentSignaturesV1 { signatures } };
    let sh = refhash::v1_signed(&signed_intent);
    NotarizedTransactionV1 { signed_intent, notary_signature: NotarySignatureV1(notary.sign(&sh)) }
}

/// A correctly signed V1 transaction that is valid under the latest configuration on `o.network_id`
/// (distinct signers; the notary may or may not be a signatory and is never among the signers).
pub fn gen_v1(g: &mut Gen, o: &Opts) -> BuiltV1 {
    let notary = KeyRef::draw(g);
    let intent = gen_intent_v1(g, notary, o);
    let n = g.len(o.max_signers);
    let signers = draw_distinct_keys(g, n, &[notary]);
    let tx = sign_v1(intent, &signers, notary);
    BuiltV1 { tx, notary, signers }
}

// ---- V2 trees -------------------------------------------------------------------------------

#[derive(Clone, Debug)]
pub struct TreePlan {
    /// Parent of subintent i: None = the root intent, Some(j) with j < i.
    pub parent: Vec<Option<usize>>,
    /// How many times subintent i yields to its parent (and its parent to it), ≥ 1.
    pub yields: Vec<usize>,
}

impl TreePlan {
    pub fn len(&self) -> usize {
        self.parent.len()
    }
    pub fn is_empty(&self) -> bool {
        self.parent.is_empty()
    }
    pub fn depth(&self, i: usize) -> usize {
        let mut d = 1;
        let mut cur = i;
        while let Some(p) = self.parent[cur] {
            d += 1;
            cur = p;
        }
        d
    }
    pub fn children_of(&self, p: Option<usize>) -> Vec<usize> {
        (0..self.len()).filter(|k| self.parent[*k] == p).collect()
    }
}

pub fn gen_tree(g: &mut Gen, max_sub: usize, max_depth: usize) -> TreePlan {
    let n = if max_depth == 0 { 0 } else { g.len(max_sub) };
    let mut plan = TreePlan { parent: Vec::new(), yields: Vec::new() };
    for i in 0..n {
        // candidates: root, or an earlier subintent that is not yet at the maximal depth
        let mut cands: Vec<Option<usize>> = vec![None];
        for j in 0..i {
            if plan.depth(j) < max_depth {
                cands.push(Some(j));
            }
        }
        // bias towards nesting
        let p = if g.chance(1, 3) { *cands.last().unwrap() } else { *g.pick(&cands) };
        plan.parent.push(p);
        plan.yields.push(1 + g.weighted(&[6, 2, 1]));
    }
    plan
}

#[derive(Clone, Debug)]
pub struct BuiltTree {
    pub root_core: IntentCoreV2,
    pub subintents: Vec<SubintentV2>,
    pub sub_hashes: Vec<Hash>,
}

fn core_from_parts(header: IntentHeaderV2, message: MessageV2, parts: (InstructionsV2, BlobsV1, ChildSubintentSpecifiersV2)) -> IntentCoreV2 {
    IntentCoreV2 { header, blobs: parts.1, message, children: parts.2, instructions: parts.0 }
}

/// Builds every intent of the plan bottom-up. `root_yields` = Some(n): the root is itself a
/// subintent that yields n times to its (absent) parent; None: the root is a transaction intent.
pub fn build_tree(g: &mut Gen, plan: &TreePlan, root_yields: Option<usize>, c: Common, o: &Opts) -> BuiltTree {
    let n = plan.len();
    let mut subs: Vec<Option<SubintentV2>> = vec![None; n];
    let mut hashes: Vec<Hash> = vec![Hash([0; 32]); n];
    for i in (0..n).rev() {
        let kids = plan.children_of(Some(i));
        let mut b = ManifestBuilder::new_subintent_v2();
        for k in &kids {
            b = b.use_child(format!("c{}", k), SubintentHash::from_hash(hashes[*k]));
        }
        b = add_body(b, g, o.max_body.min(2));
        for k in &kids {
            for _ in 0..plan.yields[*k] {
                b = b.yield_to_child(format!("c{}", k), ());
            }
        }
        for _ in 0..plan.yields[i] {
            b = b.yield_to_parent(());
        }
        let header = gen_intent_header_v2(g, c, o, 1 + i as u64);
        let message = gen_message_v2(g);
        let s = SubintentV2 { intent_core: core_from_parts(header, message, b.build_no_validate().for_intent()) };
        hashes[i] = refhash::subintent(&s);
        subs[i] = Some(s);
    }
    let kids = plan.children_of(None);
    let header = gen_intent_header_v2(g, c, o, 0);
    let message = gen_message_v2(g);
    let root_core = match root_yields {
        None => {
            let mut b = ManifestBuilder::new_v2();
            for k in &kids {
                b = b.use_child(format!("c{}", k), SubintentHash::from_hash(hashes[*k]));
            }
            b = add_body(b, g, o.max_body);
            for k in &kids {
                for _ in 0..plan.yields[*k] {
                    b = b.yield_to_child(format!("c{}", k), ());
                }
            }
            core_from_parts(header, message, b.build_no_validate().for_intent())
        }
        Some(y) => {
            let mut b = ManifestBuilder::new_subintent_v2();
            for k in &kids {
                b = b.use_child(format!("c{}", k), SubintentHash::from_hash(hashes[*k]));
            }
            b = add_body(b, g, o.max_body);
            for k in &kids {
                for _ in 0..plan.yields[*k] {
                    b = b.yield_to_child(format!("c{}", k), ());
                }
            }
            for _ in 0..y.max(1) {
                b = b.yield_to_parent(());
            }
            core_from_parts(header, message, b.build_no_validate().for_intent())
        }
    };
    BuiltTree { root_core, subintents: subs.into_iter().map(|s| s.unwrap()).collect(), sub_hashes: hashes }
}

#[derive(Clone, Debug)]
pub struct BuiltV2 {
    pub tx: NotarizedTransactionV2,
    pub plan: TreePlan,
    pub notary: KeyRef,
    pub root_signers: Vec<KeyRef>,
    pub sub_signers: Vec<Vec<KeyRef>>,
}

pub fn gen_transaction_header_v2(g: &mut Gen, notary: KeyRef) -> TransactionHeaderV2 {
    TransactionHeaderV2 {
        notary_public_key: notary.public_key(),
        notary_is_signatory: g.bool(),
        tip_basis_points: match g.below(3) {
            0 => 0,
            1 => g.below(10_000) as u32,
            _ => g.below(1_000_001) as u32,
        },
    }
}

/// Signs every intent of `intent` with the given signers and notarizes.
pub fn sign_v2(intent: TransactionIntentV2, root_signers: &[KeyRef], sub_signers: &[Vec<KeyRef>], notary: KeyRef) -> NotarizedTransactionV2 {
    let (ih, subs) = refhash::v2_intent(&intent);
    let transaction_intent_signatures = IntentSignaturesV2 { signatures: root_signers.iter().map(|k| IntentSignatureV1(k.sign_with_public_key(&ih))).collect() };
    let by_subintent = sub_signers
        .iter()
        .zip(subs.iter())
        .map(|(ks, h)| IntentSignaturesV2 { signatures: ks.iter().map(|k| IntentSignatureV1(k.sign_with_public_key(h))).collect() })
        .collect();
    let signed_transaction_intent =
        SignedTransactionIntentV2 { transaction_intent: intent, transaction_intent_signatures, non_root_subintent_signatures: NonRootSubintentSignaturesV2 { by_subintent } };
    let (sh, _, _) = refhash::v2_signed(&signed_transaction_intent);
    NotarizedTransactionV2 { signed_transaction_intent, notary_signature: NotarySignatureV2(notary.sign(&sh)) }
}

/// A correctly signed V2 transaction, valid under the latest configuration on `o.network_id`.
pub fn gen_v2(g: &mut Gen, o: &Opts) -> BuiltV2 {
    let plan = gen_tree(g, o.max_subintents, o.max_depth);
    let c = gen_common(g);
    let tree = build_tree(g, &plan, None, c, o);
    let notary = KeyRef::draw(g);
    let transaction_header = gen_transaction_header_v2(g, notary);
    let n = g.len(o.max_signers);
    // in V2 a signatory notary must not also sign; keep it out of the root signers always
    let root_signers = draw_distinct_keys(g, n, &[notary]);
    let sub_signers: Vec<Vec<KeyRef>> = (0..plan.len())
        .map(|_| {
            let n = g.len(o.max_signers.min(2));
            draw_distinct_keys(g, n, &[])
        })
        .collect();
    let intent = TransactionIntentV2 { transaction_header, root_intent_core: tree.root_core, non_root_subintents: NonRootSubintentsV2(tree.subintents) };
    let tx = sign_v2(intent, &root_signers, &sub_signers, notary);
    BuiltV2 { tx, plan, notary, root_signers, sub_signers }
}

#[derive(Clone, Debug)]
pub struct BuiltPartial {
    pub tx: SignedPartialTransactionV2,
    pub plan: TreePlan,
    pub root_signers: Vec<KeyRef>,
    pub sub_signers: Vec<Vec<KeyRef>>,
}

pub fn sign_partial(p: PartialTransactionV2, root_signers: &[KeyRef], sub_signers: &[Vec<KeyRef>]) -> SignedPartialTransactionV2 {
    let (rh, subs) = refhash::partial(&p);
    let root_subintent_signatures = IntentSignaturesV2 { signatures: root_signers.iter().map(|k| IntentSignatureV1(k.sign_with_public_key(&rh))).collect() };
    let by_subintent = sub_signers
        .iter()
        .zip(subs.iter())
        .map(|(ks, h)| IntentSignaturesV2 { signatures: ks.iter().map(|k| IntentSignatureV1(k.sign_with_public_key(h))).collect() })
        .collect();
    SignedPartialTransactionV2 { partial_transaction: p, root_subintent_signatures, non_root_subintent_signatures: NonRootSubintentSignaturesV2 { by_subintent } }
}

/// A correctly signed partial transaction (subintent root), valid under the latest configuration.
pub fn gen_partial(g: &mut Gen, o: &Opts) -> BuiltPartial {
    let plan = gen_tree(g, o.max_subintents, o.max_depth.saturating_sub(1));
    let c = gen_common(g);
    let y = 1 + g.below(2) as usize;
    let tree = build_tree(g, &plan, Some(y), c, o);
    let n = g.len(o.max_signers);
    let root_signers = draw_distinct_keys(g, n, &[]);
    let sub_signers: Vec<Vec<KeyRef>> = (0..plan.len())
        .map(|_| {
            let n = g.len(o.max_signers.min(2));
            draw_distinct_keys(g, n, &[])
        })
        .collect();
    let p = PartialTransactionV2 { root_subintent: SubintentV2 { intent_core: tree.root_core }, non_root_subintents: NonRootSubintentsV2(tree.subintents) };
    let tx = sign_partial(p, &root_signers, &sub_signers);
    BuiltPartial { tx, plan, root_signers, sub_signers }
}

// ---- other payload kinds --------------------------------------------------------------------

pub fn gen_preview_v2(g: &mut Gen, o: &Opts) -> PreviewTransactionV2 {
    let b = gen_v2(g, o);
    let intent = b.tx.signed_transaction_intent.transaction_intent;
    PreviewTransactionV2 {
        transaction_intent: intent,
        root_signer_public_keys: b.root_signers.iter().map(|k| k.public_key()).collect(),
        non_root_subintent_signer_public_keys: b.sub_signers.iter().map(|ks| ks.iter().map(|k| k.public_key()).collect()).collect(),
    }
}

pub fn gen_system_v1(g: &mut Gen, o: &Opts) -> SystemTransactionV1 {
    let (instructions, blobs) = gen_manifest_v1(g, o.max_body).for_intent();
    let pre_allocated_addresses = if g.chance(1, 3) {
        vec![PreAllocatedAddress { blueprint_id: BlueprintId::new(&RESOURCE_PACKAGE, "FungibleResourceManager"), address: XRD.into() }]
    } else {
        vec![]
    };
    SystemTransactionV1 { instructions, blobs, pre_allocated_addresses, hash_for_execution: Hash(g.array::<32>()) }
}

pub fn gen_round_update(g: &mut Gen) -> RoundUpdateTransactionV1 {
    let gap = g.len(3);
    RoundUpdateTransactionV1 {
        proposer_timestamp_ms: g.i64(),
        epoch: Epoch::of(g.below(5000)),
        round: Round::of(g.below(5000)),
        leader_proposal_history: LeaderProposalHistory {
            gap_round_leaders: (0..gap).map(|_| g.u8()).collect(),
            current_leader: g.u8(),
            is_fallback: g.bool(),
        },
    }
}

pub fn gen_flash(g: &mut Gen) -> FlashTransactionV1 {
    FlashTransactionV1 { name: draw_text(g, 12), state_updates: StateUpdates::default() }
}

pub fn gen_ledger(g: &mut Gen, o: &Opts) -> LedgerTransaction {
    match g.below(6) {
        0 => LedgerTransaction::UserV1(Box::new(gen_v1(g, o).tx)),
        1 => LedgerTransaction::UserV2(Box::new(gen_v2(g, o).tx)),
        2 => LedgerTransaction::RoundUpdateV1(Box::new(gen_round_update(g))),
        3 => LedgerTransaction::FlashV1(Box::new(gen_flash(g))),
        4 => LedgerTransaction::Genesis(Box::new(GenesisTransaction::Flash)),
        _ => LedgerTransaction::Genesis(Box::new(GenesisTransaction::Transaction(Box::new(gen_system_v1(g, o))))),
    }
}

// ---- byte mutation --------------------------------------------------------------------------

/// One byte-level mutation of a payload; returns its class name.
pub fn mutate_bytes(g: &mut Gen, raw: &mut Vec<u8>) -> &'static str {
    if raw.is_empty() {
        raw.push(g.u8());
        return "append";
    }
    match g.weighted(&[5, 3, 2, 2, 2, 1, 1]) {
        0 => {
            let i = g.index(raw.len());
            raw[i] ^= 1 << g.below(8);
            "bit flip"
        }
        1 => {
            let i = g.index(raw.len());
            let old = raw[i];
            let mut v = match g.below(4) {
                0 => old.wrapping_add(1),
                1 => old.wrapping_sub(1),
                2 => 0,
                _ => g.u8(),
            };
            if v == old {
                v = old ^ 0x80;
            }
            raw[i] = v;
            "byte replace"
        }
        2 => {
            let n = 1 + g.below(3) as usize;
            for _ in 0..n {
                raw.push(g.u8());
            }
            "append"
        }
        3 => {
            let n = 1 + g.index(raw.len().min(8));
            raw.truncate(raw.len() - n);
            "truncate"
        }
        4 => {
            let i = g.index(raw.len() + 1);
            raw.insert(i, g.u8());
            "insert"
        }
        5 => {
            let i = g.index(raw.len());
            raw.remove(i);
            "delete"
        }
        _ => {
            // pad a LEB128 size byte: x -> (x|0x80, 0x00): a second spelling of the same size
            let i = g.index(raw.len());
            if raw[i] < 0x80 {
                raw[i] |= 0x80;
                raw.insert(i + 1, 0);
            } else {
                raw[i] ^= 0x40;
            }
            "leb128 pad"
        }
    }
}

// ---- structured SBOR mutation ---------------------------------------------------------------

/// An array (or map) found in a manifest-SBOR payload: where its LEB128 element count sits and
/// the byte span of every element.
#[derive(Clone, Debug)]
pub struct ArraySite {
    /// element value kind (0x23 for map entries)
    pub element_kind: u8,
    pub len_pos: usize,
    pub len_size: usize,
    pub elems: Vec<(usize, usize)>,
}

fn read_leb(raw: &[u8], pos: usize) -> Option<(usize, usize)> {
    let mut v = 0usize;
    let mut shift = 0;
    let mut i = pos;
    loop {
        let b = *raw.get(i)?;
        v |= ((b & 0x7f) as usize) << shift;
        i += 1;
        if b & 0x80 == 0 {
            return Some((v, i - pos));
        }
        shift += 7;
        if shift > 28 {
            return None;
        }
    }
}

fn write_leb(mut v: usize) -> Vec<u8> {
    let mut out = Vec::new();
    loop {
        let b = (v & 0x7f) as u8;
        v >>= 7;
        if v == 0 {
            out.push(b);
            return out;
        }
        out.push(b | 0x80);
    }
}

/// Walks the body of a value of `kind` starting at `pos`; returns the end offset.
fn walk_body(raw: &[u8], pos: usize, kind: u8, depth: usize, out: &mut Vec<ArraySite>) -> Option<usize> {
    if depth > 40 {
        return None;
    }
    let fixed = |n: usize| if pos + n <= raw.len() { Some(pos + n) } else { None };
    match kind {
        0x01 | 0x02 | 0x07 => fixed(1),
        0x03 | 0x08 => fixed(2),
        0x04 | 0x09 => fixed(4),
        0x05 | 0x0a => fixed(8),
        0x06 | 0x0b => fixed(16),
        0x0c => {
            let (n, s) = read_leb(raw, pos)?;
            if pos + s + n <= raw.len() {
                Some(pos + s + n)
            } else {
                None
            }
        }
        0x20 => {
            let ek = *raw.get(pos)?;
            let (n, s) = read_leb(raw, pos + 1)?;
            let mut p = pos + 1 + s;
            if n > raw.len() {
                return None;
            }
            let mut elems = Vec::with_capacity(n.min(64));
            for _ in 0..n {
                let e = walk_body(raw, p, ek, depth + 1, out)?;
                elems.push((p, e));
                p = e;
            }
            out.push(ArraySite { element_kind: ek, len_pos: pos + 1, len_size: s, elems });
            Some(p)
        }
        0x21 => {
            let (n, s) = read_leb(raw, pos)?;
            let mut p = pos + s;
            if n > raw.len() {
                return None;
            }
            for _ in 0..n {
                let k = *raw.get(p)?;
                p = walk_body(raw, p + 1, k, depth + 1, out)?;
            }
            Some(p)
        }
        0x22 => {
            let (n, s) = read_leb(raw, pos + 1)?;
            let mut p = pos + 1 + s;
            if n > raw.len() {
                return None;
            }
            for _ in 0..n {
                let k = *raw.get(p)?;
                p = walk_body(raw, p + 1, k, depth + 1, out)?;
            }
            Some(p)
        }
        0x23 => {
            let kk = *raw.get(pos)?;
            let vk = *raw.get(pos + 1)?;
            let (n, s) = read_leb(raw, pos + 2)?;
            let mut p = pos + 2 + s;
            if n > raw.len() {
                return None;
            }
            let mut elems = Vec::with_capacity(n.min(64));
            for _ in 0..n {
                let start = p;
                p = walk_body(raw, p, kk, depth + 1, out)?;
                p = walk_body(raw, p, vk, depth + 1, out)?;
                elems.push((start, p));
            }
            out.push(ArraySite { element_kind: 0x23, len_pos: pos + 2, len_size: s, elems });
            Some(p)
        }
        0x80 => match *raw.get(pos)? {
            0 => fixed(31),
            1 => fixed(5),
            _ => None,
        },
        0x81 | 0x82 | 0x88 => fixed(4),
        0x83 => fixed(1),
        0x84 => fixed(32),
        0x85 => fixed(24),
        0x86 => fixed(32),
        0x87 => match *raw.get(pos)? {
            0 | 2 => {
                let (n, s) = read_leb(raw, pos + 1)?;
                if pos + 1 + s + n <= raw.len() {
                    Some(pos + 1 + s + n)
                } else {
                    None
                }
            }
            1 => fixed(9),
            3 => fixed(33),
            _ => None,
        },
        _ => None,
    }
}

/// Every array / map of a manifest-SBOR payload (None if the payload does not parse with this
/// from-the-format walker).
pub fn find_arrays(raw: &[u8]) -> Option<Vec<ArraySite>> {
    if raw.len() < 2 || raw[0] != 0x4d {
        return None;
    }
    let mut out = Vec::new();
    let end = walk_body(raw, 2, raw[1], 0, &mut out)?;
    if end != raw.len() {
        return None;
    }
    Some(out)
}

/// Duplicates / removes / swaps elements of one SBOR array of the payload, keeping the element
/// count consistent, so that the result is still well-formed SBOR. Returns the class, or None if
/// no suitable array exists.
pub fn mutate_sbor_array(g: &mut Gen, raw: &mut Vec<u8>) -> Option<&'static str> {
    let sites = find_arrays(raw)?;
    // arrays of structured elements (hashes, subintents, signatures, blobs, instructions, ...) are
    // preferred over plain byte arrays
    let structured: Vec<&ArraySite> = sites.iter().filter(|s| s.element_kind != 0x07 && !s.elems.is_empty()).collect();
    let bytes: Vec<&ArraySite> = sites.iter().filter(|s| s.element_kind == 0x07 && !s.elems.is_empty()).collect();
    let site: &ArraySite = if !structured.is_empty() && (bytes.is_empty() || !g.chance(1, 6)) {
        structured[g.index(structured.len())]
    } else if !bytes.is_empty() {
        bytes[g.index(bytes.len())]
    } else {
        return None;
    };
    let n = site.elems.len();
    let new_len = |k: usize| write_leb(k);
    match g.weighted(&[5, 2, 2]) {
        0 => {
            // duplicate element i, inserting the copy at position j
            let i = g.index(n);
            let j = if g.bool() { i + 1 } else { g.index(n + 1) };
            let copy = raw[site.elems[i].0..site.elems[i].1].to_vec();
            let at = if j == n { site.elems[n - 1].1 } else { site.elems[j].0 };
            raw.splice(at..at, copy);
            raw.splice(site.len_pos..site.len_pos + site.len_size, new_len(n + 1));
            Some("array element duplicated")
        }
        1 => {
            let i = g.index(n);
            raw.drain(site.elems[i].0..site.elems[i].1);
            raw.splice(site.len_pos..site.len_pos + site.len_size, new_len(n - 1));
            Some("array element removed")
        }
        _ => {
            if n < 2 {
                return None;
            }
            let i = g.index(n - 1);
            let j = i + 1 + g.index(n - 1 - i);
            let a = raw[site.elems[i].0..site.elems[i].1].to_vec();
            let b = raw[site.elems[j].0..site.elems[j].1].to_vec();
            // replace the later one first so that offsets of the earlier one stay valid
            raw.splice(site.elems[j].0..site.elems[j].1, a);
            raw.splice(site.elems[i].0..site.elems[i].1, b);
            Some("array elements swapped")
        }
    }
}
