//! C29 Calendar time conversions are correct and invertible.
//!
//! Oracle: Howard Hinnant's `days_from_civil` / `civil_from_days` (proleptic Gregorian calendar,
//! i128 arithmetic), written from the published algorithm and sharing nothing with the
//! repository's 400/100/4-year cycle decomposition.

use radix_common::time::{Instant, UtcDateTime};
use std::str::FromStr;
use vf_core::{catch, ensure, Gen, Outcome, Part};

// -------------------------------------------------------------------------------------------
// reference calendar
// -------------------------------------------------------------------------------------------

fn days_from_civil(y: i128, m: i128, d: i128) -> i128 {
    let y = if m <= 2 { y - 1 } else { y };
    let era = y.div_euclid(400);
    let yoe = y - era * 400;
    let doy = (153 * (if m > 2 { m - 3 } else { m + 9 }) + 2) / 5 + d - 1;
    let doe = yoe * 365 + yoe / 4 - yoe / 100 + doy;
    era * 146097 + doe - 719468
}

fn civil_from_days(z: i128) -> (i128, i128, i128) {
    let z = z + 719468;
    let era = z.div_euclid(146097);
    let doe = z - era * 146097;
    let yoe = (doe - doe / 1460 + doe / 36524 - doe / 146096) / 365;
    let y = yoe + era * 400;
    let doy = doe - (365 * yoe + yoe / 4 - yoe / 100);
    let mp = (5 * doy + 2) / 153;
    let d = doy - (153 * mp + 2) / 5 + 1;
    let m = if mp < 10 { mp + 3 } else { mp - 9 };
    (if m <= 2 { y + 1 } else { y }, m, d)
}

fn is_leap(y: i128) -> bool {
    y % 4 == 0 && (y % 100 != 0 || y % 400 == 0)
}

fn days_in_month(y: i128, m: i128) -> i128 {
    match m {
        1 | 3 | 5 | 7 | 8 | 10 | 12 => 31,
        4 | 6 | 9 | 11 => 30,
        _ => {
            if is_leap(y) {
                29
            } else {
                28
            }
        }
    }
}

type Fields = (i128, i128, i128, i128, i128, i128);

fn ref_fields(t: i128) -> Fields {
    let days = t.div_euclid(86400);
    let secs = t.rem_euclid(86400);
    let (y, m, d) = civil_from_days(days);
    (y, m, d, secs / 3600, secs / 60 % 60, secs % 60)
}

fn ref_seconds(f: Fields) -> i128 {
    days_from_civil(f.0, f.1, f.2) * 86400 + f.3 * 3600 + f.4 * 60 + f.5
}

fn ref_valid(f: Fields) -> bool {
    f.0 >= 1 && f.0 <= u32::MAX as i128 && (1..=12).contains(&f.1) && f.2 >= 1 && f.2 <= days_in_month(f.0, f.1) && (0..24).contains(&f.3) && (0..60).contains(&f.4) && (0..60).contains(&f.5)
}

/// Documented range: 1-1-1 00:00:00 ..= [u32::MAX]-12-31 23:59:59.
fn min_supported() -> i128 {
    ref_seconds((1, 1, 1, 0, 0, 0))
}
fn max_supported() -> i128 {
    ref_seconds((u32::MAX as i128, 12, 31, 23, 59, 59))
}

fn fields_of(dt: &UtcDateTime) -> Fields {
    (dt.year() as i128, dt.month() as i128, dt.day_of_month() as i128, dt.hour() as i128, dt.minute() as i128, dt.second() as i128)
}

fn ref_print(f: Fields) -> String {
    format!("{:04}-{:02}-{:02}T{:02}:{:02}:{:02}Z", f.0, f.1, f.2, f.3, f.4, f.5)
}

// -------------------------------------------------------------------------------------------
// generators
// -------------------------------------------------------------------------------------------

fn gen_year(g: &mut Gen) -> i128 {
    match g.weighted(&[4, 4, 3, 2, 2, 1]) {
        0 => g.range(1900, 2100),
        1 => {
            // century and 400-year boundaries, and their neighbours
            let c = g.range(0, 99) * 100;
            (c + g.range(-1, 1)).max(1)
        }
        2 => g.range(1, 9999),
        3 => g.range(1, 1970),
        4 => g.range(1, u32::MAX as i128),
        _ => *g.pick(&[1i128, 2, 4, 100, 400, 1600, 1969, 1970, 1972, 2000, 9999, 10000, u32::MAX as i128, u32::MAX as i128 - 1, 4294967292]),
    }
}

/// A calendar position biased to year ends, February's end and March 1st.
fn gen_fields(g: &mut Gen) -> Fields {
    let y = gen_year(g);
    let (m, d) = match g.weighted(&[4, 2, 2, 2, 2, 2]) {
        0 => {
            let m = g.range(1, 12);
            (m, g.range(1, days_in_month(y, m)))
        }
        1 => (1, 1),
        2 => (12, 31),
        3 => (2, 28),
        4 => (2, days_in_month(y, 2)),
        _ => (3, 1),
    };
    let (h, mi, s) = match g.weighted(&[3, 2, 2]) {
        0 => (g.range(0, 23), g.range(0, 59), g.range(0, 59)),
        1 => (0, 0, g.range(0, 1)),
        _ => (23, 59, g.range(58, 59)),
    };
    (y, m, d, h, mi, s)
}

fn gen_timestamp(g: &mut Gen) -> i128 {
    let (lo, hi) = (min_supported(), max_supported());
    match g.weighted(&[6, 3, 2, 2]) {
        0 => ref_seconds(gen_fields(g)) + g.range(-2, 2),
        1 => g.range(lo, hi),
        2 => {
            // range ends and just outside
            if g.bool() {
                lo + g.range(-2, 2)
            } else {
                hi + g.range(-2, 2)
            }
        }
        _ => g.range(-3_000_000_000, 3_000_000_000),
    }
}

fn classify_date(g: &mut Gen, f: Fields) {
    if f.0 < 1970 {
        g.label("before 1970");
        g.nontrivial();
    }
    // within a day of a leap-century boundary: the turn of a century year, or its Feb/Mar turn
    let near_century = (f.0 % 100 == 0 && ((f.1 == 1 && f.2 == 1) || (f.1 == 2 && f.2 >= 28) || (f.1 == 3 && f.2 == 1) || (f.1 == 12 && f.2 == 31)))
        || (f.0 % 100 == 99 && f.1 == 12 && f.2 == 31)
        || (f.0 % 100 == 1 && f.1 == 1 && f.2 == 1);
    if near_century {
        g.label(if f.0 % 400 == 0 || (f.0 + 1) % 400 == 0 || (f.0 - 1) % 400 == 0 { "within a day of a 400-year boundary" } else { "within a day of a 100-year boundary" });
        g.nontrivial();
    }
    if (f.1 == 2 && f.2 >= 28) || (f.1 == 3 && f.2 == 1) {
        g.label("end of February / March 1st");
    }
    if f.0 > 9999 {
        g.label("year above 9999");
    }
}

fn make(f: Fields) -> Result<Result<UtcDateTime, String>, String> {
    catch(|| UtcDateTime::new(f.0 as u32, f.1 as u8, f.2 as u8, f.3 as u8, f.4 as u8, f.5 as u8).map_err(|e| format!("{:?}", e)))
}

// -------------------------------------------------------------------------------------------
// part instants
// -------------------------------------------------------------------------------------------

fn from_instant(t: i64) -> Result<Option<UtcDateTime>, String> {
    catch(|| UtcDateTime::from_instant(&Instant::new(t)).ok())
}

fn instants(g: &mut Gen) -> Outcome {
    let t = gen_timestamp(g);
    let (lo, hi) = (min_supported(), max_supported());
    let t64 = t as i64;
    let supported = t >= lo && t <= hi;
    g.sample(|| format!("from_instant({}) expected {}", t, if supported { ref_print(ref_fields(t)) } else { "out of range".into() }));
    let got = match from_instant(t64) {
        Ok(r) => r,
        Err(p) => return Outcome::fail("UtcDateTime::from_instant panics", format!("timestamp {}: {}", t, p)),
    };
    if !supported {
        g.label("outside the supported range");
        g.nontrivial();
        ensure!(got.is_none(), "UtcDateTime::from_instant accepts a timestamp outside the documented range", "timestamp {} gave {:?}", t, got);
        return Outcome::Pass;
    }
    if t == lo || t == hi {
        g.label("range end");
    }
    let want = ref_fields(t);
    classify_date(g, want);
    let Some(dt) = got else {
        return Outcome::fail("UtcDateTime::from_instant rejects a supported timestamp", format!("timestamp {} = {}", t, ref_print(want)));
    };
    ensure!(fields_of(&dt) == want, "UtcDateTime::from_instant disagrees with the proleptic Gregorian calendar", "timestamp {}: got {:?}, calendar says {}", t, dt, ref_print(want));
    // and back
    match catch(|| dt.to_instant().seconds_since_unix_epoch) {
        Err(p) => return Outcome::fail("UtcDateTime::to_instant panics", format!("{:?}: {}", dt, p)),
        Ok(back) => ensure!(back as i128 == t, "to_instant(from_instant(t)) != t", "timestamp {} -> {:?} -> {}", t, dt, back),
    }
    // the trait forms
    match catch(|| (UtcDateTime::try_from(Instant::new(t64)).ok(), Instant::from(dt).seconds_since_unix_epoch)) {
        Err(p) => return Outcome::fail("UtcDateTime <-> Instant trait conversion panics", format!("timestamp {}: {}", t, p)),
        Ok((a, b)) => ensure!(a == Some(dt) && b as i128 == t, "UtcDateTime <-> Instant trait conversions disagree with from_instant / to_instant", "timestamp {}: {:?} / {}", t, a, b),
    }
    // strictly increasing
    let delta = match g.weighted(&[3, 2, 2, 2]) {
        0 => 1,
        1 => g.range(1, 86400),
        2 => g.range(1, 40_000_000),
        _ => g.range(1, hi - lo),
    };
    let t2 = t + delta;
    if t2 <= hi {
        match from_instant(t2 as i64) {
            Err(p) => return Outcome::fail("UtcDateTime::from_instant panics", format!("timestamp {}: {}", t2, p)),
            Ok(None) => return Outcome::fail("UtcDateTime::from_instant rejects a supported timestamp", format!("timestamp {}", t2)),
            Ok(Some(dt2)) => ensure!(dt < dt2, "from_instant is not strictly increasing", "{} < {} but {:?} !< {:?}", t, t2, dt, dt2),
        }
    }
    Outcome::Pass
}

// -------------------------------------------------------------------------------------------
// part tuples
// -------------------------------------------------------------------------------------------

fn tuples(g: &mut Gen) -> Outcome {
    let mut f = gen_fields(g);
    let broken = g.weighted(&[5, 1, 1, 2, 1, 1, 1]);
    match broken {
        0 => {}
        1 => f.0 = 0,
        2 => f.1 = *g.pick(&[0i128, 13, 255]),
        3 => f.2 = *g.pick(&[0i128, days_in_month(f.0.max(1), f.1) + 1, 32, 255]),
        4 => f.3 = *g.pick(&[24i128, 255]),
        5 => f.4 = *g.pick(&[60i128, 255]),
        _ => f.5 = *g.pick(&[60i128, 61, 255]),
    }
    let valid = ref_valid(f);
    g.label(if valid { "valid tuple" } else { "one field invalid" });
    if !valid {
        g.nontrivial();
    }
    g.sample(|| format!("UtcDateTime::new{:?} valid={}", f, valid));
    let made = match make(f) {
        Ok(r) => r,
        Err(p) => return Outcome::fail("UtcDateTime::new panics", format!("{:?}: {}", f, p)),
    };
    match (valid, made) {
        (false, Err(_)) => Outcome::Pass,
        (false, Ok(dt)) => Outcome::fail("UtcDateTime::new accepts an invalid calendar date-time", format!("{:?} gave {:?}", f, dt)),
        (true, Err(e)) => Outcome::fail("UtcDateTime::new rejects a valid calendar date-time", format!("{:?}: {}", f, e)),
        (true, Ok(dt)) => {
            classify_date(g, f);
            ensure!(fields_of(&dt) == f, "UtcDateTime getters disagree with the constructor arguments", "{:?} -> {:?}", f, dt);
            let want = ref_seconds(f);
            let t = match catch(|| dt.to_instant().seconds_since_unix_epoch) {
                Ok(t) => t,
                Err(p) => return Outcome::fail("UtcDateTime::to_instant panics", format!("{:?}: {}", dt, p)),
            };
            ensure!(t as i128 == want, "UtcDateTime::to_instant disagrees with the proleptic Gregorian calendar", "{} -> {}, calendar says {}", ref_print(f), t, want);
            match from_instant(t) {
                Err(p) => Outcome::fail("UtcDateTime::from_instant panics", format!("timestamp {}: {}", t, p)),
                Ok(back) => {
                    ensure!(back == Some(dt), "from_instant(to_instant(dt)) != dt", "{:?} -> {} -> {:?}", dt, t, back);
                    Outcome::Pass
                }
            }
        }
    }
}

// -------------------------------------------------------------------------------------------
// part arithmetic
// -------------------------------------------------------------------------------------------

const UNITS: [(&str, i128); 4] = [("add_days", 86400), ("add_hours", 3600), ("add_minutes", 60), ("add_seconds", 1)];

fn arithmetic(g: &mut Gen) -> Outcome {
    let (lo, hi) = (min_supported(), max_supported());
    let t = gen_timestamp(g).clamp(lo, hi);
    let f = ref_fields(t);
    let (name, unit) = *g.pick(&UNITS);
    g.label(name);
    let off: i128 = match g.weighted(&[4, 3, 3, 2, 1]) {
        0 => g.range(-400, 400),
        1 => g.range(-150_000, 150_000) * if unit == 1 { 86400 } else { 1 },
        2 => {
            // lands next to an end of the supported range
            let lim = if g.bool() { hi } else { lo };
            (lim - t).div_euclid(unit) + g.range(-2, 2)
        }
        3 => g.i64() as i128,
        _ => *g.pick(&[i64::MAX as i128, i64::MIN as i128, i64::MAX as i128 / unit, i64::MAX as i128 / unit + 1, i64::MIN as i128 / unit - 1]),
    };
    let off = off.clamp(i64::MIN as i128, i64::MAX as i128);
    let target = t + off * unit;
    let in_range = target >= lo && target <= hi;
    if !in_range {
        g.label("result outside the supported range");
        g.nontrivial();
    } else {
        classify_date(g, ref_fields(target));
        if off < 0 {
            g.label("negative offset");
        }
    }
    g.sample(|| format!("{}.{}({}) expected {}", ref_print(f), name, off, if in_range { ref_print(ref_fields(target)) } else { "None".into() }));
    let dt = match make(f) {
        Ok(Ok(dt)) => dt,
        other => return Outcome::fail("UtcDateTime::new rejects a valid calendar date-time", format!("{:?}: {:?}", f, other)),
    };
    let o = off as i64;
    let got = catch(|| match unit {
        86400 => dt.add_days(o),
        3600 => dt.add_hours(o),
        60 => dt.add_minutes(o),
        _ => dt.add_seconds(o),
    });
    let got = match got {
        Ok(r) => r,
        Err(p) => return Outcome::fail(format!("UtcDateTime::{} panics", name), format!("{} offset {}: {}", ref_print(f), off, p)),
    };
    match (in_range, got) {
        (false, None) => {}
        (false, Some(r)) => return Outcome::fail(format!("UtcDateTime::{} returns a value outside the supported range", name), format!("{} offset {}: got {:?}", ref_print(f), off, r)),
        (true, None) => return Outcome::fail(format!("UtcDateTime::{} fails although the result is in range", name), format!("{} offset {}: expected {}", ref_print(f), off, ref_print(ref_fields(target)))),
        (true, Some(r)) => {
            ensure!(fields_of(&r) == ref_fields(target), format!("UtcDateTime::{} disagrees with timestamp arithmetic", name), "{} offset {}: got {:?}, expected {}", ref_print(f), off, r, ref_print(ref_fields(target)));
        }
    }
    // the same step on the timestamp itself (only asserted when the product fits an i64, which is
    // what the documented `Option` result can express)
    let inst = Instant::new(t as i64);
    let got_i = catch(|| {
        let r = match unit {
            86400 => inst.add_days(o),
            3600 => inst.add_hours(o),
            60 => inst.add_minutes(o),
            _ => inst.add_seconds(o),
        };
        r.map(|i| i.seconds_since_unix_epoch)
    });
    let fits = |v: i128| v >= i64::MIN as i128 && v <= i64::MAX as i128;
    match got_i {
        Err(p) => Outcome::fail(format!("Instant::{} panics", name), format!("{} offset {}: {}", t, off, p)),
        Ok(r) => {
            if fits(off * unit) {
                let want = if fits(target) { Some(target as i64) } else { None };
                ensure!(r == want, format!("Instant::{} is not exact timestamp arithmetic", name), "{} offset {}: got {:?}, expected {:?}", t, off, r, want);
            } else {
                g.label("offset product overflows i64");
            }
            Outcome::Pass
        }
    }
}

// -------------------------------------------------------------------------------------------
// part strings
// -------------------------------------------------------------------------------------------

const ODD: &[&str] = &["0", "9", "-", ":", "T", "Z", "t", "z", " ", "+", ".", "\0", "é", "١", "０", "😀", "€", "a"];

fn parse(s: &str) -> Result<Option<UtcDateTime>, String> {
    let s = s.to_string();
    catch(move || UtcDateTime::from_str(&s).ok())
}

fn strings(g: &mut Gen) -> Outcome {
    let mut f = gen_fields(g);
    if g.chance(5, 6) {
        f.0 = ((f.0 - 1) % 9999) + 1; // the documented four-digit form
        f.2 = f.2.min(days_in_month(f.0, f.1));
    }
    let printed = match make(f) {
        Ok(Ok(dt)) => match catch(|| dt.to_string()) {
            Ok(s) => s,
            Err(p) => return Outcome::fail("UtcDateTime::to_string panics", format!("{:?}: {}", dt, p)),
        },
        other => return Outcome::fail("UtcDateTime::new rejects a valid calendar date-time", format!("{:?}: {:?}", f, other)),
    };
    ensure!(printed == ref_print(f), "UtcDateTime prints a form other than the documented ISO-8601 one", "{:?} printed {:?}, documented form {:?}", f, printed, ref_print(f));
    let chars: Vec<char> = printed.chars().collect();
    let (s, how): (String, &'static str) = match g.weighted(&[3, 3, 4, 1, 1, 2]) {
        0 => (printed.clone(), "printed form"),
        1 => {
            let pos = g.index(chars.len());
            let rep = *g.pick(ODD);
            let mut out: String = chars[..pos].iter().collect();
            out.push_str(rep);
            out.extend(chars[pos + 1..].iter());
            (out, "one character replaced")
        }
        2 => {
            // same number of characters, one of them multi-byte, at every position
            let pos = g.index(chars.len());
            let rep = *g.pick(&['é', '١', '０', '😀', '€', 'ß']);
            let mut c = chars.clone();
            c[pos] = rep;
            (c.into_iter().collect(), "multi-byte character in place")
        }
        3 => {
            let pos = g.index(chars.len());
            let mut out: String = chars[..pos].iter().collect();
            out.extend(chars[pos + 1..].iter());
            (out, "one character deleted")
        }
        4 => {
            let pos = g.index(chars.len() + 1);
            let mut out: String = chars[..pos].iter().collect();
            out.push_str(*g.pick(ODD));
            out.extend(chars[pos..].iter());
            (out, "one character inserted")
        }
        _ => (String::from_utf8_lossy(&g.blob(30)).into_owned(), "raw bytes"),
    };
    g.label(how);
    if !s.is_ascii() {
        g.label("non-ASCII");
        g.nontrivial();
    }
    if how != "printed form" {
        g.nontrivial();
    } else {
        classify_date(g, f);
    }
    g.sample(|| format!("UtcDateTime::from_str({:?}) [{}]", s, how));
    let got = match parse(&s) {
        Ok(r) => r,
        Err(p) => {
            let class = if s.is_ascii() { "ASCII input" } else { "non-ASCII input" };
            return Outcome::fail(format!("UtcDateTime::from_str panics ({})", class), format!("input {:?}: {}", s, p));
        }
    };
    if how == "printed form" && f.0 <= 9999 {
        let dt = make(f).unwrap().unwrap();
        ensure!(got == Some(dt), "UtcDateTime: parse(print(dt)) != dt", "{:?} printed {:?} parsed {:?}", dt, s, got);
    }
    if let Some(dt) = got {
        g.label("accepted");
        ensure!(ref_valid(fields_of(&dt)), "UtcDateTime::from_str returns an invalid calendar date-time", "input {:?} gave {:?}", s, dt);
    }
    Outcome::Pass
}

pub fn check() -> vf_core::Check {
    vf_core::Check::new(
        "C29",
        "Calendar time conversions are correct and invertible",
        "part instants: timestamps next to generated calendar positions (year ends, Feb 28/29, Mar 1, century and 400-year years +-1, years 1..=u32::MAX biased to 1900..2100 and pre-1970), uniform over the supported range, around its two ends (+-2, i.e. also just outside) and around 1970; from_instant must give the reference calendar's fields, to_instant must return the timestamp, a second later timestamp must give a greater date-time, out-of-range timestamps must be rejected. part tuples: valid tuples and tuples with one invalid field; new() accepts exactly the valid ones, to_instant equals the reference day count, from_instant inverts it. part arithmetic: add_days/hours/minutes/seconds with small, large, range-end and overflowing offsets agree with i128 timestamp arithmetic (None exactly when the result leaves the supported range), and Instant::add_* is exact. part strings: printed forms (documented four-digit years; must parse back and equal the reference rendering), one character replaced / deleted / inserted, a multi-byte character put in place of any of the 20 characters, raw bytes; parsing never panics and only ever returns valid calendar date-times. Non-trivial = date before 1970 or within a day of a century boundary, out-of-range / invalid input, or a string that is not a plain printed form (incl. every non-ASCII one).",
    )
    .assume("the supported range is the documented one: 0001-01-01T00:00:00Z ..= [u32::MAX]-12-31T23:59:59Z")
    .part(Part::new("instants", 8_000_000, 200_000_000, 96, instants))
    .part(Part::new("tuples", 5_000_000, 125_000_000, 96, tuples))
    .part(Part::new("arithmetic", 5_000_000, 125_000_000, 128, arithmetic))
    .part(Part::new("strings", 8_000_000, 200_000_000, 128, strings))
    .min_nontrivial_pct(30.0)
}
