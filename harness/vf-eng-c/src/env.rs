//! The world shared by C05 / C50 / C51: the standard vf-world plus two global puppet components
//! (one per puppet package) with a little owned structure.

use crate::pup::*;
use scrypto_test::prelude::*;
use vf_world::*;

pub const WORLD_KEY: &str = "eng-c";

#[derive(Clone, Debug)]
pub struct Ext {
    /// global `Puppet` of package P: owner = badge of account 0 (updatable), with royalty module
    pub gp: ComponentAddress,
    /// global `Puppet` of package Q: field 0 holds a KV store, KV collection entry 1 holds an owned
    /// Q `Puppet` object, field 2 is locked; owner = none
    pub gq: ComponentAddress,
    /// global roots under which a transaction that only locks a fee changes substates
    pub noise: std::collections::BTreeSet<NodeId>,
}

fn run_ok(w: &mut World, m: TransactionManifestV1, proofs: Vec<NonFungibleGlobalId>) -> Vec<ComponentAddress> {
    let r = w.run(m, proofs);
    if !r.is_success() {
        panic!("vf-eng-c world build failed: {}", r.outcome_string());
    }
    r.commit().unwrap().new_component_addresses().iter().cloned().collect()
}

pub fn puppet_call_manifest(pkg: PackageAddress, script: &Script) -> TransactionManifestV1 {
    ManifestBuilder::new().lock_fee_from_faucet().call_function_raw(pkg, PUPPET_BLUEPRINT, PUPPET_RUN, script_manifest_args(script)).build()
}

pub fn puppet_method_manifest(component: impl Into<GlobalAddress>, method: &str, script: &Script) -> TransactionManifestV1 {
    let a: GlobalAddress = component.into();
    ManifestBuilder::new().lock_fee_from_faucet().call_method_raw(a, method, script_manifest_args(script)).build()
}

pub fn build(w: &mut World) {
    let owner = rule!(require(w.accounts[0].badge()));
    // gp
    let mut b = B::new();
    let o = b.op(
        Op::NewObject {
            blueprint: PUPPET_BLUEPRINT.into(),
            fields: vec![(0, enc(&v_u32(10)), false), (1, enc(&v_u32(11)), false), (2, enc(&v_u32(12)), false)],
            kv: vec![(PUPPET_COLL_KV, enc(&v_u32(1)), enc(&v_str("one")), false)],
        },
        1,
    );
    b.op(Op::Globalize { object: N::Slot(o), owner: OwnerSpec::Updatable(owner.clone()), reservation: None, with_royalty: true }, 1);
    let gp = run_ok(w, puppet_call_manifest(w.puppet_p, &b.script()), vec![])[0];

    // gq
    let mut b = B::new();
    let kv = b.op(Op::KvStoreNew { allow_ownership: true }, 1);
    let h = b.op(Op::KvOpen { store: N::Slot(kv), key: enc(&v_u32(5)), mutable: true }, 1);
    b.op(Op::KvSet(h, enc(&v_str("five"))), 1);
    b.op(Op::KvClose(h), 1);
    let child = b.op(
        Op::NewObject {
            blueprint: PUPPET_BLUEPRINT.into(),
            fields: vec![(0, enc(&v_u32(20)), false), (1, enc(&v_u32(21)), false), (2, enc(&v_u32(22)), false)],
            kv: vec![],
        },
        1,
    );
    let o = b.op(
        Op::NewObject {
            blueprint: PUPPET_BLUEPRINT.into(),
            fields: vec![(0, enc(&v_tuple(vec![v_own(kv)])), false), (1, enc(&v_u32(31)), false), (2, enc(&v_u32(32)), true)],
            kv: vec![(PUPPET_COLL_KV, enc(&v_u32(1)), enc(&v_tuple(vec![v_own(child)])), false)],
        },
        1,
    );
    b.op(Op::Globalize { object: N::Slot(o), owner: OwnerSpec::None, reservation: None, with_royalty: false }, 1);
    let gq = run_ok(w, puppet_call_manifest(w.puppet_q, &b.script()), vec![])[0];
    // what does a fee-only transaction touch?
    let before = crate::scan::dump(w.db());
    run_ok(w, ManifestBuilder::new().lock_fee_from_faucet().build(), vec![]);
    let after = crate::scan::dump(w.db());
    let scan = crate::scan::scan_ledger(w.db(), &crate::scan::ScanOptions { validate_only: Some(&Default::default()) });
    let mut noise = std::collections::BTreeSet::new();
    for (k, v) in &after {
        if before.get(k) != Some(v) {
            let mut cur = k.0;
            while let Some((p, _, _)) = scan.owner.get(&cur) {
                cur = *p;
            }
            noise.insert(cur);
        }
    }
    w.set_ext(Ext { gp, gq, noise });
}

use crate::scan::{dump, update_facts, Facts};
use std::cell::RefCell;
use std::collections::BTreeMap;
use std::rc::Rc;

pub type Dump = BTreeMap<(NodeId, u8, Vec<u8>), Vec<u8>>;

thread_local! {
    static BASE: RefCell<Option<(Rc<Facts>, Rc<Dump>)>> = RefCell::new(None);
}

/// Per-node scan facts and raw dump of the frozen world (identical at the start of every case of
/// this thread, so computed once). Call right after `with_world` handed over the reset world.
pub fn base(w: &World) -> (Rc<Facts>, Rc<Dump>) {
    BASE.with(|c| {
        let mut c = c.borrow_mut();
        if c.is_none() {
            let mut f = Facts::new();
            update_facts(w.db(), &mut f, None);
            *c = Some((Rc::new(f), Rc::new(dump(w.db()))));
        }
        let (f, d) = c.as_ref().unwrap();
        (f.clone(), d.clone())
    })
}

/// Nodes written by the transaction (its committed write-set).
pub fn touched_nodes(run: &Run) -> std::collections::BTreeSet<NodeId> {
    run.commit().map(|c| c.state_updates.by_node.keys().cloned().collect()).unwrap_or_default()
}
