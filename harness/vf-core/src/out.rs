//! Output hygiene. Code under test may print to stdout (kernel trace); the contract lines
//! (VIOLATION / KNOWN-FINDING) must be the only thing a caller parses. The driver parks fd 1 on
//! /dev/null for the whole run and writes contract lines through the saved descriptor.

use std::fs::File;
use std::io::Write;
use std::os::fd::FromRawFd;
use std::sync::Mutex;

static REAL_STDOUT: Mutex<Option<File>> = Mutex::new(None);

extern "C" {
    fn dup(fd: i32) -> i32;
    fn dup2(old: i32, new: i32) -> i32;
    fn open(path: *const std::ffi::c_char, flags: i32, ...) -> i32;
}

/// Redirect fd 1 to /dev/null, keeping the real stdout for `emit`.
pub fn park_stdout() {
    let mut g = REAL_STDOUT.lock().unwrap();
    if g.is_some() {
        return;
    }
    let _ = std::io::stdout().flush();
    unsafe {
        let saved = dup(1);
        if saved < 0 {
            return;
        }
        let devnull = open(b"/dev/null\0".as_ptr() as *const _, 1 /* O_WRONLY */);
        if devnull >= 0 {
            dup2(devnull, 1);
        }
        *g = Some(File::from_raw_fd(saved));
    }
}

/// Write a line to the real stdout.
pub fn emit(line: &str) {
    let mut g = REAL_STDOUT.lock().unwrap();
    match g.as_mut() {
        Some(f) => {
            let _ = writeln!(f, "{}", line);
            let _ = f.flush();
        }
        None => {
            println!("{}", line);
        }
    }
}

/// Progress / diagnostics go to stderr.
pub fn info(line: &str) {
    eprintln!("{}", line);
}
