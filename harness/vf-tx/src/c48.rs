//! C48 Signature primitives verify exactly the signed messages.

use radix_common::prelude::*;
use std::sync::OnceLock;
use vf_core::{catch, ensure, Check, Gen, Outcome, Part};

// ---- byte mutations -------------------------------------------------------------------------

/// The mutated value for byte `old` (always different from `old`).
fn mutate_value(g: &mut Gen, old: u8) -> (u8, &'static str) {
    let (v, what) = match g.weighted(&[8, 2, 2, 1, 1, 2]) {
        0 => (old ^ (1 << g.below(8)), "bit flip"),
        1 => (old.wrapping_add(1), "+1"),
        2 => (old.wrapping_sub(1), "-1"),
        3 => (0x00, "0x00"),
        4 => (0xff, "0xff"),
        _ => (g.u8(), "random byte"),
    };
    if v == old {
        (old ^ 0x01, "bit flip")
    } else {
        (v, what)
    }
}

/// All the probe values for one position: 8 bit flips, +1, -1, 0x00, 0xff (without `old` itself).
fn all_values(old: u8) -> Vec<u8> {
    let mut v: Vec<u8> = (0..8).map(|b| old ^ (1 << b)).collect();
    for x in [old.wrapping_add(1), old.wrapping_sub(1), 0x00, 0xff] {
        if x != old && !v.contains(&x) {
            v.push(x);
        }
    }
    v
}

#[derive(Clone, Copy, Debug, PartialEq, Eq)]
enum Target {
    Message,
    Signature,
    Key,
}

/// Positions and values to probe: either a few sampled (target, position, value) triples, or every
/// value at one sampled position per target, or one value at every position.
fn plan(g: &mut Gen, msg_len: usize, sig_len: usize, key_len: usize) -> Vec<(Target, usize, Option<u8>)> {
    // None value = "all values at this position"
    let mut out = Vec::new();
    match g.weighted(&[5, 3, 2]) {
        0 => {
            for _ in 0..12 {
                let t = match g.below(3) {
                    0 if msg_len > 0 => Target::Message,
                    1 => Target::Key,
                    _ => Target::Signature,
                };
                let len = match t {
                    Target::Message => msg_len,
                    Target::Signature => sig_len,
                    Target::Key => key_len,
                };
                out.push((t, g.index(len), Some(0)));
            }
        }
        1 => {
            if msg_len > 0 {
                out.push((Target::Message, g.index(msg_len), None));
            }
            out.push((Target::Signature, g.index(sig_len), None));
            out.push((Target::Key, g.index(key_len), None));
        }
        _ => {
            for i in 0..msg_len.min(40) {
                out.push((Target::Message, i, Some(0)));
            }
            for i in 0..sig_len {
                out.push((Target::Signature, i, Some(0)));
            }
            for i in 0..key_len {
                out.push((Target::Key, i, Some(0)));
            }
        }
    }
    out
}

// ---- secp256k1 ------------------------------------------------------------------------------

const SECP_N_MINUS_1: [u8; 32] = [
    0xFF, 0xFF, 0xFF, 0xFF, 0xFF, 0xFF, 0xFF, 0xFF, 0xFF, 0xFF, 0xFF, 0xFF, 0xFF, 0xFF, 0xFF, 0xFE, 0xBA, 0xAE, 0xDC, 0xE6, 0xAF, 0x48, 0xA0, 0x3B, 0xBF, 0xD2, 0x5E, 0x8C, 0xD0, 0x36, 0x41, 0x40,
];

fn gen_secp_key(g: &mut Gen) -> (Secp256k1PrivateKey, &'static str) {
    match g.weighted(&[1, 1, 2, 6]) {
        0 => (Secp256k1PrivateKey::from_u64(1).unwrap(), "scalar 1"),
        1 => (Secp256k1PrivateKey::from_bytes(&SECP_N_MINUS_1).unwrap(), "scalar n-1"),
        2 => (Secp256k1PrivateKey::from_u64(1 + g.below(1 << 20)).unwrap(), "small scalar"),
        _ => {
            let mut b = g.array::<32>();
            b[0] &= 0x7f; // < n
            if b.iter().all(|x| *x == 0) {
                b[31] = 2;
            }
            (Secp256k1PrivateKey::from_bytes(&b).unwrap(), "random scalar")
        }
    }
}

fn secp(g: &mut Gen) -> Outcome {
    let (sk, kclass) = gen_secp_key(g);
    let pk = sk.public_key();
    let msg = Hash(g.array::<32>());
    let sig = sk.sign(&msg);
    g.label(kclass);
    g.sample(|| format!("secp256k1 {} key {} message hash {} signature {}", kclass, hex::encode(pk.0), msg, hex::encode(sig.0)));
    let ctx = |extra: String| format!("{}\nkey {}\nmessage hash {}\nsignature {}", extra, hex::encode(pk.0), hex::encode(msg.0), hex::encode(sig.0));
    // positive direction
    match catch(|| (verify_secp256k1(&msg, &pk, &sig), verify_and_recover_secp256k1(&msg, &sig), verify_and_recover_secp256k1_uncompressed(&msg, &sig))) {
        Err(p) => return Outcome::fail("secp256k1 verification panics", ctx(p)),
        Ok((ok, rec, rec_u)) => {
            ensure!(ok, "verify_secp256k1 rejects a signature produced by the key", "{}", ctx(String::new()));
            ensure!(rec == Some(pk), "verify_and_recover_secp256k1 does not return the signer", "{}", ctx(format!("recovered {:?}", rec.map(|k| hex::encode(k.0)))));
            let expected_u = secp256k1::PublicKey::from_slice(&pk.0).expect("valid key").serialize_uncompressed();
            ensure!(
                rec_u.map(|k| k.0) == Some(expected_u),
                "verify_and_recover_secp256k1_uncompressed does not return the signer",
                "{}",
                ctx(format!("recovered {:?} expected {}", rec_u.map(|k| hex::encode(k.0)), hex::encode(expected_u)))
            );
        }
    }
    // mutations
    let orig_u = secp256k1::PublicKey::from_slice(&pk.0).unwrap().serialize_uncompressed();
    let mut probes = 0u64;
    let mut recid_benign = 0u64;
    for (t, pos, v) in plan(g, 32, 65, 33) {
        let old = match t {
            Target::Message => msg.0[pos],
            Target::Signature => sig.0[pos],
            Target::Key => pk.0[pos],
        };
        let values: Vec<u8> = match v {
            Some(_) => vec![mutate_value(g, old).0],
            None => all_values(old),
        };
        for val in values {
            let (mut m2, mut s2, mut k2) = (msg, sig, pk);
            match t {
                Target::Message => m2.0[pos] = val,
                Target::Signature => s2.0[pos] = val,
                Target::Key => k2.0[pos] = val,
            }
            probes += 1;
            let where_ = || format!("{:?} byte {} {:#04x} -> {:#04x}", t, pos, old, val);
            let (ok, rec, rec_u) = match catch(|| (verify_secp256k1(&m2, &k2, &s2), verify_and_recover_secp256k1(&m2, &s2), verify_and_recover_secp256k1_uncompressed(&m2, &s2))) {
                Ok(r) => r,
                Err(p) => return Outcome::fail("secp256k1 verification panics on a mutated input", ctx(format!("{}: {}", where_(), p))),
            };
            let recid_only = t == Target::Signature && pos == 0;
            if recid_only && val <= 3 {
                // not part of the ECDSA signature that verify_secp256k1 checks (see DESIGN notes)
                recid_benign += 1;
                g.label("recovery id changed within 0..=3 (classified, not judged for verify_secp256k1)");
            } else {
                ensure!(!ok, "verify_secp256k1 accepts a mutated (message, signature, key) triple", "{}", ctx(where_()));
            }
            if t != Target::Key {
                // recovery must not name the signer for a changed message / signature (incl. the recovery id)
                ensure!(rec != Some(pk), "verify_and_recover_secp256k1 returns the signer for a mutated message / signature", "{}", ctx(where_()));
                ensure!(rec_u.map(|k| k.0) != Some(orig_u), "verify_and_recover_secp256k1_uncompressed returns the signer for a mutated message / signature", "{}", ctx(where_()));
            }
            if (t == Target::Signature && pos > 0) || t == Target::Key {
                g.nontrivial();
            }
        }
    }
    // Classified, not judged (a multi-byte change, outside the single-byte quantifier): the high-S
    // twin (r, n-s, id^1) of the signature.
    if g.chance(1, 4) {
        if let Ok(s_scalar) = secp256k1::SecretKey::from_slice(&sig.0[33..65]) {
            let neg = s_scalar.negate().secret_bytes();
            let mut twin = sig;
            twin.0[33..65].copy_from_slice(&neg);
            twin.0[0] ^= 1;
            if let Ok((ok, rec)) = catch(|| (verify_secp256k1(&msg, &pk, &twin), verify_and_recover_secp256k1(&msg, &twin))) {
                g.label(if ok { "high-S twin: verify_secp256k1 accepts (not judged)" } else { "high-S twin: verify_secp256k1 rejects (not judged)" });
                g.label(if rec == Some(pk) { "high-S twin: recovery returns the signer (not judged)" } else { "high-S twin: recovery does not return the signer (not judged)" });
            }
        }
    }
    g.count("mutated triples", probes);
    g.count("recovery-id-only changes within 0..=3", recid_benign);
    Outcome::Pass
}

// ---- ed25519 --------------------------------------------------------------------------------

const TORSION: [[u8; 32]; 8] = [
    [1, 0, 0, 0, 0, 0, 0, 0, 0, 0, 0, 0, 0, 0, 0, 0, 0, 0, 0, 0, 0, 0, 0, 0, 0, 0, 0, 0, 0, 0, 0, 0],
    [0xc7, 0x17, 0x6a, 0x70, 0x3d, 0x4d, 0xd8, 0x4f, 0xba, 0x3c, 0x0b, 0x76, 0x0d, 0x10, 0x67, 0x0f, 0x2a, 0x20, 0x53, 0xfa, 0x2c, 0x39, 0xcc, 0xc6, 0x4e, 0xc7, 0xfd, 0x77, 0x92, 0xac, 0x03, 0x7a],
    [0, 0, 0, 0, 0, 0, 0, 0, 0, 0, 0, 0, 0, 0, 0, 0, 0, 0, 0, 0, 0, 0, 0, 0, 0, 0, 0, 0, 0, 0, 0, 0x80],
    [0x26, 0xe8, 0x95, 0x8f, 0xc2, 0xb2, 0x27, 0xb0, 0x45, 0xc3, 0xf4, 0x89, 0xf2, 0xef, 0x98, 0xf0, 0xd5, 0xdf, 0xac, 0x05, 0xd3, 0xc6, 0x33, 0x39, 0xb1, 0x38, 0x02, 0x88, 0x6d, 0x53, 0xfc, 0x05],
    [0xec, 0xff, 0xff, 0xff, 0xff, 0xff, 0xff, 0xff, 0xff, 0xff, 0xff, 0xff, 0xff, 0xff, 0xff, 0xff, 0xff, 0xff, 0xff, 0xff, 0xff, 0xff, 0xff, 0xff, 0xff, 0xff, 0xff, 0xff, 0xff, 0xff, 0xff, 0x7f],
    [0x26, 0xe8, 0x95, 0x8f, 0xc2, 0xb2, 0x27, 0xb0, 0x45, 0xc3, 0xf4, 0x89, 0xf2, 0xef, 0x98, 0xf0, 0xd5, 0xdf, 0xac, 0x05, 0xd3, 0xc6, 0x33, 0x39, 0xb1, 0x38, 0x02, 0x88, 0x6d, 0x53, 0xfc, 0x85],
    [0, 0, 0, 0, 0, 0, 0, 0, 0, 0, 0, 0, 0, 0, 0, 0, 0, 0, 0, 0, 0, 0, 0, 0, 0, 0, 0, 0, 0, 0, 0, 0],
    [0xc7, 0x17, 0x6a, 0x70, 0x3d, 0x4d, 0xd8, 0x4f, 0xba, 0x3c, 0x0b, 0x76, 0x0d, 0x10, 0x67, 0x0f, 0x2a, 0x20, 0x53, 0xfa, 0x2c, 0x39, 0xcc, 0xc6, 0x4e, 0xc7, 0xfd, 0x77, 0x92, 0xac, 0x03, 0xfa],
];

fn ed(g: &mut Gen) -> Outcome {
    let seed = match g.weighted(&[1, 1, 6]) {
        0 => {
            let mut s = [0u8; 32];
            s[31] = 1;
            s
        }
        1 => [0xff; 32],
        _ => g.array::<32>(),
    };
    let sk = Ed25519PrivateKey::from_bytes(&seed).unwrap();
    let pk = sk.public_key();
    let msg: Vec<u8> = if g.bool() { g.bytes(32) } else { g.blob(300) };
    let sig = sk.sign(&msg);
    g.label(if msg.len() == 32 { "32-byte hash message" } else if msg.is_empty() { "empty message" } else { "variable message" });
    g.sample(|| format!("ed25519 key {} message ({} bytes) {} signature {}", hex::encode(pk.0), msg.len(), hex::encode(&msg), hex::encode(sig.0)));
    let ctx = |extra: String| format!("{}\nkey {}\nmessage {}\nsignature {}", extra, hex::encode(pk.0), hex::encode(&msg), hex::encode(sig.0));
    match catch(|| verify_ed25519(&msg, &pk, &sig)) {
        Err(p) => return Outcome::fail("verify_ed25519 panics", ctx(p)),
        Ok(ok) => ensure!(ok, "verify_ed25519 rejects a signature produced by the key", "{}", ctx(String::new())),
    }
    let mut probes = 0u64;
    for (t, pos, v) in plan(g, msg.len(), 64, 32) {
        let old = match t {
            Target::Message => msg[pos],
            Target::Signature => sig.0[pos],
            Target::Key => pk.0[pos],
        };
        let values: Vec<u8> = match v {
            Some(_) => vec![mutate_value(g, old).0],
            None => all_values(old),
        };
        for val in values {
            let (mut m2, mut s2, mut k2) = (msg.clone(), sig, pk);
            match t {
                Target::Message => m2[pos] = val,
                Target::Signature => s2.0[pos] = val,
                Target::Key => k2.0[pos] = val,
            }
            probes += 1;
            let ok = match catch(|| verify_ed25519(&m2, &k2, &s2)) {
                Ok(r) => r,
                Err(p) => return Outcome::fail("verify_ed25519 panics on a mutated input", ctx(format!("{:?} byte {}: {}", t, pos, p))),
            };
            ensure!(!ok, "verify_ed25519 accepts a mutated (message, signature, key) triple", "{}", ctx(format!("{:?} byte {} {:#04x} -> {:#04x}", t, pos, old, val)));
            if t != Target::Message {
                g.nontrivial();
            }
        }
    }
    // length changes of the message
    let mut longer = msg.clone();
    longer.push(g.u8());
    ensure!(!verify_ed25519(&longer, &pk, &sig), "verify_ed25519 accepts an extended message", "{}", ctx(format!("extended to {}", hex::encode(&longer))));
    if !msg.is_empty() {
        let shorter = &msg[..msg.len() - 1];
        ensure!(!verify_ed25519(shorter, &pk, &sig), "verify_ed25519 accepts a truncated message", "{}", ctx("last byte removed".into()));
    }
    probes += 2;
    // key replaced by a small-order point and signature by (small-order R, S = 0): not a signature
    // produced by any key pair
    if g.chance(1, 3) {
        let a = Ed25519PublicKey(*g.pick(&TORSION));
        let mut s = [0u8; 64];
        let r_point: [u8; 32] = *g.pick(&TORSION);
        s[..32].copy_from_slice(&r_point);
        let forged = Ed25519Signature(s);
        g.label("small-order key with (small-order R, S=0)");
        g.nontrivial();
        probes += 1;
        let ok = match catch(|| verify_ed25519(&msg, &a, &forged)) {
            Ok(r) => r,
            Err(p) => return Outcome::fail("verify_ed25519 panics on a small-order key", ctx(p)),
        };
        ensure!(!ok, "verify_ed25519 accepts a signature nobody produced under a small-order public key", "key {} signature {} message {}", hex::encode(a.0), hex::encode(forged.0), hex::encode(&msg));
    }
    g.count("mutated triples", probes);
    Outcome::Pass
}

// ---- BLS12-381 ------------------------------------------------------------------------------

const BLS_POOL: usize = 5;

fn bls_keys() -> &'static Vec<(Bls12381G1PrivateKey, Bls12381G1PublicKey)> {
    static K: OnceLock<Vec<(Bls12381G1PrivateKey, Bls12381G1PublicKey)>> = OnceLock::new();
    K.get_or_init(|| {
        (0..BLS_POOL)
            .map(|i| {
                let k = Bls12381G1PrivateKey::from_u64(0x5151 + 977 * i as u64).unwrap();
                let p = k.public_key();
                (k, p)
            })
            .collect()
    })
}

fn gen_bls_key(g: &mut Gen) -> (Bls12381G1PrivateKey, Bls12381G1PublicKey, &'static str) {
    match g.weighted(&[1, 2, 5]) {
        0 => {
            let k = Bls12381G1PrivateKey::from_u64(1).unwrap();
            let p = k.public_key();
            (k, p, "scalar 1")
        }
        1 => {
            let k = Bls12381G1PrivateKey::from_u64(2 + g.below(1 << 30)).unwrap();
            let p = k.public_key();
            (k, p, "small scalar")
        }
        _ => {
            let mut b = g.array::<32>();
            b[0] &= 0x3f; // below the group order
            if b.iter().all(|x| *x == 0) {
                b[31] = 3;
            }
            let k = Bls12381G1PrivateKey::from_bytes(&b).unwrap();
            let p = k.public_key();
            (k, p, "random scalar")
        }
    }
}

fn aggregate_by_hand(sigs: &[Bls12381G2Signature]) -> Option<Bls12381G2Signature> {
    let native: Vec<blst::min_pk::Signature> = sigs.iter().map(|s| blst::min_pk::Signature::from_bytes(&s.0)).collect::<Result<_, _>>().ok()?;
    let refs: Vec<&blst::min_pk::Signature> = native.iter().collect();
    let agg = blst::min_pk::AggregateSignature::aggregate(&refs, false).ok()?;
    Some(Bls12381G2Signature(agg.to_signature().to_bytes()))
}

fn bls_single(g: &mut Gen) -> Outcome {
    let (sk, pk, kclass) = gen_bls_key(g);
    let msg = if g.bool() { g.bytes(32) } else { g.blob(120) };
    let sig = sk.sign_v1(&msg);
    g.label("bls single");
    g.label(kclass);
    g.sample(|| format!("bls12381 {} key {} message {} signature {}", kclass, hex::encode(pk.0), hex::encode(&msg), hex::encode(sig.0)));
    let ctx = |extra: String| format!("{}\nkey {}\nmessage {}\nsignature {}", extra, hex::encode(pk.0), hex::encode(&msg), hex::encode(sig.0));
    match catch(|| verify_bls12381_v1(&msg, &pk, &sig)) {
        Err(p) => return Outcome::fail("verify_bls12381_v1 panics", ctx(p)),
        Ok(ok) => ensure!(ok, "verify_bls12381_v1 rejects a signature produced by the key", "{}", ctx(String::new())),
    }
    let mut probes = 0u64;
    for _ in 0..5 {
        let t = match g.below(3) {
            0 if !msg.is_empty() => Target::Message,
            1 => Target::Key,
            _ => Target::Signature,
        };
        let len = match t {
            Target::Message => msg.len(),
            Target::Signature => 96,
            Target::Key => 48,
        };
        // the first byte carries the compression / infinity / sign flags: probe it often
        let pos = if t != Target::Message && g.chance(1, 4) { 0 } else { g.index(len) };
        let old = match t {
            Target::Message => msg[pos],
            Target::Signature => sig.0[pos],
            Target::Key => pk.0[pos],
        };
        let (val, _) = mutate_value(g, old);
        let (mut m2, mut s2, mut k2) = (msg.clone(), sig, pk);
        match t {
            Target::Message => m2[pos] = val,
            Target::Signature => s2.0[pos] = val,
            Target::Key => k2.0[pos] = val,
        }
        probes += 1;
        let ok = match catch(|| verify_bls12381_v1(&m2, &k2, &s2)) {
            Ok(r) => r,
            Err(p) => return Outcome::fail("verify_bls12381_v1 panics on a mutated input", ctx(format!("{:?} byte {}: {}", t, pos, p))),
        };
        ensure!(!ok, "verify_bls12381_v1 accepts a mutated (message, signature, key) triple", "{}", ctx(format!("{:?} byte {} {:#04x} -> {:#04x}", t, pos, old, val)));
        if t != Target::Message {
            g.nontrivial();
        }
    }
    // infinity and arbitrary (almost surely out-of-group) points
    if g.chance(1, 3) {
        let mut inf_sig = [0u8; 96];
        inf_sig[0] = 0xc0;
        let mut inf_key = [0u8; 48];
        inf_key[0] = 0xc0;
        let mut rnd_key = g.array::<48>();
        rnd_key[0] = 0x80 | (rnd_key[0] & 0x0f);
        let mut rnd_sig = [0u8; 96];
        rnd_sig.copy_from_slice(&g.bytes(96));
        rnd_sig[0] = 0x80 | (rnd_sig[0] & 0x0f);
        g.label("infinity / arbitrary points");
        for (what, k, s) in [
            ("infinity signature", pk, Bls12381G2Signature(inf_sig)),
            ("infinity key", Bls12381G1PublicKey(inf_key), sig),
            ("infinity key and signature", Bls12381G1PublicKey(inf_key), Bls12381G2Signature(inf_sig)),
            ("arbitrary x as key", Bls12381G1PublicKey(rnd_key), sig),
            ("arbitrary x as signature", pk, Bls12381G2Signature(rnd_sig)),
        ] {
            probes += 1;
            let ok = match catch(|| verify_bls12381_v1(&msg, &k, &s)) {
                Ok(r) => r,
                Err(p) => return Outcome::fail("verify_bls12381_v1 panics on an infinity / arbitrary point", ctx(format!("{}: {}", what, p))),
            };
            ensure!(!ok, "verify_bls12381_v1 accepts an infinity / arbitrary point", "{}: key {} signature {}\n{}", what, hex::encode(k.0), hex::encode(s.0), ctx(String::new()));
        }
    }
    g.count("mutated triples", probes);
    Outcome::Pass
}

fn small_msg(g: &mut Gen) -> Vec<u8> {
    // a small alphabet so that duplicated messages happen
    match g.below(4) {
        0 => vec![],
        1 => vec![g.below(3) as u8],
        2 => vec![g.below(3) as u8; 32],
        _ => g.blob(40),
    }
}

fn bls_aggregate(g: &mut Gen) -> Outcome {
    let n = 1 + g.below(6) as usize;
    // what was really signed
    let mut signed: Vec<(usize, Vec<u8>)> = (0..n).map(|_| (g.index(BLS_POOL), small_msg(g))).collect();
    // what is claimed at verification
    let mut claimed: Vec<(usize, Vec<u8>)> = signed.clone();
    let fault = g.weighted(&[4, 2, 2, 2, 2, 1, 1]);
    let what = match fault {
        0 => "aggregate: all components correct",
        1 => {
            // one component signs a different message
            let i = g.index(n);
            signed[i].1.push(0x99);
            "aggregate: one component signature over another message"
        }
        2 => {
            // one component is signed by another key
            let i = g.index(n);
            signed[i].0 = (signed[i].0 + 1 + g.index(BLS_POOL - 1)) % BLS_POOL;
            "aggregate: one component signed by another key"
        }
        3 => {
            // messages of two claims swapped
            if n >= 2 {
                let tmp = claimed[0].1.clone();
                claimed[0].1 = claimed[n - 1].1.clone();
                claimed[n - 1].1 = tmp;
            }
            "aggregate: two claimed messages swapped"
        }
        4 => {
            // consistent permutation of the (key, message) pairs
            claimed.reverse();
            "aggregate: pairs permuted"
        }
        5 => {
            // one pair dropped from the claim
            if n >= 2 {
                claimed.pop();
            } else {
                claimed[0].1.push(1);
            }
            "aggregate: one pair missing from the claim"
        }
        _ => {
            // one extra pair claimed
            claimed.push((g.index(BLS_POOL), small_msg(g)));
            "aggregate: one extra pair claimed"
        }
    };
    g.label(what);
    let sigs: Vec<Bls12381G2Signature> = signed.iter().map(|(k, m)| bls_keys()[*k].0.sign_v1(m)).collect();
    let agg = match aggregate_by_hand(&sigs) {
        Some(a) => a,
        None => return Outcome::Discard,
    };
    let mut a = signed.clone();
    let mut b = claimed.clone();
    a.sort();
    b.sort();
    let expected = a == b;
    g.label(if expected { "expected: verifies" } else { "expected: fails" });
    if a.windows(2).any(|w| w[0].1 == w[1].1) {
        g.label("duplicated messages");
    }
    g.nontrivial();
    let pairs: Vec<(Bls12381G1PublicKey, Vec<u8>)> = claimed.iter().map(|(k, m)| (bls_keys()[*k].1, m.clone())).collect();
    g.sample(|| format!("{}: signed {:?} claimed {:?} expected {}", what, signed, claimed, expected));
    let got = match catch(|| aggregate_verify_bls12381_v1(&pairs, &agg)) {
        Ok(r) => r,
        Err(p) => return Outcome::fail("aggregate_verify_bls12381_v1 panics", format!("{}\nsigned {:?} claimed {:?}", p, signed, claimed)),
    };
    ensure!(
        got == expected,
        if expected { "aggregate_verify_bls12381_v1 rejects an aggregate of valid component signatures" } else { "aggregate_verify_bls12381_v1 accepts an aggregate with a component that is not a signature of its message" },
        "{}: signed (key index, message) {:?}, claimed {:?}, aggregate {}",
        what,
        signed,
        claimed,
        hex::encode(agg.0)
    );
    // the repository's own aggregation gives the same aggregate as the by-hand one
    if let Ok(Ok(repo_agg)) = catch(|| Bls12381G2Signature::aggregate(&sigs, true)) {
        ensure!(repo_agg == agg, "Bls12381G2Signature::aggregate differs from aggregating the component signatures by hand", "by hand {} repo {}", hex::encode(agg.0), hex::encode(repo_agg.0));
    }
    Outcome::Pass
}

fn bls_fast(g: &mut Gen) -> Outcome {
    let n = 1 + g.below(5) as usize;
    let msg = small_msg(g);
    let signers: Vec<usize> = (0..n).map(|_| g.index(BLS_POOL)).collect();
    let mut claimed = signers.clone();
    let what = match g.weighted(&[4, 2, 2, 2, 1]) {
        0 => "fast aggregate: exact key list",
        1 => {
            claimed.remove(g.index(n));
            "fast aggregate: one key removed"
        }
        2 => {
            claimed.push(g.index(BLS_POOL));
            "fast aggregate: one key added"
        }
        3 => {
            claimed.reverse();
            "fast aggregate: keys permuted"
        }
        _ => {
            let i = g.index(n);
            claimed[i] = (claimed[i] + 1 + g.index(BLS_POOL - 1)) % BLS_POOL;
            "fast aggregate: one key replaced"
        }
    };
    g.label(what);
    let sigs: Vec<Bls12381G2Signature> = signers.iter().map(|k| bls_keys()[*k].0.sign_v1(&msg)).collect();
    let agg = match aggregate_by_hand(&sigs) {
        Some(a) => a,
        None => return Outcome::Discard,
    };
    let mut a = signers.clone();
    let mut b = claimed.clone();
    a.sort();
    b.sort();
    // equal multisets of signer keys <=> equal key sums (up to negligible coincidences); a
    // multiset that sums to the identity cannot arise from these fixed, independent keys
    let expected = a == b && !claimed.is_empty();
    g.label(if expected { "expected: verifies" } else { "expected: fails" });
    g.nontrivial();
    let keys: Vec<Bls12381G1PublicKey> = claimed.iter().map(|k| bls_keys()[*k].1).collect();
    g.sample(|| format!("{}: signers {:?} claimed {:?} message {} expected {}", what, signers, claimed, hex::encode(&msg), expected));
    let got = match catch(|| fast_aggregate_verify_bls12381_v1(&msg, &keys, &agg)) {
        Ok(r) => r,
        Err(p) => return Outcome::fail("fast_aggregate_verify_bls12381_v1 panics", format!("{}\nsigners {:?} claimed {:?}", p, signers, claimed)),
    };
    ensure!(
        got == expected,
        if expected { "fast_aggregate_verify_bls12381_v1 rejects the aggregate of the listed keys' signatures" } else { "fast_aggregate_verify_bls12381_v1 accepts a key list that differs from the signers" },
        "{}: signers {:?}, claimed {:?}, message {}, aggregate {}",
        what,
        signers,
        claimed,
        hex::encode(&msg),
        hex::encode(agg.0)
    );
    Outcome::Pass
}

fn bls(g: &mut Gen) -> Outcome {
    match g.weighted(&[4, 4, 2]) {
        0 => bls_single(g),
        1 => bls_aggregate(g),
        _ => bls_fast(g),
    }
}

pub fn check() -> Check {
    Check::new(
        "C48",
        "Signature primitives verify exactly the signed messages",
        "part secp256k1 / ed25519: keys from scalars (1, n-1, small, random) / seeds, 32-byte hashes (ed25519 also 0-300 byte messages); the produced signature must verify, recovery (compressed and uncompressed) must return the signer; then single-byte mutations of message, signature and key in one of three plans: 12 sampled (target, position, value) probes; all 8 bit flips, +-1, 0x00, 0xff at one sampled position per target; or one mutation at every position of signature, key and message. Every mutant must fail to verify and recovery must not name the signer (a recovered key must itself verify the mutated signature). ed25519 additionally: extended / truncated message, and a small-order public key with a (small-order R, S=0) signature. part bls: single signatures with mutations biased to the flag byte, infinity and arbitrary-x points; aggregate_verify over 1-6 (key, message) pairs from small pools (duplicated keys and messages) with one component over another message / by another key, claimed messages swapped, pairs permuted, a pair missing or added - expected = multiset of signed pairs equals multiset of claimed pairs, aggregate built by hand with blst from the component signatures; fast_aggregate_verify with the key list exact / permuted / one key removed, added, replaced. Non-trivial = a mutation inside signature or key bytes (beyond the secp256k1 recovery-id byte), or any aggregate case.",
    )
    .assume("a change of only the secp256k1 recovery-id byte to another value in 0..=3 is not a signature change for verify_secp256k1 (explicit public key): counted, not judged; values > 3 must fail; verify_and_recover_secp256k1 is judged on it")
    .assume("cryptographic coincidences (a mutated value that happens to verify) are treated as impossible")
    .part(Part::new("secp256k1", 30_000, 1_000_000, 200, secp))
    .part(Part::new("ed25519", 60_000, 2_000_000, 500, ed))
    .part(Part::new("bls", 20_000, 600_000, 500, bls))
    .min_nontrivial_pct(30.0)
}
