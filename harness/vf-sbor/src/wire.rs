//! R2 — SBOR wire reference: a recogniser / printer for the three SBOR flavours written against the
//! wire format only (prefix byte, value-kind table, LEB128 sizes of at most 4 bytes without a
//! trailing zero byte, little-endian integers, bool in {0,1}, UTF-8 strings, element kinds of
//! arrays and maps, per-flavour custom kinds with fixed lengths and inner validity).
//!
//! It shares no code with the `sbor` / `radix-common` crates: nothing from /repo is imported here.

#[derive(Clone, Copy, PartialEq, Eq, Debug, Hash, PartialOrd, Ord)]
pub enum Flavour {
    Basic,
    Scrypto,
    Manifest,
}

// value kinds (documented table)
pub const K_BOOL: u8 = 0x01;
pub const K_I8: u8 = 0x02;
pub const K_I16: u8 = 0x03;
pub const K_I32: u8 = 0x04;
pub const K_I64: u8 = 0x05;
pub const K_I128: u8 = 0x06;
pub const K_U8: u8 = 0x07;
pub const K_U16: u8 = 0x08;
pub const K_U32: u8 = 0x09;
pub const K_U64: u8 = 0x0a;
pub const K_U128: u8 = 0x0b;
pub const K_STRING: u8 = 0x0c;
pub const K_ARRAY: u8 = 0x20;
pub const K_TUPLE: u8 = 0x21;
pub const K_ENUM: u8 = 0x22;
pub const K_MAP: u8 = 0x23;

// Scrypto custom kinds
pub const SK_REFERENCE: u8 = 0x80;
pub const SK_OWN: u8 = 0x90;
pub const SK_DECIMAL: u8 = 0xa0;
pub const SK_PRECISE_DECIMAL: u8 = 0xb0;
pub const SK_NF_LOCAL_ID: u8 = 0xc0;

// manifest custom kinds
pub const MK_ADDRESS: u8 = 0x80;
pub const MK_BUCKET: u8 = 0x81;
pub const MK_PROOF: u8 = 0x82;
pub const MK_EXPRESSION: u8 = 0x83;
pub const MK_BLOB: u8 = 0x84;
pub const MK_DECIMAL: u8 = 0x85;
pub const MK_PRECISE_DECIMAL: u8 = 0x86;
pub const MK_NF_LOCAL_ID: u8 = 0x87;
pub const MK_ADDRESS_RESERVATION: u8 = 0x88;

pub const BASIC_KINDS: &[u8] = &[
    K_BOOL, K_I8, K_I16, K_I32, K_I64, K_I128, K_U8, K_U16, K_U32, K_U64, K_U128, K_STRING, K_ARRAY, K_TUPLE, K_ENUM, K_MAP,
];
pub const SCRYPTO_CUSTOM: &[u8] = &[SK_REFERENCE, SK_OWN, SK_DECIMAL, SK_PRECISE_DECIMAL, SK_NF_LOCAL_ID];
pub const MANIFEST_CUSTOM: &[u8] = &[
    MK_ADDRESS,
    MK_BUCKET,
    MK_PROOF,
    MK_EXPRESSION,
    MK_BLOB,
    MK_DECIMAL,
    MK_PRECISE_DECIMAL,
    MK_NF_LOCAL_ID,
    MK_ADDRESS_RESERVATION,
];

/// Entity-type bytes (first byte of a node id) that name an entity type.
pub const ENTITY_TYPES: &[u8] = &[
    0b0000_1101, // global package
    0b1000_0110, // consensus manager
    0b1000_0011, // validator
    0b1000_0010, // transaction tracker
    0b1100_0000, // generic component
    0b1100_0001, // account
    0b1100_0010, // identity
    0b1100_0011, // access controller
    0b1100_0100, // one-resource pool
    0b1100_0101, // two-resource pool
    0b1100_0110, // multi-resource pool
    0b0110_1000, // account locker
    0b1101_0001, // preallocated secp256k1 account
    0b1101_0010, // preallocated secp256k1 identity
    0b0101_0001, // preallocated ed25519 account
    0b0101_0010, // preallocated ed25519 identity
    0b0101_1101, // fungible resource manager
    0b0101_1000, // internal fungible vault
    0b1001_1010, // non-fungible resource manager
    0b1001_1000, // internal non-fungible vault
    0b1111_1000, // internal generic component
    0b1011_0000, // internal key-value store
];

pub const MAX_SIZE: usize = 0x0FFF_FFFF;
pub const NF_ID_MAX_LEN: usize = 64;

/// Nesting deeper than this is reported as `TooDeep` (every depth limit used by the checks is far
/// below it); it only bounds the recogniser's own recursion.
pub const HARD_DEPTH_CAP: usize = 160;

impl Flavour {
    pub const ALL: [Flavour; 3] = [Flavour::Basic, Flavour::Scrypto, Flavour::Manifest];
    pub fn prefix(self) -> u8 {
        match self {
            Flavour::Basic => 0x5b,
            Flavour::Scrypto => 0x5c,
            Flavour::Manifest => 0x4d,
        }
    }
    /// Default depth limit of the flavour (root value = depth 1).
    pub fn default_depth(self) -> usize {
        match self {
            Flavour::Basic => 64,
            Flavour::Scrypto => 64,
            Flavour::Manifest => 24,
        }
    }
    pub fn name(self) -> &'static str {
        match self {
            Flavour::Basic => "basic",
            Flavour::Scrypto => "scrypto",
            Flavour::Manifest => "manifest",
        }
    }
    pub fn custom_kinds(self) -> &'static [u8] {
        match self {
            Flavour::Basic => &[],
            Flavour::Scrypto => SCRYPTO_CUSTOM,
            Flavour::Manifest => MANIFEST_CUSTOM,
        }
    }
    pub fn is_kind(self, k: u8) -> bool {
        BASIC_KINDS.contains(&k) || self.custom_kinds().contains(&k)
    }
}

/// A value tree as read from / written to the wire.
#[derive(Clone, PartialEq, Eq, Debug)]
pub enum Node {
    Bool(bool),
    I8(i8),
    I16(i16),
    I32(i32),
    I64(i64),
    I128(i128),
    U8(u8),
    U16(u16),
    U32(u32),
    U64(u64),
    U128(u128),
    Str(String),
    Enum { disc: u8, fields: Vec<Node> },
    /// Array whose element kind is not U8 (or, only in generated *values* that the encoder must
    /// refuse, an array whose elements do not all have the announced kind).
    Array { ek: u8, elems: Vec<Node> },
    /// Array with element kind U8.
    Bytes(Vec<u8>),
    Tuple(Vec<Node>),
    Map { kk: u8, vk: u8, entries: Vec<(Node, Node)> },
    /// A custom value: its kind byte and the exact body bytes.
    Custom { kind: u8, body: Vec<u8> },
}

impl Node {
    pub fn kind(&self) -> u8 {
        match self {
            Node::Bool(_) => K_BOOL,
            Node::I8(_) => K_I8,
            Node::I16(_) => K_I16,
            Node::I32(_) => K_I32,
            Node::I64(_) => K_I64,
            Node::I128(_) => K_I128,
            Node::U8(_) => K_U8,
            Node::U16(_) => K_U16,
            Node::U32(_) => K_U32,
            Node::U64(_) => K_U64,
            Node::U128(_) => K_U128,
            Node::Str(_) => K_STRING,
            Node::Enum { .. } => K_ENUM,
            Node::Array { .. } | Node::Bytes(_) => K_ARRAY,
            Node::Tuple(_) => K_TUPLE,
            Node::Map { .. } => K_MAP,
            Node::Custom { kind, .. } => *kind,
        }
    }

    /// Nesting depth: a value without children has depth 1, a container with children has
    /// 1 + the maximal depth of a child (so `[1u8]` has depth 2 and `[]` depth 1).
    pub fn depth(&self) -> usize {
        match self {
            Node::Enum { fields, .. } | Node::Tuple(fields) => 1 + fields.iter().map(|f| f.depth()).max().unwrap_or(0),
            Node::Array { elems, .. } => 1 + elems.iter().map(|f| f.depth()).max().unwrap_or(0),
            Node::Bytes(b) => {
                if b.is_empty() {
                    1
                } else {
                    2
                }
            }
            Node::Map { entries, .. } => 1 + entries.iter().map(|(k, v)| k.depth().max(v.depth())).max().unwrap_or(0),
            _ => 1,
        }
    }

    pub fn count_nodes(&self) -> usize {
        match self {
            Node::Enum { fields, .. } | Node::Tuple(fields) => 1 + fields.iter().map(|f| f.count_nodes()).sum::<usize>(),
            Node::Array { elems, .. } => 1 + elems.iter().map(|f| f.count_nodes()).sum::<usize>(),
            Node::Bytes(b) => 1 + b.len(),
            Node::Map { entries, .. } => 1 + entries.iter().map(|(k, v)| k.count_nodes() + v.count_nodes()).sum::<usize>(),
            _ => 1,
        }
    }

    pub fn has_custom(&self) -> bool {
        match self {
            Node::Custom { .. } => true,
            Node::Enum { fields, .. } | Node::Tuple(fields) => fields.iter().any(|f| f.has_custom()),
            Node::Array { ek, elems } => *ek >= 0x80 || elems.iter().any(|f| f.has_custom()),
            Node::Map { kk, vk, entries } => *kk >= 0x80 || *vk >= 0x80 || entries.iter().any(|(k, v)| k.has_custom() || v.has_custom()),
            _ => false,
        }
    }

    /// True if some collection / string size in the tree needs more than one LEB128 byte.
    pub fn has_multibyte_size(&self) -> bool {
        match self {
            Node::Str(s) => s.len() > 127,
            Node::Bytes(b) => b.len() > 127,
            Node::Enum { fields, .. } | Node::Tuple(fields) => fields.len() > 127 || fields.iter().any(|f| f.has_multibyte_size()),
            Node::Array { elems, .. } => elems.len() > 127 || elems.iter().any(|f| f.has_multibyte_size()),
            Node::Map { entries, .. } => entries.len() > 127 || entries.iter().any(|(k, v)| k.has_multibyte_size() || v.has_multibyte_size()),
            _ => false,
        }
    }

    /// True if every array element / map key / map value has the kind announced by its container
    /// (a precondition of printing: otherwise the tree has no encoding).
    pub fn kinds_consistent(&self) -> bool {
        match self {
            Node::Enum { fields, .. } | Node::Tuple(fields) => fields.iter().all(|f| f.kinds_consistent()),
            Node::Array { ek, elems } => elems.iter().all(|e| e.kind() == *ek && e.kinds_consistent()),
            Node::Map { kk, vk, entries } => entries
                .iter()
                .all(|(k, v)| k.kind() == *kk && v.kind() == *vk && k.kinds_consistent() && v.kinds_consistent()),
            _ => true,
        }
    }

    /// Short human-readable rendering (truncated) for samples and failure messages.
    pub fn render(&self) -> String {
        let mut s = String::new();
        self.render_into(&mut s, 0);
        s
    }

    fn render_into(&self, s: &mut String, lvl: usize) {
        use std::fmt::Write;
        if s.len() > 600 {
            s.push('…');
            return;
        }
        match self {
            Node::Bool(v) => {
                let _ = write!(s, "{}", v);
            }
            Node::I8(v) => {
                let _ = write!(s, "{}i8", v);
            }
            Node::I16(v) => {
                let _ = write!(s, "{}i16", v);
            }
            Node::I32(v) => {
                let _ = write!(s, "{}i32", v);
            }
            Node::I64(v) => {
                let _ = write!(s, "{}i64", v);
            }
            Node::I128(v) => {
                let _ = write!(s, "{}i128", v);
            }
            Node::U8(v) => {
                let _ = write!(s, "{}u8", v);
            }
            Node::U16(v) => {
                let _ = write!(s, "{}u16", v);
            }
            Node::U32(v) => {
                let _ = write!(s, "{}u32", v);
            }
            Node::U64(v) => {
                let _ = write!(s, "{}u64", v);
            }
            Node::U128(v) => {
                let _ = write!(s, "{}u128", v);
            }
            Node::Str(v) => {
                if v.len() > 24 {
                    let _ = write!(s, "str[{}B]", v.len());
                } else {
                    let _ = write!(s, "{:?}", v);
                }
            }
            Node::Bytes(b) => {
                if b.len() > 12 {
                    let _ = write!(s, "bytes[{}]", b.len());
                } else {
                    let _ = write!(s, "bytes({})", hexs(b));
                }
            }
            Node::Custom { kind, body } => {
                if body.len() > 12 {
                    let _ = write!(s, "custom#{:02x}[{}B:{}…]", kind, body.len(), hexs(&body[..6]));
                } else {
                    let _ = write!(s, "custom#{:02x}({})", kind, hexs(body));
                }
            }
            Node::Tuple(f) => {
                s.push('(');
                render_list(s, f, lvl);
                s.push(')');
            }
            Node::Enum { disc, fields } => {
                let _ = write!(s, "enum#{}(", disc);
                render_list(s, fields, lvl);
                s.push(')');
            }
            Node::Array { ek, elems } => {
                let _ = write!(s, "[{:02x}; ", ek);
                render_list(s, elems, lvl);
                s.push(']');
            }
            Node::Map { kk, vk, entries } => {
                let _ = write!(s, "{{{:02x}=>{:02x}; ", kk, vk);
                for (i, (k, v)) in entries.iter().enumerate() {
                    if i >= 6 || s.len() > 600 {
                        let _ = write!(s, "…+{}", entries.len() - i);
                        break;
                    }
                    if i > 0 {
                        s.push_str(", ");
                    }
                    k.render_into(s, lvl + 1);
                    s.push_str("=>");
                    v.render_into(s, lvl + 1);
                }
                s.push('}');
            }
        }
    }
}

fn render_list(s: &mut String, items: &[Node], lvl: usize) {
    use std::fmt::Write;
    for (i, it) in items.iter().enumerate() {
        if i >= 6 || s.len() > 600 {
            let _ = write!(s, "…+{}", items.len() - i);
            break;
        }
        if i > 0 {
            s.push_str(", ");
        }
        it.render_into(s, lvl + 1);
    }
}

pub fn hexs(b: &[u8]) -> String {
    let mut s = String::with_capacity(b.len() * 2);
    for x in b {
        s.push_str(&format!("{:02x}", x));
    }
    s
}

#[derive(Clone, Copy, PartialEq, Eq, Debug)]
pub enum WireError {
    Empty,
    Prefix(u8),
    Eof,
    UnknownKind(u8),
    BadSize,
    BadBool(u8),
    Utf8,
    BadCustom(&'static str),
    Trailing(usize),
    TooDeep,
}

pub struct Parsed {
    pub tree: Node,
    /// Maximal nesting depth met (root value = 1).
    pub depth: usize,
}

struct Reader<'a> {
    fl: Flavour,
    b: &'a [u8],
    p: usize,
    max_depth: usize,
}

impl<'a> Reader<'a> {
    fn rem(&self) -> usize {
        self.b.len() - self.p
    }
    fn byte(&mut self) -> Result<u8, WireError> {
        if self.p >= self.b.len() {
            return Err(WireError::Eof);
        }
        let x = self.b[self.p];
        self.p += 1;
        Ok(x)
    }
    fn take(&mut self, n: usize) -> Result<&'a [u8], WireError> {
        if self.rem() < n {
            return Err(WireError::Eof);
        }
        let s = &self.b[self.p..self.p + n];
        self.p += n;
        Ok(s)
    }
    fn kind(&mut self) -> Result<u8, WireError> {
        let k = self.byte()?;
        if self.fl.is_kind(k) {
            Ok(k)
        } else {
            Err(WireError::UnknownKind(k))
        }
    }
    /// LEB128, at most 4 bytes (28 bits), minimal: the last byte of a multi-byte size is not zero.
    fn size(&mut self) -> Result<usize, WireError> {
        let mut v: usize = 0;
        for i in 0..4 {
            let x = self.byte()?;
            v |= ((x & 0x7f) as usize) << (7 * i);
            if x & 0x80 == 0 {
                if i > 0 && x == 0 {
                    return Err(WireError::BadSize);
                }
                return Ok(v);
            }
        }
        Err(WireError::BadSize)
    }

    fn nf_local_id(&mut self) -> Result<(), WireError> {
        match self.byte()? {
            0 => {
                let n = self.size()?;
                let s = self.take(n)?;
                if n == 0 || n > NF_ID_MAX_LEN {
                    return Err(WireError::BadCustom("string id length not in 1..=64"));
                }
                if !s.iter().all(|c| c.is_ascii_alphanumeric() || *c == b'_') {
                    return Err(WireError::BadCustom("string id character not in [_0-9a-zA-Z]"));
                }
                Ok(())
            }
            1 => self.take(8).map(|_| ()),
            2 => {
                let n = self.size()?;
                self.take(n)?;
                if n == 0 || n > NF_ID_MAX_LEN {
                    return Err(WireError::BadCustom("bytes id length not in 1..=64"));
                }
                Ok(())
            }
            3 => self.take(32).map(|_| ()),
            _ => Err(WireError::BadCustom("unknown non-fungible id discriminator")),
        }
    }

    fn custom(&mut self, kind: u8) -> Result<Node, WireError> {
        let start = self.p;
        match self.fl {
            Flavour::Basic => return Err(WireError::UnknownKind(kind)),
            Flavour::Scrypto => match kind {
                SK_REFERENCE | SK_OWN => {
                    self.take(30)?;
                }
                SK_DECIMAL => {
                    self.take(24)?;
                }
                SK_PRECISE_DECIMAL => {
                    self.take(32)?;
                }
                SK_NF_LOCAL_ID => self.nf_local_id()?,
                _ => return Err(WireError::UnknownKind(kind)),
            },
            Flavour::Manifest => match kind {
                MK_ADDRESS => match self.byte()? {
                    0 => {
                        let id = self.take(30)?;
                        if !ENTITY_TYPES.contains(&id[0]) {
                            return Err(WireError::BadCustom("static address with unknown entity type"));
                        }
                    }
                    1 => {
                        self.take(4)?;
                    }
                    _ => return Err(WireError::BadCustom("unknown address discriminator")),
                },
                MK_BUCKET | MK_PROOF | MK_ADDRESS_RESERVATION => {
                    self.take(4)?;
                }
                MK_EXPRESSION => {
                    let x = self.byte()?;
                    if x > 1 {
                        return Err(WireError::BadCustom("unknown expression"));
                    }
                }
                MK_BLOB => {
                    self.take(32)?;
                }
                MK_DECIMAL => {
                    self.take(24)?;
                }
                MK_PRECISE_DECIMAL => {
                    self.take(32)?;
                }
                MK_NF_LOCAL_ID => self.nf_local_id()?,
                _ => return Err(WireError::UnknownKind(kind)),
            },
        }
        Ok(Node::Custom { kind, body: self.b[start..self.p].to_vec() })
    }

    fn body(&mut self, kind: u8, depth: usize) -> Result<Node, WireError> {
        if depth > HARD_DEPTH_CAP {
            return Err(WireError::TooDeep);
        }
        if depth > self.max_depth {
            self.max_depth = depth;
        }
        Ok(match kind {
            K_BOOL => match self.byte()? {
                0 => Node::Bool(false),
                1 => Node::Bool(true),
                x => return Err(WireError::BadBool(x)),
            },
            K_I8 => Node::I8(self.byte()? as i8),
            K_U8 => Node::U8(self.byte()?),
            K_I16 => Node::I16(i16::from_le_bytes(self.take(2)?.try_into().unwrap())),
            K_I32 => Node::I32(i32::from_le_bytes(self.take(4)?.try_into().unwrap())),
            K_I64 => Node::I64(i64::from_le_bytes(self.take(8)?.try_into().unwrap())),
            K_I128 => Node::I128(i128::from_le_bytes(self.take(16)?.try_into().unwrap())),
            K_U16 => Node::U16(u16::from_le_bytes(self.take(2)?.try_into().unwrap())),
            K_U32 => Node::U32(u32::from_le_bytes(self.take(4)?.try_into().unwrap())),
            K_U64 => Node::U64(u64::from_le_bytes(self.take(8)?.try_into().unwrap())),
            K_U128 => Node::U128(u128::from_le_bytes(self.take(16)?.try_into().unwrap())),
            K_STRING => {
                let n = self.size()?;
                let s = self.take(n)?;
                match std::str::from_utf8(s) {
                    Ok(t) => Node::Str(t.to_string()),
                    Err(_) => return Err(WireError::Utf8),
                }
            }
            K_TUPLE => {
                let n = self.size()?;
                Node::Tuple(self.fields(n, depth)?)
            }
            K_ENUM => {
                let disc = self.byte()?;
                let n = self.size()?;
                Node::Enum { disc, fields: self.fields(n, depth)? }
            }
            K_ARRAY => {
                let ek = self.kind()?;
                let n = self.size()?;
                if ek == K_U8 {
                    let s = self.take(n)?;
                    if n > 0 {
                        if depth + 1 > HARD_DEPTH_CAP {
                            return Err(WireError::TooDeep);
                        }
                        self.max_depth = self.max_depth.max(depth + 1);
                    }
                    Node::Bytes(s.to_vec())
                } else {
                    // every element body takes at least one byte
                    if n > self.rem() {
                        return Err(WireError::Eof);
                    }
                    let mut elems = Vec::with_capacity(n.min(4096));
                    for _ in 0..n {
                        elems.push(self.body(ek, depth + 1)?);
                    }
                    Node::Array { ek, elems }
                }
            }
            K_MAP => {
                let kk = self.kind()?;
                let vk = self.kind()?;
                let n = self.size()?;
                if n.saturating_mul(2) > self.rem() {
                    return Err(WireError::Eof);
                }
                let mut entries = Vec::with_capacity(n.min(4096));
                for _ in 0..n {
                    let k = self.body(kk, depth + 1)?;
                    let v = self.body(vk, depth + 1)?;
                    entries.push((k, v));
                }
                Node::Map { kk, vk, entries }
            }
            k => self.custom(k)?,
        })
    }

    fn fields(&mut self, n: usize, depth: usize) -> Result<Vec<Node>, WireError> {
        // every field takes a kind byte and at least one body byte
        if n.saturating_mul(2) > self.rem() {
            return Err(WireError::Eof);
        }
        let mut out = Vec::with_capacity(n.min(4096));
        for _ in 0..n {
            let k = self.kind()?;
            out.push(self.body(k, depth + 1)?);
        }
        Ok(out)
    }
}

/// Recognise a full payload (prefix byte, one value, nothing after it).
pub fn parse_payload(fl: Flavour, bytes: &[u8]) -> Result<Parsed, WireError> {
    if bytes.is_empty() {
        return Err(WireError::Empty);
    }
    if bytes[0] != fl.prefix() {
        return Err(WireError::Prefix(bytes[0]));
    }
    let mut r = Reader { fl, b: bytes, p: 1, max_depth: 0 };
    let k = r.kind()?;
    let tree = r.body(k, 1)?;
    if r.rem() != 0 {
        return Err(WireError::Trailing(r.rem()));
    }
    Ok(Parsed { tree, depth: r.max_depth })
}

// ------------------------------------------------------------------------------------------------
// printer

/// A place in a printed payload that a mutator may want to damage.
#[derive(Clone, Copy, Debug, PartialEq, Eq)]
pub enum SiteKind {
    Prefix,
    /// kind byte of a value, or element/key/value kind of a container header
    Kind,
    /// a LEB128 size (of `value`), `len` bytes long
    Size(usize),
    Bool,
    StrBody,
    /// non-fungible local id: discriminator byte
    NfDisc,
    /// non-fungible local id string / bytes: the one-byte length (value) at `off`, body follows
    NfLen(usize),
    /// first body byte of a non-fungible string id
    NfStr,
    AddrDisc,
    AddrEntity,
    Expr,
    EnumDisc,
}

#[derive(Clone, Copy, Debug)]
pub struct Site {
    pub off: usize,
    pub len: usize,
    pub what: SiteKind,
}

pub fn write_size(out: &mut Vec<u8>, mut n: usize) {
    assert!(n <= MAX_SIZE);
    loop {
        let low = (n & 0x7f) as u8;
        n >>= 7;
        if n == 0 {
            out.push(low);
            return;
        }
        out.push(low | 0x80);
    }
}

struct Printer<'a> {
    fl: Flavour,
    out: Vec<u8>,
    sites: Option<&'a mut Vec<Site>>,
}

impl<'a> Printer<'a> {
    fn site(&mut self, off: usize, len: usize, what: SiteKind) {
        if let Some(s) = self.sites.as_mut() {
            s.push(Site { off, len, what });
        }
    }
    fn kind_byte(&mut self, k: u8) {
        let off = self.out.len();
        self.out.push(k);
        self.site(off, 1, SiteKind::Kind);
    }
    fn size(&mut self, n: usize) {
        let off = self.out.len();
        write_size(&mut self.out, n);
        let len = self.out.len() - off;
        self.site(off, len, SiteKind::Size(n));
    }
    fn custom_sites(&mut self, kind: u8, body_off: usize, body: &[u8]) {
        let nf = match self.fl {
            Flavour::Scrypto => kind == SK_NF_LOCAL_ID,
            Flavour::Manifest => kind == MK_NF_LOCAL_ID,
            Flavour::Basic => false,
        };
        if nf && !body.is_empty() {
            self.site(body_off, 1, SiteKind::NfDisc);
            if (body[0] == 0 || body[0] == 2) && body.len() >= 2 {
                self.site(body_off + 1, 1, SiteKind::NfLen(body[1] as usize));
                if body[0] == 0 && body.len() >= 3 {
                    self.site(body_off + 2, body.len() - 2, SiteKind::NfStr);
                }
            }
        }
        if self.fl == Flavour::Manifest {
            if kind == MK_ADDRESS && !body.is_empty() {
                self.site(body_off, 1, SiteKind::AddrDisc);
                if body[0] == 0 && body.len() >= 2 {
                    self.site(body_off + 1, 1, SiteKind::AddrEntity);
                }
            }
            if kind == MK_EXPRESSION && !body.is_empty() {
                self.site(body_off, 1, SiteKind::Expr);
            }
        }
    }
    fn body(&mut self, n: &Node) {
        match n {
            Node::Bool(v) => {
                let off = self.out.len();
                self.out.push(*v as u8);
                self.site(off, 1, SiteKind::Bool);
            }
            Node::I8(v) => self.out.push(*v as u8),
            Node::U8(v) => self.out.push(*v),
            Node::I16(v) => self.out.extend_from_slice(&v.to_le_bytes()),
            Node::I32(v) => self.out.extend_from_slice(&v.to_le_bytes()),
            Node::I64(v) => self.out.extend_from_slice(&v.to_le_bytes()),
            Node::I128(v) => self.out.extend_from_slice(&v.to_le_bytes()),
            Node::U16(v) => self.out.extend_from_slice(&v.to_le_bytes()),
            Node::U32(v) => self.out.extend_from_slice(&v.to_le_bytes()),
            Node::U64(v) => self.out.extend_from_slice(&v.to_le_bytes()),
            Node::U128(v) => self.out.extend_from_slice(&v.to_le_bytes()),
            Node::Str(s) => {
                self.size(s.len());
                let off = self.out.len();
                self.out.extend_from_slice(s.as_bytes());
                if !s.is_empty() {
                    self.site(off, s.len(), SiteKind::StrBody);
                }
            }
            Node::Tuple(fields) => {
                self.size(fields.len());
                for f in fields {
                    self.kind_byte(f.kind());
                    self.body(f);
                }
            }
            Node::Enum { disc, fields } => {
                let off = self.out.len();
                self.out.push(*disc);
                self.site(off, 1, SiteKind::EnumDisc);
                self.size(fields.len());
                for f in fields {
                    self.kind_byte(f.kind());
                    self.body(f);
                }
            }
            Node::Array { ek, elems } => {
                self.kind_byte(*ek);
                self.size(elems.len());
                for e in elems {
                    self.body(e);
                }
            }
            Node::Bytes(b) => {
                self.kind_byte(K_U8);
                self.size(b.len());
                self.out.extend_from_slice(b);
            }
            Node::Map { kk, vk, entries } => {
                self.kind_byte(*kk);
                self.kind_byte(*vk);
                self.size(entries.len());
                for (k, v) in entries {
                    self.body(k);
                    self.body(v);
                }
            }
            Node::Custom { kind, body } => {
                let off = self.out.len();
                self.out.extend_from_slice(body);
                self.custom_sites(*kind, off, body);
            }
        }
    }
}

/// Canonical encoding of a tree as a payload of the flavour. The tree must be kind-consistent.
pub fn print_payload(fl: Flavour, n: &Node) -> Vec<u8> {
    let mut p = Printer { fl, out: Vec::with_capacity(64), sites: None };
    p.out.push(fl.prefix());
    p.kind_byte(n.kind());
    p.body(n);
    p.out
}

/// As `print_payload`, also returning the places a targeted mutator can damage.
pub fn print_payload_sites(fl: Flavour, n: &Node) -> (Vec<u8>, Vec<Site>) {
    let mut sites = vec![Site { off: 0, len: 1, what: SiteKind::Prefix }];
    let out = {
        let mut p = Printer { fl, out: Vec::with_capacity(64), sites: Some(&mut sites) };
        p.out.push(fl.prefix());
        p.kind_byte(n.kind());
        p.body(n);
        p.out
    };
    (out, sites)
}

/// Body of a non-fungible local id: string form.
pub fn nf_string_body(s: &[u8]) -> Vec<u8> {
    let mut b = vec![0u8];
    write_size(&mut b, s.len());
    b.extend_from_slice(s);
    b
}
pub fn nf_integer_body(v: u64) -> Vec<u8> {
    let mut b = vec![1u8];
    b.extend_from_slice(&v.to_be_bytes());
    b
}
pub fn nf_bytes_body(s: &[u8]) -> Vec<u8> {
    let mut b = vec![2u8];
    write_size(&mut b, s.len());
    b.extend_from_slice(s);
    b
}
pub fn nf_ruid_body(v: &[u8; 32]) -> Vec<u8> {
    let mut b = vec![3u8];
    b.extend_from_slice(v);
    b
}

#[cfg(test)]
mod tests {
    use super::*;

    #[test]
    fn roundtrip_simple() {
        let t = Node::Tuple(vec![
            Node::U8(1),
            Node::Str("hé".into()),
            Node::Bytes(vec![1, 2, 3]),
            Node::Map { kk: K_U8, vk: K_TUPLE, entries: vec![(Node::U8(1), Node::Tuple(vec![]))] },
        ]);
        for fl in Flavour::ALL {
            let b = print_payload(fl, &t);
            let p = parse_payload(fl, &b).unwrap();
            assert_eq!(p.tree, t);
            assert_eq!(p.depth, 3);
            assert_eq!(t.depth(), 3);
        }
    }

    #[test]
    fn sizes() {
        for n in [0usize, 1, 127, 128, 16383, 16384, 2097151, 2097152, MAX_SIZE] {
            let mut v = Vec::new();
            write_size(&mut v, n);
            let mut r = Reader { fl: Flavour::Basic, b: &v, p: 0, max_depth: 0 };
            assert_eq!(r.size().unwrap(), n);
            assert_eq!(r.rem(), 0);
        }
        let mut r = Reader { fl: Flavour::Basic, b: &[0x80, 0x00], p: 0, max_depth: 0 };
        assert_eq!(r.size(), Err(WireError::BadSize));
        let mut r = Reader { fl: Flavour::Basic, b: &[0xff, 0xff, 0xff, 0x80, 0x01], p: 0, max_depth: 0 };
        assert_eq!(r.size(), Err(WireError::BadSize));
    }
}
