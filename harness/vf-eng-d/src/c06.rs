//! C06 part (b): fees at engine level. A manifest with 1-3 fee locks (contingent and not) on account
//! vaults, royalty-charging calls, storage writes, an optional failing tail; a tip in either unit, optional
//! free credit, protocol or generated costing parameters. Run once with an ample first lock; then re-run
//! from the same state with the non-contingent locks + free credit adding up to `total_cost - d`.
//! Every commit is judged from raw vault substates (before / after scan) and the fee events.

use crate::util::*;
use num_bigint::BigInt;
use radix_engine::system::system_modules::costing::RoyaltyRecipient;
use radix_engine::transaction::CostingParameters;
use radix_engine::blueprints::resource::fungible_vault::PayFeeEvent;
use radix_engine::system::system_db_reader::SystemDatabaseReader;
use radix_substate_store_queries::typed_substate_layout::*;
use scrypto_test::prelude::*;
use std::collections::BTreeMap;
use vf_core::{Check, Gen, Outcome, Part};
use vf_world::*;

const CODE_ROYALTY_PKG: u64 = PUPPET_CODE_MIN + 0x50;

pub const SIG_KNOWN_PANIC: &str = "host panic: locked fee does not cover transaction cost [non-protocol prices]";

struct Ext {
    /// puppet package with package royalties: run = 0.7 XRD, act = 1 USD
    rp: PackageAddress,
    /// component of P with component royalties: act = 1.5 XRD, peek = 2 USD
    rc: ComponentAddress,
    /// component of `rp` with component royalty act = 0.25 XRD (plus the package's 1 USD)
    rc2: ComponentAddress,
    /// plain component of P (storage writes)
    g: ComponentAddress,
    rp_vault: NodeId,
    rc_vault: NodeId,
    rc2_vault: NodeId,
    rewards_vault: NodeId,
    account_vaults: Vec<NodeId>,
}

fn royalty_vault_of_package(w: &World, p: PackageAddress) -> NodeId {
    let reader = SystemDatabaseReader::new(w.db());
    let acc = reader
        .read_typed_object_field::<PackageRoyaltyAccumulatorFieldPayload>(p.as_node_id(), ModuleId::Main, PackageField::RoyaltyAccumulator.field_index())
        .expect("package royalty accumulator")
        .fully_update_and_into_latest_version();
    *acc.royalty_vault.0.as_node_id()
}

fn royalty_vault_of_component(w: &World, c: ComponentAddress) -> NodeId {
    let reader = SystemDatabaseReader::new(w.db());
    let acc = reader
        .read_typed_object_field::<ComponentRoyaltyAccumulatorFieldPayload>(c.as_node_id(), ModuleId::Royalty, ComponentRoyaltyField::Accumulator.field_index())
        .expect("component royalty accumulator")
        .fully_update_and_into_latest_version();
    *acc.royalty_vault.0.as_node_id()
}

fn rewards_state(w: &World) -> (NodeId, Decimal, bool) {
    let reader = SystemDatabaseReader::new(w.db());
    let r = reader
        .read_typed_object_field::<ConsensusManagerValidatorRewardsFieldPayload>(CONSENSUS_MANAGER.as_node_id(), ModuleId::Main, ConsensusManagerField::ValidatorRewards.field_index())
        .expect("validator rewards")
        .fully_update_and_into_latest_version();
    let mut sum = Decimal::ZERO;
    for (_, v) in &r.proposer_rewards {
        sum = sum.checked_add(*v).unwrap();
    }
    let s = reader
        .read_typed_object_field::<ConsensusManagerStateFieldPayload>(CONSENSUS_MANAGER.as_node_id(), ModuleId::Main, ConsensusManagerField::State.field_index())
        .expect("consensus manager state")
        .fully_update_and_into_latest_version();
    (*r.rewards_vault.0.as_node_id(), sum, s.current_leader.is_some())
}

fn build(w: &mut World) {
    let mut def = puppet_definition(PuppetAuth::default());
    let mut cfg = index_map_new();
    cfg.insert(PUPPET_RUN.to_string(), RoyaltyAmount::Xrd(dec!("0.7")));
    cfg.insert(PUPPET_RECURSE.to_string(), RoyaltyAmount::Free);
    cfg.insert(PUPPET_ACT.to_string(), RoyaltyAmount::Usd(dec!(1)));
    cfg.insert(PUPPET_PEEK.to_string(), RoyaltyAmount::Free);
    def.blueprints.get_mut(PUPPET_BLUEPRINT).unwrap().royalty_config = PackageRoyaltyConfig::Enabled(cfg);
    let rp = w.sim.publish_native_package(CODE_ROYALTY_PKG, def);
    let p = w.puppet_p;
    let open = OwnerSpec::Fixed(rule!(allow_all));
    let rc = new_puppet_component(w, p, open.clone(), true);
    let rc2 = new_puppet_component(w, rp, open.clone(), true);
    let g = new_puppet_component(w, p, OwnerSpec::None, false);
    let m = ManifestBuilder::new()
        .lock_fee_from_faucet()
        .set_component_royalty(rc, PUPPET_ACT, RoyaltyAmount::Xrd(dec!("1.5")))
        .set_component_royalty(rc, PUPPET_PEEK, RoyaltyAmount::Usd(dec!(2)))
        .set_component_royalty(rc2, PUPPET_ACT, RoyaltyAmount::Xrd(dec!("0.25")))
        .build();
    let run = w.run(m, vec![]);
    assert!(run.is_success(), "harness: setting component royalties failed: {}", run.outcome_string());
    let account_vaults: Vec<NodeId> = w.accounts.iter().map(|a| w.sim.get_component_vaults(a.address, XRD)[0]).collect();
    let ext = Ext {
        rp,
        rc,
        rc2,
        g,
        rp_vault: royalty_vault_of_package(w, rp),
        rc_vault: royalty_vault_of_component(w, rc),
        rc2_vault: royalty_vault_of_component(w, rc2),
        rewards_vault: rewards_state(w).0,
        account_vaults,
    };
    w.set_ext(ext);
}

#[derive(Clone, Debug)]
enum BodyOp {
    /// function of the royalty package: 0.7 XRD to the package
    RpRun,
    /// 1.5 XRD to component rc
    RcAct,
    /// 2 USD to component rc
    RcPeek,
    /// 1 USD to the package + 0.25 XRD to component rc2
    Rc2Act,
    /// storage: write `n` bytes under key `k` of the plain component
    Write(u32, usize),
    /// events and logs
    Noise(u32),
    /// a further lock (index into `locks`)
    Lock(usize),
}

#[derive(Clone, Debug)]
struct Lock {
    account: usize,
    contingent: bool,
    amount: Decimal,
}

#[derive(Clone, Debug)]
struct Plan {
    locks: Vec<Lock>,
    body: Vec<BodyOp>,
    fails: bool,
    tip: TipSpecifier,
    free_credit: Decimal,
    params: CostingParameters,
    protocol_prices: bool,
}

fn attos(d: Decimal) -> BigInt {
    BigInt::parse_bytes(d.attos().to_string().as_bytes(), 10).unwrap()
}

fn manifest(w: &World, plan: &Plan) -> TransactionManifestV1 {
    let e = w.ext::<Ext>();
    let lock = |b: ManifestBuilder, l: &Lock| {
        let a = w.accounts[l.account].address;
        if l.contingent {
            b.lock_contingent_fee(a, l.amount)
        } else {
            b.lock_fee(a, l.amount)
        }
    };
    let empty = Script(vec![]);
    let mut b = lock(ManifestBuilder::new(), &plan.locks[0]);
    for op in &plan.body {
        b = match op {
            BodyOp::RpRun => b.call_function(e.rp, PUPPET_BLUEPRINT, PUPPET_RUN, (empty.clone_as_manifest_value(),)),
            BodyOp::RcAct => b.call_method(e.rc, PUPPET_ACT, (empty.clone_as_manifest_value(),)),
            BodyOp::RcPeek => b.call_method(e.rc, PUPPET_PEEK, (empty.clone_as_manifest_value(),)),
            BodyOp::Rc2Act => b.call_method(e.rc2, PUPPET_ACT, (empty.clone_as_manifest_value(),)),
            BodyOp::Write(k, n) => b.call_method(
                e.g,
                PUPPET_ACT,
                (Script(vec![
                    Op::ActorOpenKv { state: 0, collection: PUPPET_COLL_KV, key: scrypto_encode(k).unwrap(), flags: 1 },
                    Op::KvSet(0, sized_payload(*n).unwrap()),
                    Op::KvClose(0),
                ])
                .clone_as_manifest_value(),),
            ),
            BodyOp::Noise(n) => b.call_function(
                w.puppet_p,
                PUPPET_BLUEPRINT,
                PUPPET_RUN,
                (Script(vec![Op::Repeat {
                    times: *n,
                    ops: vec![
                        Op::ActorEmitEvent { name: "E0".into(), data: puppet_event_data(vec![9; 20]), force_write: false },
                        Op::Log { level: 2, message: "noise".into() },
                    ],
                }])
                .clone_as_manifest_value(),),
            ),
            BodyOp::Lock(i) => lock(b, &plan.locks[*i]),
        };
    }
    if plan.fails {
        b = b.call_function(w.puppet_p, PUPPET_BLUEPRINT, PUPPET_RUN, (Script(vec![Op::Panic("deliberate".into())]).clone_as_manifest_value(),));
    }
    b.build()
}

fn execute(w: &mut World, plan: &Plan) -> Run {
    w.reset();
    let m = manifest(w, plan);
    let mut signers: Vec<NonFungibleGlobalId> = Vec::new();
    for l in &plan.locks {
        let b = w.accounts[l.account].badge();
        if !signers.contains(&b) {
            signers.push(b);
        }
    }
    let nonce = w.sim.next_transaction_nonce();
    let prepared = TestTransaction::new_v1_from_nonce(m, nonce, signers.into_iter().collect())
        .prepare(w.sim.transaction_validator().preparation_settings())
        .expect("harness: test transaction does not prepare");
    let PreparedTestTransaction::V1(intent) = prepared else { unreachable!() };
    let payload_size = intent.encoded_instructions.len() + intent.blobs.values().map(|x| x.len()).sum::<usize>();
    let n_sig = intent.initial_proofs.len() + 1;
    let exe = ExecutableTransaction::new_v1(
        intent.encoded_instructions,
        AuthZoneInit::proofs(intent.initial_proofs),
        intent.references,
        intent.blobs,
        ExecutionContext {
            unique_hash: intent.hash,
            intent_hash_nullifications: vec![],
            epoch_range: None,
            payload_size,
            num_of_signature_validations: n_sig,
            costing_parameters: TransactionCostingParameters { tip: plan.tip, free_credit_in_xrd: plan.free_credit },
            pre_allocated_addresses: vec![],
            disable_limits_and_costing_modules: false,
            proposer_timestamp_range: None,
        },
    );
    let params = plan.params.clone();
    let cfg = config_with(|o| o.costing_parameters = Some(params));
    let sim = &mut w.sim;
    match vf_core::catch(move || sim.execute_transaction(exe, cfg)) {
        Ok(r) => Run { receipt: Some(r), panic: None },
        Err(p) => Run { receipt: None, panic: Some(p) },
    }
}

/// Judge a committed receipt against the raw vault substates before / after.
fn judge_commit(w: &World, plan: &Plan, before: &Totals, before_rewards: Decimal, run: &Run) -> Result<(), (String, String)> {
    let e = w.ext::<Ext>();
    let receipt = run.receipt();
    let c = run.commit().unwrap();
    let success = run.is_success();
    let fs = &receipt.fee_summary;
    let sig = |s: &str| format!("engine fees [{}]: {}", if plan.protocol_prices { "protocol prices" } else { "non-protocol prices" }, s);
    let fail = |s: &str, m: String| Err((sig(s), m));
    let total = fs
        .total_execution_cost_in_xrd
        .checked_add(fs.total_finalization_cost_in_xrd)
        .and_then(|x| x.checked_add(fs.total_tipping_cost_in_xrd))
        .and_then(|x| x.checked_add(fs.total_storage_cost_in_xrd))
        .and_then(|x| x.checked_add(fs.total_royalty_cost_in_xrd))
        .unwrap();

    // ---- payments: PayFee events, per vault ----
    let mut paid: BTreeMap<NodeId, Decimal> = BTreeMap::new();
    let mut paid_sum = Decimal::ZERO;
    for (id, data) in &c.application_events {
        if id.1 == PayFeeEvent::EVENT_NAME {
            let Emitter::Method(node, _) = &id.0 else { continue };
            let ev: PayFeeEvent = scrypto_decode(data).map_err(|e| (sig("PayFee event does not decode"), format!("{:?}", e)))?;
            if ev.amount.is_negative() {
                return fail("negative PayFee amount", format!("{:?}", ev));
            }
            let x = paid.entry(*node).or_insert(Decimal::ZERO);
            *x = x.checked_add(ev.amount).unwrap();
            paid_sum = paid_sum.checked_add(ev.amount).unwrap();
        }
    }
    let credit_used = total.checked_sub(paid_sum).unwrap();
    if credit_used.is_negative() || credit_used > plan.free_credit {
        return fail(
            "sum of PayFee amounts + free credit does not equal total_cost()",
            format!("total cost {} (exec {} fin {} tip {} storage {} royalty {}), PayFee sum {}, free credit available {}", total, fs.total_execution_cost_in_xrd, fs.total_finalization_cost_in_xrd, fs.total_tipping_cost_in_xrd, fs.total_storage_cost_in_xrd, fs.total_royalty_cost_in_xrd, paid_sum, plan.free_credit),
        );
    }
    // per vault: never more than what its usable locks hold; contingent locks are not drawn on failure
    let mut usable: BTreeMap<NodeId, Decimal> = BTreeMap::new();
    let mut usable_sum = Decimal::ZERO;
    let reached: Vec<usize> = {
        // locks the execution reached: lock 0 and every BodyOp::Lock (all of them: a failing tail comes last)
        let mut v = vec![0usize];
        v.extend(plan.body.iter().filter_map(|o| if let BodyOp::Lock(i) = o { Some(*i) } else { None }));
        v
    };
    for i in &reached {
        let l = &plan.locks[*i];
        if l.contingent && !success {
            continue;
        }
        let x = usable.entry(e.account_vaults[l.account]).or_insert(Decimal::ZERO);
        *x = x.checked_add(l.amount).unwrap();
        usable_sum = usable_sum.checked_add(l.amount).unwrap();
    }
    for (v, amount) in &paid {
        let cap = usable.get(v).copied().unwrap_or(Decimal::ZERO);
        if *amount > cap {
            return fail(
                if success { "a vault pays more than it locked" } else { "a vault pays more than its non-contingent locks on a failed transaction" },
                format!("vault {:?} paid {} but its usable locks hold {} (success = {}; locks {:?})", v, amount, cap, success, plan.locks),
            );
        }
    }
    let stopped_early = run.failure().map(is_costing_failure).unwrap_or(false);
    if credit_used.is_positive() && paid_sum < usable_sum && !stopped_early {
        return fail("free credit used although locked fees were left", format!("credit used {}, paid {}, usable locks {}", credit_used, paid_sum, usable_sum));
    }
    if c.fee_source.paying_vaults.iter().map(|(k, v)| (*k, *v)).filter(|(_, v)| !v.is_zero()).collect::<BTreeMap<_, _>>() != paid.iter().map(|(k, v)| (*k, *v)).filter(|(_, v)| !v.is_zero()).collect::<BTreeMap<_, _>>() {
        return fail("receipt fee_source disagrees with the PayFee events", format!("fee_source {:?} events {:?}", c.fee_source.paying_vaults, paid));
    }

    // ---- royalties: predicted from the calls made ----
    let usd = plan.params.usd_price;
    let mut want_royalty: BTreeMap<NodeId, Decimal> = BTreeMap::new();
    if success {
        let mut add = |v: NodeId, d: Decimal| {
            let x = want_royalty.entry(v).or_insert(Decimal::ZERO);
            *x = x.checked_add(d).unwrap();
        };
        for op in &plan.body {
            match op {
                BodyOp::RpRun => add(e.rp_vault, dec!("0.7")),
                BodyOp::RcAct => add(e.rc_vault, dec!("1.5")),
                BodyOp::RcPeek => add(e.rc_vault, dec!(2).checked_mul(usd).unwrap()),
                BodyOp::Rc2Act => {
                    add(e.rp_vault, dec!(1).checked_mul(usd).unwrap());
                    add(e.rc2_vault, dec!("0.25"));
                }
                _ => {}
            }
        }
    }
    let want_royalty_sum = want_royalty.values().fold(Decimal::ZERO, |a, b| a.checked_add(*b).unwrap());
    if fs.total_royalty_cost_in_xrd != want_royalty_sum {
        return fail(
            if success { "royalty cost differs from the royalties of the calls made" } else { "royalties charged on a failed transaction" },
            format!("fee summary royalty {} but the calls made owe {} ({:?})", fs.total_royalty_cost_in_xrd, want_royalty_sum, plan.body),
        );
    }
    let mut reported: BTreeMap<NodeId, Decimal> = BTreeMap::new();
    for (r, d) in &c.fee_destination.to_royalty_recipients {
        let v = match r {
            RoyaltyRecipient::Package(_, v) | RoyaltyRecipient::Component(_, v) => *v,
        };
        let x = reported.entry(v).or_insert(Decimal::ZERO);
        *x = x.checked_add(*d).unwrap();
    }
    reported.retain(|_, v| !v.is_zero());
    want_royalty.retain(|_, v| !v.is_zero());
    if reported != want_royalty {
        return fail("fee_destination royalties differ from the royalties of the calls made", format!("reported {:?} expected {:?}", reported, want_royalty));
    }

    // ---- split: proposer / validator set / burn ----
    let fd = &c.fee_destination;
    let network = attos(fs.total_execution_cost_in_xrd) + attos(fs.total_finalization_cost_in_xrd) + attos(fs.total_storage_cost_in_xrd);
    let tip = attos(fs.total_tipping_cost_in_xrd);
    let want_proposer = &tip + &network * 25 / 100;
    let want_validators = &network * 25 / 100;
    let want_burn = &tip + &network - &want_proposer - &want_validators;
    if attos(fd.to_proposer) != want_proposer || attos(fd.to_validator_set) != want_validators || attos(fd.to_burn) != want_burn {
        return fail(
            "proposer / validator-set / burn split differs from 100% of tips + 25% / 25% / 50% of network fees",
            format!("network fees {} tip {} attos: proposer {} (want {}), validator set {} (want {}), burn {} (want {})", network, tip, fd.to_proposer.attos(), want_proposer, fd.to_validator_set.attos(), want_validators, fd.to_burn.attos(), want_burn),
        );
    }
    if attos(total) != &want_proposer + &want_validators + &want_burn + attos(want_royalty_sum) {
        return fail("total cost is not proposer + validator set + burn + royalties", format!("total {}", total));
    }

    // ---- raw vault movements ----
    let after = Totals::scan(w.db());
    let mut burnt = Decimal::ZERO;
    let mut keys: Vec<NodeId> = before.fungible_vaults.keys().chain(after.fungible_vaults.keys()).cloned().collect();
    keys.sort();
    keys.dedup();
    for v in keys {
        let b = before.fungible_vaults.get(&v);
        let a = after.fungible_vaults.get(&v);
        let res = b.or(a).unwrap().0;
        if res != XRD {
            continue;
        }
        let delta = a.map(|x| x.1).unwrap_or(Decimal::ZERO).checked_sub(b.map(|x| x.1).unwrap_or(Decimal::ZERO)).unwrap();
        let mut want = Decimal::ZERO.checked_sub(paid.get(&v).copied().unwrap_or(Decimal::ZERO)).unwrap();
        want = want.checked_add(want_royalty.get(&v).copied().unwrap_or(Decimal::ZERO)).unwrap();
        if v == e.rewards_vault {
            want = want.checked_add(fd.to_proposer).unwrap().checked_add(fd.to_validator_set).unwrap();
        }
        if delta != want {
            let what = if v == e.rewards_vault {
                "validator rewards vault does not grow by proposer + validator-set share"
            } else if want_royalty.contains_key(&v) || v == e.rp_vault || v == e.rc_vault || v == e.rc2_vault {
                "royalty vault movement differs from the royalties owed"
            } else if e.account_vaults.contains(&v) {
                "fee-locking vault decrease differs from its PayFee amount (refund not returned exactly)"
            } else {
                "an uninvolved XRD vault changed"
            };
            return fail(what, format!("vault {:?}: balance moved by {} but payments / royalties / rewards say {}", v, delta, want));
        }
        burnt = burnt.checked_sub(delta).unwrap();
    }
    // free credit is XRD that never sat in a vault: what it pays for does not leave any vault
    if burnt.checked_add(credit_used).unwrap() != fd.to_burn {
        return fail("XRD held in vaults does not shrink by exactly the burn share (less the free credit used)", format!("sum of XRD vaults shrank by {}, free credit used {}, burn share {}", burnt, credit_used, fd.to_burn));
    }
    let (_, rewards_after, leader) = rewards_state(w);
    let credited = rewards_after.checked_sub(before_rewards).unwrap();
    if leader && credited != fd.to_proposer {
        return fail("proposer reward bookkeeping differs from the proposer share", format!("proposer_rewards grew by {} but proposer share is {}", credited, fd.to_proposer));
    }
    if !leader && !credited.is_zero() {
        return fail("proposer reward credited without a current leader", format!("{}", credited));
    }

    // ---- limits ----
    if fs.total_execution_cost_units_consumed > plan.params.execution_cost_unit_limit {
        return fail("execution cost units exceed the limit", format!("{} > {}", fs.total_execution_cost_units_consumed, plan.params.execution_cost_unit_limit));
    }
    if fs.total_finalization_cost_units_consumed > plan.params.finalization_cost_unit_limit {
        return fail("finalization cost units exceed the limit", format!("{} > {}", fs.total_finalization_cost_units_consumed, plan.params.finalization_cost_unit_limit));
    }
    Ok(())
}

fn gen_params(g: &mut Gen) -> (CostingParameters, bool) {
    let mut p = CostingParameters::latest();
    if g.chance(3, 5) {
        return (p, true);
    }
    let vary = |g: &mut Gen, d: Decimal| -> Decimal {
        match g.weighted(&[3, 3, 2]) {
            // a few attos off the protocol value
            0 => Decimal::from_attos(d.attos() + I192::from(1 + g.below(1000))),
            // anything up to twice the protocol value
            1 => Decimal::from_attos(I192::from(1 + g.below(2 * u64::try_from(d.attos().min(I192::from(u64::MAX / 4))).unwrap_or(1_000_000).max(1)))),
            _ => d,
        }
    };
    p.execution_cost_unit_price = vary(g, p.execution_cost_unit_price);
    p.finalization_cost_unit_price = vary(g, p.finalization_cost_unit_price);
    if g.bool() {
        p.usd_price = Decimal::from_attos(I192::from(1 + g.below(18_000_000_000_000_000_000)));
    }
    if g.bool() {
        p.state_storage_price = vary(g, p.state_storage_price);
    }
    (p, false)
}

fn gen_plan(g: &mut Gen) -> Plan {
    let (params, protocol_prices) = gen_params(g);
    let tip = match g.weighted(&[2, 4, 4]) {
        0 => TipSpecifier::None,
        1 => TipSpecifier::Percentage(match g.weighted(&[1, 4, 3, 1]) {
            0 => 0,
            1 => 1 + g.below(20) as u16,
            2 => g.below(1000) as u16,
            _ => g.below(65536) as u16,
        }),
        _ => TipSpecifier::BasisPoints(match g.weighted(&[1, 4, 3, 1]) {
            0 => 0,
            1 => 1 + g.below(2000) as u32,
            2 => g.below(100_000) as u32,
            _ => g.below(1_000_001) as u32,
        }),
    };
    let free_credit = match g.weighted(&[6, 2, 1]) {
        0 => Decimal::ZERO,
        1 => Decimal::from_attos(I192::from(1 + g.below(200_000_000_000_000_000))),
        _ => dec!(100),
    };
    let n_locks = 1 + g.below(3) as usize;
    // a vault can be fee-locked once per transaction (lock_fee needs the vault untouched): distinct accounts
    let mut free_accounts: Vec<usize> = vec![0, 1, 2, 3];
    let mut take_account = |g: &mut Gen| -> usize {
        let i = g.index(free_accounts.len());
        free_accounts.remove(i)
    };
    let mut locks = vec![Lock { account: take_account(g), contingent: false, amount: dec!(5000) }];
    for _ in 1..n_locks {
        let contingent = g.bool();
        let amount = if contingent {
            Decimal::from_attos(I192::from(1 + g.below(3_000_000_000_000_000_000)))
        } else {
            Decimal::from_attos(I192::from(1 + g.below(50_000_000_000_000_000)))
        };
        locks.push(Lock { account: take_account(g), contingent, amount });
    }
    let mut body = Vec::new();
    let n_body = g.below(6) as usize;
    for _ in 0..n_body {
        body.push(match g.weighted(&[2, 2, 2, 2, 2, 1]) {
            0 => BodyOp::RpRun,
            1 => BodyOp::RcAct,
            2 => BodyOp::RcPeek,
            3 => BodyOp::Rc2Act,
            4 => BodyOp::Write(g.below(4) as u32, 8 + g.below(3000) as usize),
            _ => BodyOp::Noise(1 + g.below(10) as u32),
        });
    }
    for i in 1..locks.len() {
        let at = g.below(body.len() as u64 + 1) as usize;
        body.insert(at, BodyOp::Lock(i));
    }
    let fails = g.chance(1, 4);
    Plan { locks, body, fails, tip, free_credit, params, protocol_prices }
}

fn is_costing_failure(e: &RuntimeError) -> bool {
    matches!(e, RuntimeError::SystemModuleError(SystemModuleError::CostingError(_)))
}

fn case(g: &mut Gen) -> Outcome {
    let plan = gen_plan(g);
    with_world("c06", no_genesis, build, |w| {
        let before = Totals::scan(w.db());
        let before_rewards = rewards_state(w).1;
        let prices = if plan.protocol_prices { "protocol prices" } else { "non-protocol prices" };
        let describe = |p: &Plan| format!("locks {:?}; body {:?}; fails {}; tip {:?}; free credit {}; costing parameters {:?}", p.locks, p.body, p.fails, p.tip, p.free_credit, p.params);
        let panic_outcome = |p: &Plan, what: &str, msg: &str| -> Outcome {
            if msg.contains("Locked fee does not cover transaction cost") && !p.protocol_prices {
                Outcome::fail(SIG_KNOWN_PANIC, format!("{} ({}): {}", what, describe(p), msg))
            } else {
                Outcome::fail(format!("engine fees [{}]: host panic", prices), format!("{} ({}): {}", what, describe(p), msg))
            }
        };

        // ---- ample run ----
        let run = execute(w, &plan);
        if let Some(p) = &run.panic {
            return panic_outcome(&plan, "ample run", p);
        }
        let Some(_) = run.commit() else {
            return Outcome::fail("harness: C06 ample run does not commit", format!("{}: {}", describe(&plan), run.outcome_string()));
        };
        if run.is_success() == plan.fails {
            return Outcome::fail("harness: C06 ample run has an unplanned outcome", format!("{}: {}", describe(&plan), run.outcome_string()));
        }
        if let Err((s, m)) = judge_commit(w, &plan, &before, before_rewards, &run) {
            return Outcome::fail(s, format!("ample run; {}; {}", describe(&plan), m));
        }
        let fs = run.receipt().fee_summary.clone();
        let total = fs
            .total_execution_cost_in_xrd
            .checked_add(fs.total_finalization_cost_in_xrd)
            .unwrap()
            .checked_add(fs.total_tipping_cost_in_xrd)
            .unwrap()
            .checked_add(fs.total_storage_cost_in_xrd)
            .unwrap()
            .checked_add(fs.total_royalty_cost_in_xrd)
            .unwrap();
        let ample_success = run.is_success();
        let paying = run.commit().unwrap().fee_source.paying_vaults.values().filter(|v| v.is_positive()).count();
        let tipped = fs.total_tipping_cost_in_xrd.is_positive();
        g.label(if ample_success { "committed success" } else { "committed failure" });
        g.label(prices);
        if tipped && paying >= 2 {
            g.nontrivial();
            g.label("committed with tip > 0 and >= 2 paying vaults");
        }
        if !fs.total_royalty_cost_in_xrd.is_zero() {
            g.label("royalties charged");
        }
        if plan.locks.iter().any(|l| l.contingent) {
            g.label(if ample_success { "contingent lock on success" } else { "contingent lock on failure" });
        }
        if plan.free_credit.is_positive() {
            g.label("free credit");
        }

        // ---- boundary re-runs: non-contingent locks + free credit = total_cost - d ----
        let reverted_royalties = plan.fails && plan.body.iter().any(|o| matches!(o, BodyOp::RpRun | BodyOp::RcAct | BodyOp::RcPeek | BodyOp::Rc2Act));
        let other_plain = plan.locks[1..].iter().filter(|l| !l.contingent).fold(Decimal::ZERO, |a, l| a.checked_add(l.amount).unwrap());
        let need = total.checked_sub(plan.free_credit).unwrap().checked_sub(other_plain).unwrap();
        let units = fs.total_execution_cost_units_consumed as u64 + fs.total_finalization_cost_units_consumed as u64;
        if need > dec!("0.001") {
            let mut deltas: Vec<u64> = vec![0, 1, 2, units, units / 2 + 1];
            deltas.push(1 + g.below(1_000_000_000));
            deltas.push(10_000_000_000_000_000);
            let pick = g.below(8);
            for (i, d) in deltas.iter().enumerate() {
                // all of them in thorough-sized cases would be slow: 0, 1 and two others per case
                if i >= 2 && (i as u64 + pick) % 3 != 0 {
                    continue;
                }
                let mut p2 = plan.clone();
                p2.locks[0].amount = need.checked_sub(Decimal::from_attos(I192::from(*d))).unwrap();
                if !p2.locks[0].amount.is_positive() {
                    continue;
                }
                let run2 = execute(w, &p2);
                g.count("boundary re-runs", 1);
                g.nontrivial();
                let ctx = |r: &Run| format!("re-run with first lock = total cost {} - free credit - other non-contingent locks - {} attos = {}; {}; outcome {}", total, d, p2.locks[0].amount, describe(&p2), r.outcome_string());
                if let Some(pn) = &run2.panic {
                    return panic_outcome(&p2, &format!("boundary re-run, {} attos short", d), pn);
                }
                if reverted_royalties {
                    // the royalties of a failing transaction are charged while it runs and handed back afterwards: the
                    // balance it needs at its peak lies above its final cost, so only what it commits is judged
                    if run2.is_success() {
                        return Outcome::fail(format!("engine fees [{}]: a planned failure succeeds", prices), ctx(&run2));
                    }
                    if run2.commit().is_some() {
                        if let Err((s, m)) = judge_commit(w, &p2, &before, before_rewards, &run2) {
                            return Outcome::fail(s, format!("{}; {}", ctx(&run2), m));
                        }
                    }
                    g.label("failing transaction with reverted royalties: boundary judged on payments only");
                } else if *d == 0 {
                    if run2.commit().is_none() || run2.is_success() != ample_success {
                        return Outcome::fail(format!("engine fees [{}]: exactly sufficient fee is not accepted", prices), ctx(&run2));
                    }
                    if let Err((s, m)) = judge_commit(w, &p2, &before, before_rewards, &run2) {
                        return Outcome::fail(s, format!("{}; {}", ctx(&run2), m));
                    }
                    g.label("exactly sufficient fee commits");
                } else {
                    match run2.commit() {
                        None => {
                            g.label("insufficient fee rejected");
                        }
                        Some(_) => {
                            let costing = run2.failure().map(is_costing_failure).unwrap_or(false);
                            // With non-protocol prices and a tip the reserve charges units * trunc(price * (1 + tip)), which can be
                            // less than the summary's total (the root cause of the known C06 findings): the reserve then admits
                            // the transaction, and contingent locks may make up the difference. Such a commit is judged on its
                            // own payments only; with protocol prices it cannot happen.
                            let reserve_may_undercharge = !plan.protocol_prices && !matches!(plan.tip, TipSpecifier::None);
                            if (run2.is_success() || !costing) && !reserve_may_undercharge {
                                return Outcome::fail(format!("engine fees [{}]: committed although the locked fee cannot cover the transaction cost", prices), ctx(&run2));
                            }
                            // ran out of fee after the loan was repaid: a committed failure that must itself be paid for exactly
                            if let Err((s, m)) = judge_commit(w, &p2, &before, before_rewards, &run2) {
                                return Outcome::fail(s, format!("{}; {}", ctx(&run2), m));
                            }
                            g.label(if costing { "insufficient fee: committed failure with a costing error" } else { "non-protocol prices: reserve admits a fee below the summary's total, paid exactly" });
                        }
                    }
                }
            }
        }

        // ---- cost unit limit boundary ----
        if g.chance(1, 3) {
            let consumed = fs.total_execution_cost_units_consumed;
            let k = g.below(3) as u32;
            let below = g.bool();
            let mut p3 = plan.clone();
            p3.params.execution_cost_unit_limit = if below { consumed.saturating_sub(1 + k) } else { consumed + k };
            // a small transaction stays below the 4M-unit system loan: keep the loan within the limit
            p3.params.execution_cost_unit_loan = p3.params.execution_cost_unit_loan.min(p3.params.execution_cost_unit_limit);
            if p3.params.execution_cost_unit_limit > 0 {
                let run3 = execute(w, &p3);
                let ctx = format!("re-run with execution_cost_unit_limit {} (ample run consumed {}); {}; outcome {}", p3.params.execution_cost_unit_limit, consumed, describe(&p3), run3.outcome_string());
                if let Some(pn) = &run3.panic {
                    return panic_outcome(&p3, "cost unit limit re-run", pn);
                }
                if below {
                    if run3.is_success() {
                        return Outcome::fail(format!("engine fees [{}]: success although execution cost units exceed the limit", prices), ctx);
                    }
                } else if run3.commit().is_none() || run3.is_success() != ample_success {
                    return Outcome::fail(format!("engine fees [{}]: failed although execution cost units stay within the limit", prices), ctx);
                }
                if run3.commit().is_some() {
                    if let Err((s, m)) = judge_commit(w, &p3, &before, before_rewards, &run3) {
                        return Outcome::fail(s, format!("{}; {}", ctx, m));
                    }
                }
                g.label("execution cost unit limit at consumption +-k");
            }
        }
        g.sample(|| format!("{}; total cost {}; {}", describe(&plan), total, run.outcome_string()));
        Outcome::Pass
    })
}

pub fn engine_part() -> Part {
    Part::new("engine", 1500, 60_000, 300, case)
}

pub fn check() -> Check {
    Check::new(
        "C06",
        "Fees are fully paid and exactly distributed",
        "part reserve (unit level): SystemLoanFeeReserve with generated CostingParameters (babylon_genesis; protocol prices with small loan/limits; generated prices that are multiples of 10^-14 XRD; arbitrary prices down to 1 atto), tip None / Percentage 0..=65535 / BasisPoints 0..=max allowed and beyond, optional free credit and abort flag, driven in engine order: 0-3 deferred costs, 0-12 execution-phase operations (consume_execution with units at the loan threshold and the limit +-1, lock_fee contingent or not with amounts of exactly the missing sum +-3 attos, consume_royalty XRD/USD/free), on success 0-4 consume_finalization and 0-3 consume_storage, stop at the first error, repay_all, revert_royalty on a failed commit, finalize. Oracle: bigint model charging units*price*(1+tip) exactly, compared after every operation (result, fee_balance) and with every summary field when all products are whole attos; always: limits, summary identities, exact protocol split, and the finalize_fees_for_commit payment loop ends with nothing required. part engine: a test-transaction executable over the standard world with 1-3 fee locks on the four accounts' XRD vaults (first one non-contingent and ample, the others contingent or not, placed anywhere in the body), 0-5 body calls (royalty package function 0.7 XRD, royalty component methods 1.5 XRD / 2 USD, component of the royalty package 1 USD + 0.25 XRD, 8-3000 byte storage writes, events and logs), optional failing tail (1 in 4), tip None / Percentage up to 65535 / BasisPoints up to 1 000 000, free credit 0 / < 0.2 XRD / 100 XRD, protocol costing parameters (3 in 5) or generated prices via SystemOverrides. Every commit: sum of PayFee events + free credit used = total cost; no vault pays more than its usable locks (contingent ones not on failure); royalties = those of the calls made (none on failure); proposer / validator-set / burn = 100% of tips + 25/25/50% of network fees in bigint arithmetic; every XRD vault of the ledger (own scan of raw substates before / after) moves by exactly -PayFee + royalties + (rewards vault) proposer + validator share, everything else unchanged, the sum shrinks by the burn share; proposer_rewards bookkeeping; cost units <= limits. Then 4 re-runs from the same state with non-contingent locks + free credit = total cost - d (d = 0, 1 atto, two of {2, units, units/2+1, random < 10^9, 0.01 XRD}): d = 0 commits identically; d > 0 is rejected or commits a costing failure that is itself paid exactly, never a success and never a host panic; one case in three also re-runs with the execution cost unit limit at consumption -1-k / +k. Non-trivial = committed with tip > 0 and >= 2 paying vaults, or a boundary re-run / a lock_fee of the missing amount +-3 attos. Distinct = distinct decoded choice sequences.",
    )
    .assume("non-protocol configurations (generated prices, loan/limits, tips beyond the validator's limit) are named in the failure signature so that a divergence reachable only with them can be judged as configuration acceptance")
    .assume("part engine: tips and free credit are set on test-transaction executables (ExecutionContext.costing_parameters), not through notarized headers; XRD total supply is not consulted (fee burning does not update it): burn is judged as the shrinkage of the sum of all XRD vaults")
    .assume("part engine: the order in which several locks are drawn is not asserted, only per-vault caps, the total and exact refunds")
    .part(vf_kernel::c06_reserve_part())
    .part(engine_part())
    .min_nontrivial_pct(10.0)
}
