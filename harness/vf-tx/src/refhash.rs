//! Reference computation of the transaction identifiers, written from the documented hashing scheme
//! (REP-82 / the structure tests in `model/any_transaction.rs`): blake2b-256 (the `blake2` crate,
//! not `radix_common::hash`) over `0x54 ‖ payload discriminator ‖ hashes of the parts`.
//!
//! * V1 parts hash the *full* SBOR value (value-kind byte included, payload prefix byte excluded);
//!   the blobs part hashes the concatenation of the blob hashes.
//! * V2 parts hash the SBOR value *body* (no value-kind byte); lists of hashable things (blobs,
//!   children, subintents, signature batches) hash the concatenation of the element hashes.
//!
//! Only `manifest_encode` of the individual parts is shared with the code under test; no part of
//! `radix_transactions::model::preparation` is used.

use blake2::digest::consts::U32;
use blake2::{Blake2b, Digest};
use radix_common::prelude::*;
use radix_transactions::prelude::*;

pub const PREFIX: u8 = 0x54;
pub const D_V1_INTENT: u8 = 1;
pub const D_V1_SIGNED: u8 = 2;
pub const D_V1_NOTARIZED: u8 = 3;
pub const D_V2_TX_INTENT: u8 = 9;
pub const D_V2_SIGNED: u8 = 10;
pub const D_V2_SUBINTENT: u8 = 11;
pub const D_V2_NOTARIZED: u8 = 12;

pub fn h(data: &[u8]) -> Hash {
    Hash(Blake2b::<U32>::digest(data).into())
}

fn cat(parts: &[&[u8]]) -> Hash {
    let mut v = Vec::new();
    for p in parts {
        v.extend_from_slice(p);
    }
    h(&v)
}

fn cat_hashes<'a>(hashes: impl IntoIterator<Item = &'a Hash>) -> Hash {
    let mut v = Vec::new();
    for x in hashes {
        v.extend_from_slice(&x.0);
    }
    h(&v)
}

/// Hash of the SBOR value including its value-kind byte (V1 style).
pub fn full<T: ManifestEncode>(v: &T) -> Hash {
    h(&manifest_encode(v).expect("encodable")[1..])
}

/// Hash of the SBOR value body, without the value-kind byte (V2 style).
pub fn body<T: ManifestEncode>(v: &T) -> Hash {
    h(&manifest_encode(v).expect("encodable")[2..])
}

pub fn blobs(b: &BlobsV1) -> Hash {
    let hs: Vec<Hash> = b.blobs.iter().map(|x| h(&x.0)).collect();
    cat_hashes(hs.iter())
}

// ---- V1 -------------------------------------------------------------------------------------

#[derive(Clone, Debug, PartialEq, Eq)]
pub struct V1Hashes {
    pub intent: Hash,
    pub signed: Hash,
    pub notarized: Hash,
}

pub fn v1_intent(i: &IntentV1) -> Hash {
    cat(&[
        &[PREFIX, D_V1_INTENT],
        &full(&i.header).0,
        &full(&i.instructions).0,
        &blobs(&i.blobs).0,
        &full(&i.message).0,
    ])
}

pub fn v1_signed(s: &SignedIntentV1) -> Hash {
    cat(&[&[PREFIX, D_V1_SIGNED], &v1_intent(&s.intent).0, &full(&s.intent_signatures).0])
}

pub fn v1(t: &NotarizedTransactionV1) -> V1Hashes {
    let intent = v1_intent(&t.signed_intent.intent);
    let signed = cat(&[&[PREFIX, D_V1_SIGNED], &intent.0, &full(&t.signed_intent.intent_signatures).0]);
    let notarized = cat(&[&[PREFIX, D_V1_NOTARIZED], &signed.0, &full(&t.notary_signature).0]);
    V1Hashes { intent, signed, notarized }
}

// ---- V2 -------------------------------------------------------------------------------------

#[derive(Clone, Debug, PartialEq, Eq)]
pub struct V2Hashes {
    pub intent: Hash,
    pub signed: Hash,
    pub notarized: Hash,
    pub subintents: Vec<Hash>,
}

pub fn core(c: &IntentCoreV2) -> Hash {
    let children: Vec<Hash> = c.children.children.iter().map(|c| c.hash.0).collect();
    cat(&[
        &body(&c.header).0,
        &blobs(&c.blobs).0,
        &body(&c.message).0,
        &cat_hashes(children.iter()).0,
        &body(&c.instructions).0,
    ])
}

pub fn subintent(s: &SubintentV2) -> Hash {
    cat(&[&[PREFIX, D_V2_SUBINTENT], &core(&s.intent_core).0])
}

pub fn v2_intent(t: &TransactionIntentV2) -> (Hash, Vec<Hash>) {
    let subs: Vec<Hash> = t.non_root_subintents.0.iter().map(subintent).collect();
    let intent = cat(&[
        &[PREFIX, D_V2_TX_INTENT],
        &body(&t.transaction_header).0,
        &core(&t.root_intent_core).0,
        &cat_hashes(subs.iter()).0,
    ]);
    (intent, subs)
}

fn batches(b: &NonRootSubintentSignaturesV2) -> Hash {
    let hs: Vec<Hash> = b.by_subintent.iter().map(body).collect();
    cat_hashes(hs.iter())
}

pub fn v2_signed(s: &SignedTransactionIntentV2) -> (Hash, Hash, Vec<Hash>) {
    let (intent, subs) = v2_intent(&s.transaction_intent);
    let signed = cat(&[
        &[PREFIX, D_V2_SIGNED],
        &intent.0,
        &body(&s.transaction_intent_signatures).0,
        &batches(&s.non_root_subintent_signatures).0,
    ]);
    (signed, intent, subs)
}

pub fn v2(t: &NotarizedTransactionV2) -> V2Hashes {
    let (signed, intent, subintents) = v2_signed(&t.signed_transaction_intent);
    let notarized = cat(&[&[PREFIX, D_V2_NOTARIZED], &signed.0, &body(&t.notary_signature).0]);
    V2Hashes { intent, signed, notarized, subintents }
}

/// Hashes of a (signed) partial transaction: root subintent hash and the non-root ones.
pub fn partial(p: &PartialTransactionV2) -> (Hash, Vec<Hash>) {
    (subintent(&p.root_subintent), p.non_root_subintents.0.iter().map(subintent).collect())
}
