//! The transaction model: worktop, named buckets / proofs, auth zone, account vaults, lock tables.

use super::types::*;
use scrypto_test::prelude::NonFungibleIdType;
use std::collections::{BTreeMap, BTreeSet};
use vf_world::Gate;

/// `apply` answers this when the outcome depends on engine-internal iteration order the model
/// does not reproduce; the generator then does not emit the instruction.
pub const UNPREDICTABLE: Why = "UNPREDICTABLE";

#[derive(Clone)]
pub struct Tx<'a> {
    pub wd: &'a Wd,
    pub led: &'a Ledger,
    pub conts: Vec<Cont>,
    pub vault_cont: BTreeMap<(usize, usize), usize>,
    pub worktop: BTreeMap<usize, usize>,
    pub buckets: BTreeMap<u32, usize>,
    pub next_bucket: u32,
    pub proofs: BTreeMap<u32, ProofM>,
    pub next_proof: u32,
    pub zone: Vec<ProofM>,
    pub signers: BTreeSet<usize>,
    pub sig_alive: bool,
    pub fee_locked: BTreeMap<usize, A>,
    pub faucet_fee: bool,
    /// a non-contingent fee lock large enough to pay for any generated manifest succeeded
    pub fee_ok: bool,
    pub frozen: BTreeMap<(usize, usize), u32>,
    pub minted_f: BTreeMap<usize, A>,
    pub burned_f: BTreeMap<usize, A>,
    pub minted_n: BTreeMap<usize, NfHold>,
    pub burned_n: BTreeMap<usize, NfHold>,
    pub new_vaults: BTreeSet<(usize, usize)>,
    /// number of outflows (withdraw / take / burn / recall) attempted on a container with live locks
    pub outflows_under_lock: u32,
    /// ... on a container with at least two live locks
    pub outflows_under_2: u32,
    pub max_live_proofs: u32,
    exact_take_seen: bool,
    /// an exact-balance take (bucket move) was followed by another worktop operation
    pub exact_take_followed: bool,
}

fn merge(into: &mut Liquid, from: Liquid) {
    match (into, from) {
        (Liquid::F(a), Liquid::F(b)) => *a += b,
        (Liquid::N(a), Liquid::N(b)) => {
            a.known.extend(b.known);
            a.anon += b.anon;
        }
        _ => panic!("model: merging containers of different kinds"),
    }
}

impl<'a> Tx<'a> {
    pub fn new(wd: &'a Wd, led: &'a Ledger, signers: BTreeSet<usize>) -> Tx<'a> {
        Tx {
            wd,
            led,
            conts: vec![],
            vault_cont: BTreeMap::new(),
            worktop: BTreeMap::new(),
            buckets: BTreeMap::new(),
            next_bucket: 0,
            proofs: BTreeMap::new(),
            next_proof: 0,
            zone: vec![],
            signers,
            sig_alive: true,
            fee_locked: BTreeMap::new(),
            faucet_fee: false,
            fee_ok: false,
            frozen: led.frozen.clone(),
            minted_f: BTreeMap::new(),
            burned_f: BTreeMap::new(),
            minted_n: BTreeMap::new(),
            burned_n: BTreeMap::new(),
            new_vaults: BTreeSet::new(),
            outflows_under_lock: 0,
            outflows_under_2: 0,
            max_live_proofs: 0,
            exact_take_seen: false,
            exact_take_followed: false,
        }
    }

    pub fn empty_liquid(&self, res: usize) -> Liquid {
        if self.wd.res[res].is_f() {
            Liquid::F(0)
        } else {
            Liquid::N(NfHold::default())
        }
    }
    fn new_cont(&mut self, res: usize, liquid: Liquid, vault_of: Option<usize>) -> usize {
        self.conts.push(Cont { res, liquid, flocks: BTreeMap::new(), nlocks: BTreeMap::new(), vault_of, written: false, ever_locked: false });
        self.conts.len() - 1
    }

    pub fn has_vault(&self, acct: usize, res: usize) -> bool {
        self.led.vault.contains_key(&(acct, res)) || self.new_vaults.contains(&(acct, res))
    }

    /// Container of an account's vault (None when the account has no vault for the resource).
    pub fn vault(&mut self, acct: usize, res: usize, create: bool) -> Option<usize> {
        if let Some(c) = self.vault_cont.get(&(acct, res)) {
            return Some(*c);
        }
        let liquid = if self.led.vault.contains_key(&(acct, res)) {
            if self.wd.res[res].is_f() {
                Liquid::F(*self.led.f.get(&(acct, res)).unwrap_or(&0))
            } else {
                Liquid::N(NfHold { known: self.led.n.get(&(acct, res)).cloned().unwrap_or_default(), anon: 0 })
            }
        } else if create {
            self.new_vaults.insert((acct, res));
            self.empty_liquid(res)
        } else {
            return None;
        };
        let c = self.new_cont(res, liquid, Some(acct));
        self.vault_cont.insert((acct, res), c);
        Some(c)
    }
    /// Read-only view of what an account vault holds now (liquid part).
    pub fn peek_vault(&self, acct: usize, res: usize) -> Option<Cont> {
        if let Some(c) = self.vault_cont.get(&(acct, res)) {
            return Some(self.conts[*c].clone());
        }
        if !self.led.vault.contains_key(&(acct, res)) {
            return None;
        }
        let liquid = if self.wd.res[res].is_f() {
            Liquid::F(*self.led.f.get(&(acct, res)).unwrap_or(&0))
        } else {
            Liquid::N(NfHold { known: self.led.n.get(&(acct, res)).cloned().unwrap_or_default(), anon: 0 })
        };
        Some(Cont { res, liquid, flocks: BTreeMap::new(), nlocks: BTreeMap::new(), vault_of: Some(acct), written: false, ever_locked: false })
    }

    pub fn owner_ok(&self, acct: usize) -> bool {
        self.sig_alive && self.signers.contains(&acct)
    }
    pub fn gate_ok(&self, g: Gate) -> bool {
        match g {
            Gate::Open => true,
            Gate::Badge => self.zone.iter().any(|p| p.res == BADGE_R),
            Gate::Closed => false,
        }
    }
    fn flags(&self, acct: usize, res: usize) -> u32 {
        *self.frozen.get(&(acct, res)).unwrap_or(&0)
    }
    pub fn live_proofs(&self) -> u32 {
        (self.proofs.len() + self.zone.len()) as u32
    }

    // ---- lock tables -------------------------------------------------------------------------

    fn lock_f(&mut self, c: usize, amount: A) -> Result<(), Why> {
        let max = self.conts[c].max_flock();
        if amount > max {
            let delta = amount - max;
            match &mut self.conts[c].liquid {
                Liquid::F(l) => {
                    if *l < delta {
                        return Err("insufficient");
                    }
                    *l -= delta;
                }
                _ => return Err("any"),
            }
            self.conts[c].written = true;
        }
        *self.conts[c].flocks.entry(amount).or_insert(0) += 1;
        self.conts[c].ever_locked = true;
        Ok(())
    }
    fn unlock_f(&mut self, c: usize, amount: A) {
        let old = self.conts[c].max_flock();
        let cnt = self.conts[c].flocks.get_mut(&amount).expect("model: unlocking an amount that is not locked");
        *cnt -= 1;
        if *cnt == 0 {
            self.conts[c].flocks.remove(&amount);
        }
        let new = self.conts[c].max_flock();
        if let Liquid::F(l) = &mut self.conts[c].liquid {
            *l += old - new;
        }
        if old != new {
            self.conts[c].written = true;
        }
    }
    fn lock_n(&mut self, c: usize, ids: &Ids) -> Result<(), Why> {
        let cont = &mut self.conts[c];
        let Liquid::N(h) = &mut cont.liquid else { return Err("any") };
        for id in ids {
            if !cont.nlocks.contains_key(id) {
                if !h.known.remove(id) {
                    if h.anon > 0 {
                        return Err(UNPREDICTABLE);
                    }
                    return Err("insufficient");
                }
            }
        }
        for id in ids {
            *cont.nlocks.entry(id.clone()).or_insert(0) += 1;
        }
        cont.ever_locked = true;
        Ok(())
    }
    fn unlock_n(&mut self, c: usize, ids: &Ids) {
        let cont = &mut self.conts[c];
        for id in ids {
            let cnt = cont.nlocks.get_mut(id).expect("model: unlocking an id that is not locked");
            *cnt -= 1;
            if *cnt == 0 {
                cont.nlocks.remove(id);
                if let Liquid::N(h) = &mut cont.liquid {
                    h.known.insert(id.clone());
                }
            }
        }
    }
    fn drop_proof(&mut self, p: ProofM) {
        for (c, a) in &p.evidence {
            match a {
                PAmt::F(x) => self.unlock_f(*c, *x),
                PAmt::N(ids) => self.unlock_n(*c, ids),
            }
        }
    }
    fn clone_proof(&mut self, p: &ProofM) -> Result<ProofM, Why> {
        for (c, a) in &p.evidence {
            match a {
                PAmt::F(x) => self.lock_f(*c, *x)?,
                PAmt::N(ids) => self.lock_n(*c, ids)?,
            }
        }
        Ok(p.clone())
    }
    fn name_proof(&mut self, p: ProofM) {
        self.proofs.insert(self.next_proof, p);
        self.next_proof += 1;
        self.max_live_proofs = self.max_live_proofs.max(self.live_proofs());
    }
    fn name_bucket(&mut self, c: usize) {
        self.buckets.insert(self.next_bucket, c);
        self.next_bucket += 1;
    }

    // ---- liquid takes ------------------------------------------------------------------------

    fn on_grid(&self, res: usize, amount: A) -> bool {
        amount >= 0 && amount % self.wd.res[res].grid() == 0
    }

    /// Take `amount` out of the liquid part of a container (Vault/Bucket `take`).
    fn take_amount(&mut self, c: usize, amount: A) -> Result<Liquid, Why> {
        let res = self.conts[c].res;
        self.note_outflow(c);
        if self.wd.res[res].is_f() {
            if !self.on_grid(res, amount) {
                return Err("invalid_amount");
            }
            let Liquid::F(l) = &mut self.conts[c].liquid else { unreachable!() };
            if *l < amount {
                return Err("insufficient");
            }
            *l -= amount;
            self.conts[c].written = true;
            Ok(Liquid::F(amount))
        } else {
            if amount < 0 || amount % ONE != 0 || amount / ONE > u32::MAX as A {
                return Err("invalid_amount");
            }
            let n = (amount / ONE) as usize;
            let Liquid::N(h) = &mut self.conts[c].liquid else { unreachable!() };
            if h.count() < n {
                return Err("insufficient");
            }
            if n == 0 {
                Ok(Liquid::N(NfHold::default()))
            } else if n == h.count() {
                Ok(Liquid::N(std::mem::take(h)))
            } else {
                let rest = h.count() - n;
                *h = NfHold { known: Ids::new(), anon: rest as u32 };
                Ok(Liquid::N(NfHold { known: Ids::new(), anon: n as u32 }))
            }
        }
    }
    fn note_outflow(&mut self, c: usize) {
        if self.conts[c].locked() {
            self.outflows_under_lock += 1;
        }
        if self.conts[c].lock_count() >= 2 {
            self.outflows_under_2 += 1;
        }
    }
    fn take_ids(&mut self, c: usize, ids: &Ids) -> Result<Liquid, Why> {
        self.note_outflow(c);
        let Liquid::N(h) = &mut self.conts[c].liquid else { return Err("any") };
        for id in ids {
            if !h.known.contains(id) {
                if h.anon > 0 && !self.conts[c].nlocks.contains_key(id) {
                    return Err(UNPREDICTABLE);
                }
                return Err("insufficient");
            }
        }
        for id in ids {
            h.known.remove(id);
        }
        Ok(Liquid::N(NfHold { known: ids.clone(), anon: 0 }))
    }

    fn worktop_put_liquid(&mut self, res: usize, l: Liquid) -> Result<(), Why> {
        let c = self.new_cont(res, l, None);
        self.worktop_put(c)
    }
    fn worktop_put(&mut self, c: usize) -> Result<(), Why> {
        let res = self.conts[c].res;
        if self.conts[c].amount() == 0 {
            return Ok(());
        }
        if let Some(&ex) = self.worktop.get(&res) {
            if self.conts[c].locked() {
                return Err("locked");
            }
            let l = std::mem::replace(&mut self.conts[c].liquid, Liquid::F(0));
            merge(&mut self.conts[ex].liquid, l);
        } else {
            self.worktop.insert(res, c);
        }
        Ok(())
    }

    /// Vault `put` of a whole bucket container.
    fn vault_put(&mut self, acct: usize, c: usize) -> Result<(), Why> {
        let res = self.conts[c].res;
        let v = self.vault(acct, res, true).unwrap();
        if self.flags(acct, res) & FZ_DEPOSIT != 0 {
            return Err("frozen");
        }
        if self.conts[c].locked() {
            return Err("locked");
        }
        let l = std::mem::replace(&mut self.conts[c].liquid, Liquid::F(0));
        if !matches!(l, Liquid::F(0)) {
            self.conts[v].written = true;
        }
        merge(&mut self.conts[v].liquid, l);
        Ok(())
    }

    fn note_mint(&mut self, res: usize, l: &Liquid) {
        match l {
            Liquid::F(a) => *self.minted_f.entry(res).or_insert(0) += a,
            Liquid::N(h) => {
                let e = self.minted_n.entry(res).or_default();
                e.known.extend(h.known.iter().cloned());
                e.anon += h.anon;
            }
        }
    }
    fn note_burn(&mut self, res: usize, l: &Liquid) {
        match l {
            Liquid::F(a) => *self.burned_f.entry(res).or_insert(0) += a,
            Liquid::N(h) => {
                let e = self.burned_n.entry(res).or_default();
                e.known.extend(h.known.iter().cloned());
                e.anon += h.anon;
            }
        }
    }

    fn id_matches(&self, res: usize, id: &Id) -> bool {
        match (&self.wd.res[res].kind, id) {
            (Kind::N { id_type: NonFungibleIdType::Integer }, Id::Integer(_)) => true,
            (Kind::N { id_type: NonFungibleIdType::String }, Id::String(_)) => true,
            (Kind::N { id_type: NonFungibleIdType::Bytes }, Id::Bytes(_)) => true,
            (Kind::N { id_type: NonFungibleIdType::RUID }, Id::RUID(_)) => true,
            _ => false,
        }
    }
    pub fn id_in_use(&self, res: usize, id: &Id) -> bool {
        self.led.live_ids.get(&res).map(|s| s.contains(id)).unwrap_or(false)
            || self.led.dead_ids.get(&res).map(|s| s.contains(id)).unwrap_or(false)
            || self.minted_n.get(&res).map(|h| h.known.contains(id)).unwrap_or(false)
    }

    fn compose_f(&mut self, res: usize, amount: Option<A>) -> Result<ProofM, Why> {
        let mut quota: Vec<(usize, A)> = vec![];
        for p in &self.zone {
            if p.res == res {
                for (c, a) in &p.evidence {
                    if let PAmt::F(x) = a {
                        if let Some(q) = quota.iter_mut().find(|q| q.0 == *c) {
                            q.1 = q.1.max(*x);
                        } else {
                            quota.push((*c, *x));
                        }
                    }
                }
            }
        }
        let total: A = quota.iter().map(|q| q.1).sum();
        let amount = amount.unwrap_or(total);
        if amount > total {
            return Err("insufficient_proofs");
        }
        let mut remaining = amount;
        let mut evidence = vec![];
        let zone = self.zone.clone();
        'outer: for p in &zone {
            // proofs of the other kind in the zone are not evidence: skipped
            if !matches!(p.total, PAmt::F(_)) {
                continue;
            }
            for (c, _) in &p.evidence {
                if remaining == 0 {
                    break 'outer;
                }
                if let Some(pos) = quota.iter().position(|q| q.0 == *c) {
                    let (_, q) = quota.remove(pos);
                    let amt = remaining.min(q);
                    self.lock_f(*c, amt)?;
                    remaining -= amt;
                    evidence.push((*c, PAmt::F(amt)));
                }
            }
        }
        if amount == 0 {
            return Err("emptyproof");
        }
        Ok(ProofM { res, evidence, total: PAmt::F(amount) })
    }

    fn compose_n(&mut self, res: usize, want: Option<Ids>) -> Result<ProofM, Why> {
        let mut quota: Vec<(usize, Ids)> = vec![];
        let mut total = Ids::new();
        for p in &self.zone {
            if p.res == res {
                for (c, a) in &p.evidence {
                    if let PAmt::N(ids) = a {
                        total.extend(ids.iter().cloned());
                        if let Some(q) = quota.iter_mut().find(|q| q.0 == *c) {
                            q.1.extend(ids.iter().cloned());
                        } else {
                            quota.push((*c, ids.clone()));
                        }
                    }
                }
            }
        }
        let ids = want.unwrap_or_else(|| total.clone());
        if !ids.is_subset(&total) {
            return Err("insufficient_proofs");
        }
        let mut remaining = ids.clone();
        let mut evidence = vec![];
        let zone = self.zone.clone();
        'outer: for p in &zone {
            if !matches!(p.total, PAmt::N(_)) {
                continue;
            }
            for (c, _) in &p.evidence {
                if remaining.is_empty() {
                    break 'outer;
                }
                if let Some(pos) = quota.iter().position(|q| q.0 == *c) {
                    let (_, q) = quota.remove(pos);
                    let part: Ids = remaining.intersection(&q).cloned().collect();
                    self.lock_n(*c, &part)?;
                    for id in &part {
                        remaining.remove(id);
                    }
                    evidence.push((*c, PAmt::N(part)));
                }
            }
        }
        if ids.is_empty() {
            return Err("emptyproof");
        }
        Ok(ProofM { res, evidence, total: PAmt::N(ids) })
    }

    // ---- instructions ------------------------------------------------------------------------

    pub fn apply(&mut self, ins: &Ins) -> Result<(), Why> {
        use Ins::*;
        if self.exact_take_seen
            && matches!(ins, Take { .. } | TakeIds { .. } | TakeAll { .. } | Return { .. } | AssertAmount { .. } | AssertIds { .. } | AssertAny { .. } | DepositWorktop { .. })
        {
            self.exact_take_followed = true;
        }
        match ins {
            LockFeeFaucet => {
                self.faucet_fee = true;
                self.fee_ok = true;
                Ok(())
            }
            LockFee { acct, amount, contingent } => self.lock_fee(*acct, *amount, *contingent),
            LockFeeAndWithdraw { acct, fee, res, amount } => {
                self.lock_fee(*acct, *fee, false)?;
                let v = self.vault(*acct, *res, false).ok_or("novault")?;
                if self.flags(*acct, *res) & FZ_WITHDRAW != 0 {
                    return Err("frozen");
                }
                let l = self.take_amount(v, *amount)?;
                self.worktop_put_liquid(*res, l)
            }
            Withdraw { acct, res, amount } => {
                if !self.owner_ok(*acct) {
                    return Err("auth");
                }
                let v = self.vault(*acct, *res, false).ok_or("novault")?;
                if self.flags(*acct, *res) & FZ_WITHDRAW != 0 {
                    return Err("frozen");
                }
                let l = self.take_amount(v, *amount)?;
                self.worktop_put_liquid(*res, l)
            }
            WithdrawIds { acct, res, ids } => {
                if !self.owner_ok(*acct) {
                    return Err("auth");
                }
                let v = self.vault(*acct, *res, false).ok_or("novault")?;
                if self.wd.res[*res].is_f() {
                    return Err("any");
                }
                if self.flags(*acct, *res) & FZ_WITHDRAW != 0 {
                    return Err("frozen");
                }
                let l = self.take_ids(v, ids)?;
                self.worktop_put_liquid(*res, l)
            }
            Take { res, amount } => {
                if *amount == 0 {
                    let l = self.empty_liquid(*res);
                    let c = self.new_cont(*res, l, None);
                    self.name_bucket(c);
                    return Ok(());
                }
                let Some(&ex) = self.worktop.get(res) else { return Err("wt_insufficient") };
                let have = self.conts[ex].amount();
                if have < *amount {
                    return Err("wt_insufficient");
                }
                if have == *amount {
                    self.worktop.remove(res);
                    self.name_bucket(ex);
                    self.exact_take_seen = true;
                    return Ok(());
                }
                let l = self.take_amount(ex, *amount)?;
                let c = self.new_cont(*res, l, None);
                self.name_bucket(c);
                Ok(())
            }
            TakeIds { res, ids } => {
                if ids.is_empty() {
                    let l = self.empty_liquid(*res);
                    let c = self.new_cont(*res, l, None);
                    self.name_bucket(c);
                    return Ok(());
                }
                let Some(&ex) = self.worktop.get(res) else { return Err("wt_insufficient") };
                if self.wd.res[*res].is_f() {
                    return Err("any");
                }
                let all = self.conts[ex].all_known_ids();
                if !ids.is_subset(&all) {
                    if self.conts[ex].anon() > 0 {
                        return Err(UNPREDICTABLE);
                    }
                    return Err("wt_insufficient");
                }
                if self.conts[ex].anon() == 0 && all.len() == ids.len() {
                    self.worktop.remove(res);
                    self.name_bucket(ex);
                    self.exact_take_seen = true;
                    return Ok(());
                }
                let l = self.take_ids(ex, ids)?;
                let c = self.new_cont(*res, l, None);
                self.name_bucket(c);
                Ok(())
            }
            TakeAll { res } => {
                let c = match self.worktop.remove(res) {
                    Some(c) => c,
                    None => {
                        let l = self.empty_liquid(*res);
                        self.new_cont(*res, l, None)
                    }
                };
                self.name_bucket(c);
                Ok(())
            }
            Return { b } => {
                let c = self.buckets.remove(b).ok_or("nobucket")?;
                self.worktop_put(c)
            }
            AssertAmount { res, amount } => {
                let have = self.worktop.get(res).map(|c| self.conts[*c].amount()).unwrap_or(0);
                if have < *amount {
                    Err("assertion")
                } else {
                    Ok(())
                }
            }
            AssertIds { res, ids } => {
                let Some(&c) = self.worktop.get(res) else {
                    return if ids.is_empty() { Ok(()) } else { Err("assertion") };
                };
                if self.wd.res[*res].is_f() {
                    return Err("any");
                }
                if ids.is_subset(&self.conts[c].all_known_ids()) {
                    Ok(())
                } else if self.conts[c].anon() > 0 {
                    Err(UNPREDICTABLE)
                } else {
                    Err("assertion")
                }
            }
            AssertAny { res } => {
                let have = self.worktop.get(res).map(|c| self.conts[*c].amount()).unwrap_or(0);
                if have == 0 {
                    Err("assertion")
                } else {
                    Ok(())
                }
            }
            BurnBucket { b } => {
                let c = self.buckets.remove(b).ok_or("nobucket")?;
                let res = self.conts[c].res;
                if !self.gate_ok(self.wd.res[res].burn) {
                    return Err("auth");
                }
                if self.conts[c].locked() {
                    self.note_outflow(c);
                    return Err("locked");
                }
                let l = std::mem::replace(&mut self.conts[c].liquid, Liquid::F(0));
                self.note_burn(res, &l);
                Ok(())
            }
            AccountBurn { acct, res, amount } => {
                if !self.owner_ok(*acct) {
                    return Err("auth");
                }
                let v = self.vault(*acct, *res, false).ok_or("novault")?;
                if !self.gate_ok(self.wd.res[*res].burn) {
                    return Err("auth");
                }
                if self.flags(*acct, *res) & (FZ_BURN | FZ_WITHDRAW) != 0 {
                    return Err("frozen");
                }
                let l = self.take_amount(v, *amount)?;
                self.note_burn(*res, &l);
                Ok(())
            }
            AccountBurnIds { acct, res, ids } => {
                if !self.owner_ok(*acct) {
                    return Err("auth");
                }
                let v = self.vault(*acct, *res, false).ok_or("novault")?;
                if self.wd.res[*res].is_f() {
                    return Err("any");
                }
                if !self.gate_ok(self.wd.res[*res].burn) {
                    return Err("auth");
                }
                if self.flags(*acct, *res) & (FZ_BURN | FZ_WITHDRAW) != 0 {
                    return Err("frozen");
                }
                let l = self.take_ids(v, ids)?;
                self.note_burn(*res, &l);
                Ok(())
            }
            MintF { res, amount } => {
                if !self.wd.res[*res].is_f() {
                    return Err("any");
                }
                if !self.gate_ok(self.wd.res[*res].mint) {
                    return Err("auth");
                }
                if !self.on_grid(*res, *amount) {
                    return Err("invalid_amount");
                }
                let l = Liquid::F(*amount);
                self.note_mint(*res, &l);
                self.worktop_put_liquid(*res, l)
            }
            MintN { res, ids } => {
                if self.wd.res[*res].is_f() {
                    return Err("any");
                }
                if !self.gate_ok(self.wd.res[*res].mint) {
                    return Err("auth");
                }
                if matches!(self.wd.res[*res].kind, Kind::N { id_type: NonFungibleIdType::RUID }) {
                    return Err("any");
                }
                for id in ids {
                    if !self.id_matches(*res, id) {
                        return Err("any");
                    }
                }
                for id in ids {
                    if self.id_in_use(*res, id) {
                        return Err("exists");
                    }
                }
                let l = Liquid::N(NfHold { known: ids.clone(), anon: 0 });
                self.note_mint(*res, &l);
                self.worktop_put_liquid(*res, l)
            }
            MintRuid { res, n } => {
                if self.wd.res[*res].is_f() {
                    return Err("any");
                }
                if !self.gate_ok(self.wd.res[*res].mint) {
                    return Err("auth");
                }
                if !matches!(self.wd.res[*res].kind, Kind::N { id_type: NonFungibleIdType::RUID }) {
                    return Err("any");
                }
                let l = Liquid::N(NfHold { known: Ids::new(), anon: *n });
                self.note_mint(*res, &l);
                self.worktop_put_liquid(*res, l)
            }
            Recall { acct, res, amount } => {
                let v = self.vault(*acct, *res, false).ok_or("novault")?;
                if !self.gate_ok(self.wd.res[*res].recall) {
                    return Err("auth");
                }
                let l = self.take_amount(v, *amount)?;
                self.worktop_put_liquid(*res, l)
            }
            RecallIds { acct, res, ids } => {
                let v = self.vault(*acct, *res, false).ok_or("novault")?;
                if self.wd.res[*res].is_f() {
                    return Err("any");
                }
                if !self.gate_ok(self.wd.res[*res].recall) {
                    return Err("auth");
                }
                let l = self.take_ids(v, ids)?;
                self.worktop_put_liquid(*res, l)
            }
            Freeze { acct, res, flags } => {
                self.vault(*acct, *res, false).ok_or("novault")?;
                if !self.gate_ok(self.wd.res[*res].freeze) {
                    return Err("auth");
                }
                *self.frozen.entry((*acct, *res)).or_insert(0) |= flags;
                Ok(())
            }
            Unfreeze { acct, res, flags } => {
                self.vault(*acct, *res, false).ok_or("novault")?;
                if !self.gate_ok(self.wd.res[*res].freeze) {
                    return Err("auth");
                }
                *self.frozen.entry((*acct, *res)).or_insert(0) &= !flags;
                Ok(())
            }
            ProofFromBucketAmount { b, amount } => {
                let c = *self.buckets.get(b).ok_or("nobucket")?;
                let res = self.conts[c].res;
                if !self.wd.res[res].is_f() {
                    return Err("any");
                }
                if !self.on_grid(res, *amount) {
                    return Err("invalid_amount");
                }
                self.lock_f(c, *amount)?;
                if *amount == 0 {
                    return Err("emptyproof");
                }
                self.name_proof(ProofM { res, evidence: vec![(c, PAmt::F(*amount))], total: PAmt::F(*amount) });
                Ok(())
            }
            ProofFromBucketIds { b, ids } => {
                let c = *self.buckets.get(b).ok_or("nobucket")?;
                let res = self.conts[c].res;
                if self.wd.res[res].is_f() {
                    return Err("any");
                }
                self.lock_n(c, ids)?;
                if ids.is_empty() {
                    return Err("emptyproof");
                }
                self.name_proof(ProofM { res, evidence: vec![(c, PAmt::N(ids.clone()))], total: PAmt::N(ids.clone()) });
                Ok(())
            }
            ProofFromBucketAll { b } => {
                let c = *self.buckets.get(b).ok_or("nobucket")?;
                let res = self.conts[c].res;
                if self.wd.res[res].is_f() {
                    let amount = self.conts[c].amount();
                    self.lock_f(c, amount)?;
                    if amount == 0 {
                        return Err("emptyproof");
                    }
                    self.name_proof(ProofM { res, evidence: vec![(c, PAmt::F(amount))], total: PAmt::F(amount) });
                } else {
                    if self.conts[c].anon() > 0 {
                        return Err(UNPREDICTABLE);
                    }
                    let ids = self.conts[c].all_known_ids();
                    self.lock_n(c, &ids)?;
                    if ids.is_empty() {
                        return Err("emptyproof");
                    }
                    self.name_proof(ProofM { res, evidence: vec![(c, PAmt::N(ids.clone()))], total: PAmt::N(ids) });
                }
                Ok(())
            }
            AccountProofAmount { acct, res, amount } => {
                if !self.owner_ok(*acct) {
                    return Err("auth");
                }
                let c = self.vault(*acct, *res, false).ok_or("novault")?;
                if !self.wd.res[*res].is_f() {
                    return Err("any");
                }
                if !self.on_grid(*res, *amount) {
                    return Err("invalid_amount");
                }
                self.lock_f(c, *amount)?;
                if *amount == 0 {
                    return Err("emptyproof");
                }
                self.zone.push(ProofM { res: *res, evidence: vec![(c, PAmt::F(*amount))], total: PAmt::F(*amount) });
                self.max_live_proofs = self.max_live_proofs.max(self.live_proofs());
                Ok(())
            }
            AccountProofIds { acct, res, ids } => {
                if !self.owner_ok(*acct) {
                    return Err("auth");
                }
                let c = self.vault(*acct, *res, false).ok_or("novault")?;
                if self.wd.res[*res].is_f() {
                    return Err("any");
                }
                self.lock_n(c, ids)?;
                if ids.is_empty() {
                    return Err("emptyproof");
                }
                self.zone.push(ProofM { res: *res, evidence: vec![(c, PAmt::N(ids.clone()))], total: PAmt::N(ids.clone()) });
                self.max_live_proofs = self.max_live_proofs.max(self.live_proofs());
                Ok(())
            }
            ZoneProofAmount { res, amount } => {
                if self.wd.res[*res].is_f() {
                    if !self.on_grid(*res, *amount) {
                        return Err("invalid_amount");
                    }
                    let p = self.compose_f(*res, Some(*amount))?;
                    self.name_proof(p);
                    Ok(())
                } else {
                    if *amount < 0 || *amount % ONE != 0 {
                        return Err("invalid_amount");
                    }
                    let n = (*amount / ONE) as usize;
                    let total: Ids = self
                        .zone
                        .iter()
                        .filter(|p| p.res == *res)
                        .flat_map(|p| p.evidence.iter())
                        .filter_map(|(_, a)| if let PAmt::N(i) = a { Some(i.iter().cloned()) } else { None })
                        .flatten()
                        .collect();
                    if n > total.len() {
                        return Err("insufficient_proofs");
                    }
                    if n != 0 && n != total.len() {
                        return Err(UNPREDICTABLE);
                    }
                    let want = if n == 0 { Ids::new() } else { total };
                    let p = self.compose_n(*res, Some(want))?;
                    self.name_proof(p);
                    Ok(())
                }
            }
            ZoneProofIds { res, ids } => {
                if self.wd.res[*res].is_f() {
                    return Err("any");
                }
                let p = self.compose_n(*res, Some(ids.clone()))?;
                self.name_proof(p);
                Ok(())
            }
            ZoneProofAll { res } => {
                let p = if self.wd.res[*res].is_f() { self.compose_f(*res, None)? } else { self.compose_n(*res, None)? };
                self.name_proof(p);
                Ok(())
            }
            CloneProof { p } => {
                let pr = self.proofs.get(p).cloned().ok_or("noproof")?;
                let cl = self.clone_proof(&pr)?;
                self.name_proof(cl);
                Ok(())
            }
            DropProof { p } => {
                let pr = self.proofs.remove(p).ok_or("noproof")?;
                self.drop_proof(pr);
                Ok(())
            }
            Push { p } => {
                let pr = self.proofs.remove(p).ok_or("noproof")?;
                self.zone.push(pr);
                Ok(())
            }
            Pop => {
                let pr = self.zone.pop().ok_or("zone_empty")?;
                self.name_proof(pr);
                Ok(())
            }
            DropZoneAll => {
                self.sig_alive = false;
                for p in std::mem::take(&mut self.zone) {
                    self.drop_proof(p);
                }
                Ok(())
            }
            DropZoneRegular => {
                for p in std::mem::take(&mut self.zone) {
                    self.drop_proof(p);
                }
                Ok(())
            }
            DropZoneSignatures => {
                self.sig_alive = false;
                Ok(())
            }
            DropNamedProofs => {
                for (_, p) in std::mem::take(&mut self.proofs) {
                    self.drop_proof(p);
                }
                Ok(())
            }
            DropAllProofs => {
                for (_, p) in std::mem::take(&mut self.proofs) {
                    self.drop_proof(p);
                }
                self.sig_alive = false;
                for p in std::mem::take(&mut self.zone) {
                    self.drop_proof(p);
                }
                Ok(())
            }
            Deposit { acct, b } => {
                let c = self.buckets.remove(b).ok_or("nobucket")?;
                if !self.owner_ok(*acct) {
                    return Err("auth");
                }
                self.vault_put(*acct, c)
            }
            TryDeposit { acct, b } => {
                let c = self.buckets.remove(b).ok_or("nobucket")?;
                self.vault_put(*acct, c)
            }
            DepositBatch { acct, bs } => {
                let mut cs = vec![];
                for b in bs {
                    cs.push(self.buckets.remove(b).ok_or("nobucket")?);
                }
                if !self.owner_ok(*acct) {
                    return Err("auth");
                }
                for c in cs {
                    self.vault_put(*acct, c)?;
                }
                Ok(())
            }
            DepositWorktop { acct, try_ } => {
                let cs: Vec<usize> = std::mem::take(&mut self.worktop).into_values().collect();
                if !*try_ && !self.owner_ok(*acct) {
                    return Err("auth");
                }
                // the engine deposits in worktop order; any failing bucket fails the call
                let mut err = None;
                for c in cs {
                    if let Err(e) = self.vault_put(*acct, c) {
                        err = Some(e);
                    }
                }
                match err {
                    Some(_) => Err("deposit"),
                    None => Ok(()),
                }
            }
        }
    }

    fn lock_fee(&mut self, acct: usize, amount: A, contingent: bool) -> Result<(), Why> {
        if !self.owner_ok(acct) {
            return Err("auth");
        }
        let v = self.vault(acct, XRD_R, false).ok_or("novault")?;
        if self.flags(acct, XRD_R) & FZ_WITHDRAW != 0 {
            return Err("frozen");
        }
        if amount < 0 {
            return Err("invalid_amount");
        }
        if self.conts[v].written {
            return Err("fee_touched");
        }
        let Liquid::F(l) = &mut self.conts[v].liquid else { unreachable!() };
        if *l < amount {
            return Err("insufficient");
        }
        *l -= amount;
        self.conts[v].written = true;
        *self.fee_locked.entry(acct).or_insert(0) += amount;
        if !contingent && amount >= 20 * ONE {
            self.fee_ok = true;
        }
        Ok(())
    }

    /// End of the manifest: the worktop must be empty and unlocked, no named bucket may remain.
    pub fn finish(&mut self) -> Result<(), Why> {
        if !self.worktop.is_empty() {
            return Err("leftover_worktop");
        }
        if !self.buckets.is_empty() {
            return Err("orphan");
        }
        for (_, p) in std::mem::take(&mut self.proofs) {
            self.drop_proof(p);
        }
        for p in std::mem::take(&mut self.zone) {
            self.drop_proof(p);
        }
        for (acct, a) in std::mem::take(&mut self.fee_locked) {
            let v = self.vault(acct, XRD_R, false).unwrap();
            if let Liquid::F(l) = &mut self.conts[v].liquid {
                *l += a;
            }
        }
        Ok(())
    }
}

/// Substrings of the engine's error (Debug rendering) that are compatible with a predicted reason.
pub fn acceptable_errors(why: Why) -> &'static [&'static str] {
    match why {
        "auth" => &["AuthError"],
        "novault" => &["VaultDoesNotExist"],
        "frozen" => &["VaultIsFrozen"],
        "invalid_amount" => &["InvalidAmount"],
        "insufficient" => &["InsufficientBalance", "NotEnoughAmount", "MissingId", "MissingNonFungibleLocalId"],
        "wt_insufficient" => &["WorktopError(InsufficientBalance"],
        "assertion" => &["AssertionFailed"],
        "nobucket" => &["BucketNotFound"],
        "noproof" => &["ProofNotFound"],
        "zone_empty" => &["AuthZoneIsEmpty"],
        "locked" => &["Locked", "NodeBorrowed"],
        "fee_touched" => &["LockUnmodifiedBaseOnOnUpdatedSubstate"],
        // an id burnt before (in this or an earlier transaction) has a locked data entry
        "exists" => &["NonFungibleAlreadyExists", "KeyValueEntryLocked"],
        "emptyproof" => &["EmptyProofNotAllowed"],
        "insufficient_proofs" => &["InsufficientBaseProofs"],
        "leftover_worktop" => &["DropNonEmptyBucket", "Locked", "NodeBorrowed"],
        "orphan" => &["NodeOrphaned", "OrphanedNodes"],
        "deposit" => &["VaultIsFrozen", "Locked", "NodeBorrowed"],
        _ => &[],
    }
}
