//! Manifest value generator (DESIGN R3(a), manifest flavour): well-formed `ManifestValue` trees of
//! every kind — scalars at their limits, odd strings, nested enums / maps / arrays, custom kinds.
//! "Well-formed" = what `manifest_decode` can produce: array elements and map keys/values have the
//! declared kind, custom values are internally valid (entity type bytes, id charsets and lengths).
//!
//! Values that carry manifest lifecycle meaning (buckets, proofs, address reservations) are never
//! invented here; the manifest generator plants them itself. Named addresses and blob references
//! are only drawn from what the caller says exists.

use radix_common::prelude::*;
use radix_transactions::data::{from_decimal, from_non_fungible_local_id, from_precise_decimal};
use vf_core::Gen;
use vf_math::refdec::{big_to_dec, big_to_pdec, gen_value as gen_big, DEC, PDEC};

/// What a filler value may refer to.
#[derive(Clone, Default)]
pub struct ValueCtx {
    /// Number of named addresses that exist at this point.
    pub named_addresses: u32,
    /// Declared blobs.
    pub blobs: Vec<[u8; 32]>,
}

#[derive(Clone, Default, Debug)]
pub struct ValueStats {
    pub max_depth: usize,
    pub escape_strings: usize,
    pub non_bmp: usize,
    pub custom_leaves: usize,
    pub containers: usize,
}

pub const GLOBAL_ENTITY_TYPES: &[EntityType] = &[
    EntityType::GlobalAccount,
    EntityType::GlobalGenericComponent,
    EntityType::GlobalPackage,
    EntityType::GlobalFungibleResourceManager,
    EntityType::GlobalNonFungibleResourceManager,
    EntityType::GlobalConsensusManager,
    EntityType::GlobalValidator,
    EntityType::GlobalTransactionTracker,
    EntityType::GlobalIdentity,
    EntityType::GlobalAccessController,
    EntityType::GlobalOneResourcePool,
    EntityType::GlobalTwoResourcePool,
    EntityType::GlobalMultiResourcePool,
    EntityType::GlobalAccountLocker,
    EntityType::GlobalPreallocatedSecp256k1Account,
    EntityType::GlobalPreallocatedSecp256k1Identity,
    EntityType::GlobalPreallocatedEd25519Account,
    EntityType::GlobalPreallocatedEd25519Identity,
];
pub const INTERNAL_ENTITY_TYPES: &[EntityType] = &[
    EntityType::InternalFungibleVault,
    EntityType::InternalNonFungibleVault,
    EntityType::InternalGenericComponent,
    EntityType::InternalKeyValueStore,
];

/// 30 raw bytes with the given entity type.
pub fn gen_node_bytes(g: &mut Gen, et: EntityType) -> [u8; NodeId::LENGTH] {
    let mut raw: [u8; NodeId::LENGTH];
    match g.weighted(&[3, 2, 4]) {
        0 => {
            let f = *g.pick(&[0x00u8, 0x01, 0x7f, 0xff]);
            raw = [f; NodeId::LENGTH];
        }
        1 => {
            // a well-known address of that type when there is one
            let known: Vec<NodeId> = vec![
                XRD.into_node_id(),
                SECP256K1_SIGNATURE_RESOURCE.into_node_id(),
                PACKAGE_OF_DIRECT_CALLER_RESOURCE.into_node_id(),
                PACKAGE_PACKAGE.into_node_id(),
                RESOURCE_PACKAGE.into_node_id(),
                ACCOUNT_PACKAGE.into_node_id(),
                IDENTITY_PACKAGE.into_node_id(),
                ACCESS_CONTROLLER_PACKAGE.into_node_id(),
                FAUCET_PACKAGE.into_node_id(),
                CONSENSUS_MANAGER.into_node_id(),
                FAUCET.into_node_id(),
                TRANSACTION_TRACKER.into_node_id(),
            ];
            let same: Vec<&NodeId> = known.iter().filter(|n| n.0[0] == et as u8).collect();
            if !same.is_empty() {
                return g.pick(&same).0;
            }
            raw = g.array();
        }
        _ => raw = g.array(),
    }
    raw[0] = et as u8;
    raw
}

pub fn gen_global_address(g: &mut Gen) -> GlobalAddress {
    let et = *g.pick(GLOBAL_ENTITY_TYPES);
    GlobalAddress::new_or_panic(gen_node_bytes(g, et))
}
pub fn gen_component_like_address(g: &mut Gen) -> GlobalAddress {
    gen_global_address(g)
}
pub fn gen_package_address(g: &mut Gen) -> PackageAddress {
    PackageAddress::new_or_panic(gen_node_bytes(g, EntityType::GlobalPackage))
}
pub fn gen_resource_address(g: &mut Gen, fungible: bool) -> ResourceAddress {
    let et = if fungible { EntityType::GlobalFungibleResourceManager } else { EntityType::GlobalNonFungibleResourceManager };
    ResourceAddress::new_or_panic(gen_node_bytes(g, et))
}
pub fn gen_internal_address(g: &mut Gen) -> InternalAddress {
    let et = *g.pick(INTERNAL_ENTITY_TYPES);
    InternalAddress::new_or_panic(gen_node_bytes(g, et))
}
pub fn gen_any_node(g: &mut Gen) -> NodeId {
    if g.chance(1, 5) {
        gen_internal_address(g).into_node_id()
    } else {
        gen_global_address(g).into_node_id()
    }
}

const ID_CHARS: &[u8] = b"abcXYZ019_";

pub fn gen_local_id(g: &mut Gen) -> NonFungibleLocalId {
    match g.weighted(&[3, 3, 2, 2]) {
        0 => NonFungibleLocalId::integer(match g.below(5) {
            0 => 0,
            1 => 1,
            2 => u64::MAX,
            3 => g.below(1000),
            _ => g.u64(),
        }),
        1 => {
            let n = *g.pick(&[1usize, 2, 5, 63, 64]);
            let s: String = (0..n).map(|_| *g.pick(ID_CHARS) as char).collect();
            NonFungibleLocalId::string(s).unwrap()
        }
        2 => {
            let n = *g.pick(&[1usize, 2, 32, 64]);
            NonFungibleLocalId::bytes(g.bytes(n)).unwrap()
        }
        _ => NonFungibleLocalId::ruid(g.array()),
    }
}

/// Characters that exercise the string escaper and the lexer: quotes, backslashes, the JSON short
/// escapes, other control characters, DEL, characters Rust's Debug escapes (format controls such as
/// RTL override, combining marks, unassigned / private-use, BOM), surrogate-adjacent code points,
/// non-BMP characters, and text that *looks like* an escape.
const ODD_CHARS: &[char] = &[
    '"', '\\', '\n', '\r', '\t', '\u{8}', '\u{c}', '/', '\0', '\u{1}', '\u{1b}', '\u{7f}', '\u{80}', '\u{85}', '\u{a0}', '\u{ad}',
    '\u{301}', '\u{200b}', '\u{202e}', '\u{2028}', '\u{feff}', '\u{d7ff}', '\u{e000}', '\u{fffd}', '\u{ffff}', '\u{10000}', '\u{1f600}',
    '\u{e0001}', '\u{10ffff}', 'é', 'ß', '中', '#', ';', '(', ')', '<', '>', ',', '=', ' ', '\'',
];
const ODD_WORDS: &[&str] = &["\\u0041", "\\n", "\\\"", "\\u{1F600}", "\\ud83d\\ude00", "Bucket(\"x\")", "# comment", "\r\n", "u8", "-1i8", "=>"];

pub fn needs_escape(s: &str) -> bool {
    s.chars().any(|c| c == '"' || c == '\\' || (c as u32) < 0x20 || (c as u32) >= 0x7f)
}

pub fn gen_string(g: &mut Gen, stats: &mut ValueStats) -> String {
    let s: String = match g.weighted(&[2, 4, 5, 1, 1]) {
        0 => String::new(),
        1 => {
            let n = g.len(12);
            (0..n).map(|_| (b'a' + g.below(26) as u8) as char).collect()
        }
        2 => {
            let n = 1 + g.len(10);
            let mut s = String::new();
            for _ in 0..n {
                match g.weighted(&[4, 6, 2, 1]) {
                    0 => s.push((b'a' + g.below(26) as u8) as char),
                    1 => s.push(*g.pick(ODD_CHARS)),
                    2 => s.push_str(*g.pick(ODD_WORDS)),
                    _ => {
                        // any scalar value
                        let cp = g.below(0x110000) as u32;
                        s.push(char::from_u32(cp).unwrap_or('\u{fffd}'));
                    }
                }
            }
            s
        }
        3 => {
            // long
            let n = *g.pick(&[127usize, 128, 300]);
            let c = *g.pick(&['a', '"', 'é', '\u{1f600}']);
            std::iter::repeat(c).take(n).collect()
        }
        _ => String::from_utf8_lossy(&g.blob(16)).into_owned(),
    };
    if needs_escape(&s) {
        stats.escape_strings += 1;
    }
    if s.chars().any(|c| (c as u32) > 0xffff) {
        stats.non_bmp += 1;
    }
    s
}

fn int_pick<T: Copy>(g: &mut Gen, specials: &[T], random: impl FnOnce(&mut Gen) -> T) -> T {
    if g.chance(3, 5) {
        *g.pick(specials)
    } else {
        random(g)
    }
}

pub const SCALAR_KINDS: &[ManifestValueKind] = &[
    ValueKind::Bool,
    ValueKind::I8,
    ValueKind::I16,
    ValueKind::I32,
    ValueKind::I64,
    ValueKind::I128,
    ValueKind::U8,
    ValueKind::U16,
    ValueKind::U32,
    ValueKind::U64,
    ValueKind::U128,
    ValueKind::String,
];
pub const CONTAINER_KINDS: &[ManifestValueKind] = &[ValueKind::Enum, ValueKind::Array, ValueKind::Tuple, ValueKind::Map];
pub const CUSTOM_KINDS: &[ManifestCustomValueKind] = &[
    ManifestCustomValueKind::Address,
    ManifestCustomValueKind::Decimal,
    ManifestCustomValueKind::PreciseDecimal,
    ManifestCustomValueKind::NonFungibleLocalId,
    ManifestCustomValueKind::Expression,
    ManifestCustomValueKind::Blob,
    ManifestCustomValueKind::Bucket,
    ManifestCustomValueKind::Proof,
    ManifestCustomValueKind::AddressReservation,
];

pub fn gen_kind(g: &mut Gen, depth_left: usize) -> ManifestValueKind {
    match g.weighted(&[5, if depth_left > 0 { 5 } else { 0 }, 4]) {
        0 => *g.pick(SCALAR_KINDS),
        1 => *g.pick(CONTAINER_KINDS),
        _ => ValueKind::Custom(*g.pick(CUSTOM_KINDS)),
    }
}

/// Can the filler produce at least one value of this kind in this context?
fn inhabitable(kind: &ManifestValueKind, ctx: &ValueCtx) -> bool {
    match kind {
        ValueKind::Custom(ManifestCustomValueKind::Bucket) | ValueKind::Custom(ManifestCustomValueKind::Proof) | ValueKind::Custom(ManifestCustomValueKind::AddressReservation) => false,
        ValueKind::Custom(ManifestCustomValueKind::Blob) => !ctx.blobs.is_empty(),
        _ => true,
    }
}

pub fn custom(v: ManifestCustomValue) -> ManifestValue {
    Value::Custom { value: v }
}

/// A value of exactly the requested kind. `depth_left` bounds further nesting (0 = leaf or empty container).
pub fn gen_of_kind(g: &mut Gen, kind: &ManifestValueKind, depth_left: usize, ctx: &ValueCtx, stats: &mut ValueStats) -> ManifestValue {
    match kind {
        ValueKind::Bool => Value::Bool { value: g.bool() },
        ValueKind::I8 => Value::I8 { value: int_pick(g, &[0, 1, -1, i8::MIN, i8::MAX], |g| g.u8() as i8) },
        ValueKind::I16 => Value::I16 { value: int_pick(g, &[0, 1, -1, i16::MIN, i16::MAX], |g| g.u16() as i16) },
        ValueKind::I32 => Value::I32 { value: int_pick(g, &[0, 1, -1, i32::MIN, i32::MAX], |g| g.u32() as i32) },
        ValueKind::I64 => Value::I64 { value: int_pick(g, &[0, 1, -1, i64::MIN, i64::MAX], |g| g.u64() as i64) },
        ValueKind::I128 => Value::I128 { value: int_pick(g, &[0, 1, -1, i128::MIN, i128::MAX], |g| g.u128() as i128) },
        ValueKind::U8 => Value::U8 { value: int_pick(g, &[0, 1, u8::MAX], |g| g.u8()) },
        ValueKind::U16 => Value::U16 { value: int_pick(g, &[0, 1, u16::MAX], |g| g.u16()) },
        ValueKind::U32 => Value::U32 { value: int_pick(g, &[0, 1, u32::MAX], |g| g.u32()) },
        ValueKind::U64 => Value::U64 { value: int_pick(g, &[0, 1, u64::MAX], |g| g.u64()) },
        ValueKind::U128 => Value::U128 { value: int_pick(g, &[0, 1, u128::MAX], |g| g.u128()) },
        ValueKind::String => Value::String { value: gen_string(g, stats) },
        ValueKind::Enum => {
            stats.containers += 1;
            let discriminator = int_pick(g, &[0u8, 1, 2, 255], |g| g.u8());
            let n = if depth_left == 0 { 0 } else { g.len(3) };
            let fields = (0..n).map(|_| gen_value(g, depth_left - 1, ctx, stats)).collect();
            Value::Enum { discriminator, fields }
        }
        ValueKind::Tuple => {
            stats.containers += 1;
            let n = if depth_left == 0 { 0 } else { g.len(4) };
            let fields = (0..n).map(|_| gen_value(g, depth_left - 1, ctx, stats)).collect();
            Value::Tuple { fields }
        }
        ValueKind::Array => {
            stats.containers += 1;
            let ek = gen_kind(g, depth_left.saturating_sub(1));
            let n = if depth_left == 0 || !inhabitable(&ek, ctx) {
                0
            } else if ek == ValueKind::U8 {
                // Bytes(...)
                *g.pick(&[0usize, 1, 2, 31, 32, 33])
            } else {
                g.len(4)
            };
            let elements = (0..n).map(|_| gen_of_kind(g, &ek, depth_left - 1, ctx, stats)).collect();
            Value::Array { element_value_kind: ek, elements }
        }
        ValueKind::Map => {
            stats.containers += 1;
            let kk = gen_kind(g, depth_left.saturating_sub(1));
            let vk = gen_kind(g, depth_left.saturating_sub(1));
            let n = if depth_left == 0 || !inhabitable(&kk, ctx) || !inhabitable(&vk, ctx) { 0 } else { g.len(3) };
            let entries = (0..n).map(|_| (gen_of_kind(g, &kk, depth_left - 1, ctx, stats), gen_of_kind(g, &vk, depth_left - 1, ctx, stats))).collect();
            Value::Map { key_value_kind: kk, value_value_kind: vk, entries }
        }
        ValueKind::Custom(ck) => {
            stats.custom_leaves += 1;
            custom(match ck {
                ManifestCustomValueKind::Address => {
                    if ctx.named_addresses > 0 && g.chance(1, 4) {
                        ManifestCustomValue::Address(ManifestAddress::Named(ManifestNamedAddress(g.below(ctx.named_addresses as u64) as u32)))
                    } else {
                        ManifestCustomValue::Address(ManifestAddress::Static(gen_any_node(g)))
                    }
                }
                ManifestCustomValueKind::Decimal => ManifestCustomValue::Decimal(from_decimal(big_to_dec(&gen_big(g, DEC)))),
                ManifestCustomValueKind::PreciseDecimal => ManifestCustomValue::PreciseDecimal(from_precise_decimal(big_to_pdec(&gen_big(g, PDEC)))),
                ManifestCustomValueKind::NonFungibleLocalId => ManifestCustomValue::NonFungibleLocalId(from_non_fungible_local_id(gen_local_id(g))),
                ManifestCustomValueKind::Expression => ManifestCustomValue::Expression(if g.bool() { ManifestExpression::EntireAuthZone } else { ManifestExpression::EntireWorktop }),
                ManifestCustomValueKind::Blob => ManifestCustomValue::Blob(ManifestBlobRef(*g.pick(&ctx.blobs))),
                ManifestCustomValueKind::Bucket | ManifestCustomValueKind::Proof | ManifestCustomValueKind::AddressReservation => {
                    unreachable!("lifecycle values are planted by the manifest generator")
                }
            })
        }
    }
}

pub fn gen_decimal(g: &mut Gen) -> Decimal {
    big_to_dec(&gen_big(g, DEC))
}

/// Any filler value.
pub fn gen_value(g: &mut Gen, depth_left: usize, ctx: &ValueCtx, stats: &mut ValueStats) -> ManifestValue {
    for _ in 0..4 {
        let k = gen_kind(g, depth_left);
        if inhabitable(&k, ctx) {
            return gen_of_kind(g, &k, depth_left, ctx, stats);
        }
    }
    Value::Tuple { fields: vec![] }
}

/// Special shape: `Tuple(Address(resource), NonFungibleLocalId)` prints as `NonFungibleGlobalId("..")`.
pub fn gen_global_id_tuple(g: &mut Gen) -> ManifestValue {
    let fungible = g.chance(1, 4);
    Value::Tuple {
        fields: vec![
            custom(ManifestCustomValue::Address(ManifestAddress::Static(gen_resource_address(g, fungible).into_node_id()))),
            custom(ManifestCustomValue::NonFungibleLocalId(from_non_fungible_local_id(gen_local_id(g)))),
        ],
    }
}

/// Wrap `inner` in `levels` single-child containers (tuples, enums, arrays, map values).
pub fn nest(g: &mut Gen, mut inner: ManifestValue, levels: usize) -> ManifestValue {
    for _ in 0..levels {
        inner = match g.below(5) {
            0 => Value::Tuple { fields: vec![inner] },
            1 => Value::Enum { discriminator: g.below(3) as u8, fields: vec![inner] },
            2 => Value::Array { element_value_kind: kind_of(&inner), elements: vec![inner] },
            3 => Value::Map { key_value_kind: ValueKind::U8, value_value_kind: kind_of(&inner), entries: vec![(Value::U8 { value: 0 }, inner)] },
            _ => Value::Tuple { fields: vec![Value::Bool { value: true }, inner] },
        };
    }
    inner
}

pub fn kind_of(v: &ManifestValue) -> ManifestValueKind {
    match v {
        Value::Bool { .. } => ValueKind::Bool,
        Value::I8 { .. } => ValueKind::I8,
        Value::I16 { .. } => ValueKind::I16,
        Value::I32 { .. } => ValueKind::I32,
        Value::I64 { .. } => ValueKind::I64,
        Value::I128 { .. } => ValueKind::I128,
        Value::U8 { .. } => ValueKind::U8,
        Value::U16 { .. } => ValueKind::U16,
        Value::U32 { .. } => ValueKind::U32,
        Value::U64 { .. } => ValueKind::U64,
        Value::U128 { .. } => ValueKind::U128,
        Value::String { .. } => ValueKind::String,
        Value::Enum { .. } => ValueKind::Enum,
        Value::Array { .. } => ValueKind::Array,
        Value::Tuple { .. } => ValueKind::Tuple,
        Value::Map { .. } => ValueKind::Map,
        Value::Custom { value } => ValueKind::Custom(match value {
            ManifestCustomValue::Address(_) => ManifestCustomValueKind::Address,
            ManifestCustomValue::Bucket(_) => ManifestCustomValueKind::Bucket,
            ManifestCustomValue::Proof(_) => ManifestCustomValueKind::Proof,
            ManifestCustomValue::Expression(_) => ManifestCustomValueKind::Expression,
            ManifestCustomValue::Blob(_) => ManifestCustomValueKind::Blob,
            ManifestCustomValue::Decimal(_) => ManifestCustomValueKind::Decimal,
            ManifestCustomValue::PreciseDecimal(_) => ManifestCustomValueKind::PreciseDecimal,
            ManifestCustomValue::NonFungibleLocalId(_) => ManifestCustomValueKind::NonFungibleLocalId,
            ManifestCustomValue::AddressReservation(_) => ManifestCustomValueKind::AddressReservation,
        }),
    }
}

/// Depth of a value tree (a scalar is 1).
pub fn depth_of(v: &ManifestValue) -> usize {
    match v {
        Value::Enum { fields, .. } | Value::Tuple { fields } => 1 + fields.iter().map(depth_of).max().unwrap_or(0),
        Value::Array { elements, .. } => 1 + elements.iter().map(depth_of).max().unwrap_or(0),
        Value::Map { entries, .. } => 1 + entries.iter().map(|(k, v)| depth_of(k).max(depth_of(v))).max().unwrap_or(0),
        _ => 1,
    }
}
