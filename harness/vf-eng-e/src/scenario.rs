//! Hand-written scenario used while repairing the auth-zone composition trap (C11 finding):
//! `vf-eng-e authzone-scenario` prints what is composed from a zone holding proofs of both kinds.

use crate::env::*;
use scrypto_test::prelude::*;
use std::rc::Rc;
use vf_eng_c::pup::{enc, marker, script_manifest_args, v_own_lit, v_tuple};
use vf_world::*;

pub fn authzone_scenario() {
    with_world(WORLD_KEY, no_genesis, build, |w| {
        let ext = w.ext::<Rc<Ext>>().clone();
        let a0 = w.accounts[0].address;
        let badge = w.badge;
        let id = ext.validator_badge_id.clone();
        let t0 = Totals::scan(w.db());
        let (bal, _) = account_holding(&ext, &t0, 0, &badge);
        println!("account 0 holds {} badge", bal);
        // the puppet reads the three composed proofs
        let mut ops = vec![Op::Import(v_tuple(vec![v_own_lit(marker(1, 0)), v_own_lit(marker(1, 1)), v_own_lit(marker(1, 2)), v_own_lit(marker(1, 3))]))];
        for s in 0..4u8 {
            ops.push(Op::CallMethod { receiver: N::Slot(s), method: PROOF_GET_RESOURCE_ADDRESS_IDENT.into(), args: enc(&v_tuple(vec![])) });
            ops.push(Op::CallMethod { receiver: N::Slot(s), method: PROOF_GET_AMOUNT_IDENT.into(), args: enc(&v_tuple(vec![])) });
        }
        ops.push(Op::CallMethod { receiver: N::Slot(2), method: NON_FUNGIBLE_PROOF_GET_LOCAL_IDS_IDENT.into(), args: enc(&v_tuple(vec![])) });
        let manifest = ManifestBuilder::new()
            .lock_fee_from_faucet()
            .create_proof_from_account_of_amount(a0, badge, dec!(3))
            .create_proof_from_account_of_non_fungibles(a0, VALIDATOR_OWNER_BADGE, [id.clone()])
            .create_proof_from_account_of_amount(a0, badge, dec!(5))
            .create_proof_from_auth_zone_of_amount(badge, dec!(4), "p0")
            .create_proof_from_auth_zone_of_all(badge, "p1")
            .create_proof_from_auth_zone_of_all(VALIDATOR_OWNER_BADGE, "p2")
            .create_proof_from_auth_zone_of_non_fungibles(VALIDATOR_OWNER_BADGE, [id.clone()], "p3")
            .call_method_raw(ext.gp, PUPPET_PEEK, script_manifest_args(&Script(ops)))
            .drop_all_proofs()
            .build();
        let run = w.run(manifest, all_badges(w));
        println!("mixed zone: {}", run.outcome_string());
        if let Some(c) = run.commit() {
            if let TransactionOutcome::Success(outputs) = &c.outcome {
                println!("puppet output: {:?}", outputs.iter().rev().nth(1));
            }
        }
        // everything is unlocked again: the whole balance can be withdrawn in a later step of the same kind
        let manifest = ManifestBuilder::new()
            .lock_fee_from_faucet()
            .create_proof_from_account_of_amount(a0, badge, dec!(3))
            .create_proof_from_account_of_non_fungibles(a0, VALIDATOR_OWNER_BADGE, [id.clone()])
            .create_proof_from_auth_zone_of_amount(badge, dec!(2), "p0")
            .create_proof_from_auth_zone_of_all(VALIDATOR_OWNER_BADGE, "p2")
            .drop_named_proofs()
            .drop_auth_zone_regular_proofs()
            .withdraw_from_account(a0, badge, bal)
            .withdraw_non_fungibles_from_account(a0, VALIDATOR_OWNER_BADGE, [id.clone()])
            .deposit_entire_worktop(a0)
            .build();
        let run = w.run(manifest, all_badges(w));
        println!("compose, drop all, withdraw whole balance: {}", run.outcome_string());
        // while a composed proof lives, its share stays locked
        let manifest = ManifestBuilder::new()
            .lock_fee_from_faucet()
            .create_proof_from_account_of_amount(a0, badge, dec!(3))
            .create_proof_from_account_of_non_fungibles(a0, VALIDATOR_OWNER_BADGE, [id.clone()])
            .create_proof_from_auth_zone_of_amount(badge, dec!(2), "p0")
            .drop_auth_zone_regular_proofs()
            .withdraw_from_account(a0, badge, bal)
            .deposit_entire_worktop(a0)
            .build();
        let run = w.run(manifest, all_badges(w));
        println!("withdraw whole balance while a composed proof of 2 lives (must fail): {}", run.outcome_string().chars().take(200).collect::<String>());
        println!("supply problems: {:?}", Totals::scan(w.db()).supply_problems());
    });
}
