//! vf-wasm: the WASM sandbox checks — validation (C45), instrumentation (C46), host memory access
//! (C47) — and the WAT generator R8 (`watgen`).

pub mod c45;
pub mod c46;
pub mod c47;
pub mod inspect;
pub mod watgen;

pub use c45::c45_bytes_case;

pub fn checks() -> Vec<vf_core::Check> {
    vec![c45::check(), c46::check(), c47::check()]
}
