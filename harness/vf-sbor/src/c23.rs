//! C23 Schema compatibility checks are sound.

use crate::schemair::*;
use crate::typed::*;
use crate::wire::*;
use radix_common::data::manifest::ManifestCustomExtension;
use radix_common::data::scrypto::{ScryptoCustomExtension, ScryptoCustomSchema};
use radix_rust::rust::collections::index_map_new;
use sbor::*;
use std::sync::OnceLock;
use vf_core::{catch, Check, Gen, Outcome, Part};

/// How payloads relate to the verdict under the chosen settings.
#[derive(Clone, Copy, PartialEq, Eq, Debug)]
enum Guarantee {
    /// identical structure and validation required: both schemas accept the same payloads
    Equal,
    /// extension: payloads valid under the base stay valid
    OneWay,
}

struct SettingsChoice {
    name: &'static str,
    settings: SchemaComparisonSettings,
    guarantee: Guarantee,
}

fn settings_choices() -> &'static Vec<SettingsChoice> {
    static S: OnceLock<Vec<SettingsChoice>> = OnceLock::new();
    S.get_or_init(|| {
        vec![
            SettingsChoice { name: "allow_extension", settings: SchemaComparisonSettings::allow_extension(), guarantee: Guarantee::OneWay },
            SettingsChoice { name: "require_equality", settings: SchemaComparisonSettings::require_equality(), guarantee: Guarantee::Equal },
            SettingsChoice {
                name: "allow_extension + all name changes",
                settings: SchemaComparisonSettings::allow_extension().allow_all_name_changes(),
                guarantee: Guarantee::OneWay,
            },
            SettingsChoice {
                name: "require_equality + all name changes",
                settings: SchemaComparisonSettings::require_equality().allow_all_name_changes(),
                guarantee: Guarantee::Equal,
            },
            SettingsChoice {
                name: "allow_extension + adding names",
                settings: SchemaComparisonSettings::allow_extension().set_metadata(SchemaComparisonMetadataSettings::allow_adding_names()),
                guarantee: Guarantee::OneWay,
            },
            SettingsChoice {
                name: "allow_extension + roots need not cover schema",
                settings: SchemaComparisonSettings::allow_extension()
                    .set_completeness(SchemaComparisonCompletenessSettings::allow_type_roots_not_to_cover_schema()),
                guarantee: Guarantee::OneWay,
            },
            SettingsChoice {
                name: "require_equality + validation weakening",
                settings: SchemaComparisonSettings::require_equality().set_validation(SchemaComparisonValidationSettings::allow_weakening()),
                guarantee: Guarantee::OneWay,
            },
            SettingsChoice {
                name: "require_equality + structure extension",
                settings: SchemaComparisonSettings::require_equality().set_structure(SchemaComparisonStructureSettings::allow_extension()),
                guarantee: Guarantee::OneWay,
            },
        ]
    })
}

fn well_known_ids<S: CustomSchema>() -> Vec<u8> {
    (0..=255u8).filter(|i| S::resolve_well_known_type(WellKnownTypeId::of(*i)).is_some()).collect()
}

fn scrypto_cfg() -> &'static SchemaGenCfg {
    static C: OnceLock<SchemaGenCfg> = OnceLock::new();
    C.get_or_init(|| SchemaGenCfg { allow_custom: true, well_known: well_known_ids::<ScryptoCustomSchema>(), max_types: 12 })
}
fn basic_cfg() -> &'static SchemaGenCfg {
    static C: OnceLock<SchemaGenCfg> = OnceLock::new();
    C.get_or_init(|| SchemaGenCfg { allow_custom: false, well_known: well_known_ids::<NoCustomSchema>(), max_types: 12 })
}

fn validate<E: ValidatableCustomExtension<()>>(payload: &[u8], schema: &SchemaV1<E::CustomSchema>, id: LocalTypeId, depth: usize) -> Result<Result<(), String>, String> {
    catch(|| validate_payload_against_schema::<E, ()>(payload, schema, id, &(), depth).map_err(|e| format!("{:?}", e.error)))
}

struct Probe {
    payload: Vec<u8>,
    tree: String,
    /// which schema it was generated from
    from_base: bool,
    /// planted defect, if any
    mutation: Option<&'static str>,
}

fn run<E>(g: &mut Gen, fl: Flavour, cfg: &SchemaGenCfg) -> Outcome
where
    E: ValidatableCustomExtension<()>,
    E::CustomSchema: CustomBuild + CustomView,
{
    let collection = g.chance(1, 4);
    let n_roots = if collection { 1 + g.index(3) } else { 1 };
    let base_ir = SchemaGen::new(g, cfg).schema(n_roots);
    let mut compared_ir = base_ir.clone();
    let n_edits = g.weighted(&[2, 4, 3, 2, 1]);
    let mut edits: Vec<Edit> = Vec::new();
    for _ in 0..n_edits {
        // an edit that does not apply to this schema is redrawn a few times, then skipped (counted)
        let mut applied = false;
        for _ in 0..4 {
            if let Some(e) = apply_edit(g, &mut compared_ir, cfg) {
                edits.push(e);
                applied = true;
                break;
            }
        }
        if !applied {
            g.count("edit not applicable", 1);
        }
    }
    if !collection {
        compared_ir.roots.truncate(1);
    }
    compared_ir.compact();
    let choice = &settings_choices()[g.index(settings_choices().len())];

    let (Some(base), Some(compared)) = (build::<E::CustomSchema>(&base_ir), build::<E::CustomSchema>(&compared_ir)) else {
        g.count("schema not buildable in this family", 1);
        return Outcome::Discard;
    };
    if let Err(e) = base.validate() {
        return Outcome::fail("harness: generated base schema is not valid", format!("{:?}: {}", e, base_ir.render()));
    }
    if compared.validate().is_err() {
        g.count("edited schema fails validate()", 1);
        return Outcome::Discard;
    }

    g.label(choice.name);
    g.label(if collection { "type collection" } else { "single type" });
    for e in &edits {
        g.label(e.label);
    }
    if edits.is_empty() {
        g.label("no edit");
    }
    let edit_list = edits.iter().map(|e| e.label).collect::<Vec<_>>().join(", ");
    g.sample(|| {
        format!(
            "{} payloads; settings {}; base {} ; edits [{}]; compared {}",
            fl.name(),
            choice.name,
            base_ir.render(),
            edit_list,
            compared_ir.render()
        )
    });

    // verdict
    let verdict = {
        let b = base.clone();
        let c = compared.clone();
        let settings = choice.settings;
        let base_roots = base_ir.roots.clone();
        let compared_roots = compared_ir.roots.clone();
        catch(move || {
            if collection {
                let mut br = index_map_new();
                for (n, r) in &base_roots {
                    br.insert(n.clone(), local_id(*r));
                }
                let mut cr = index_map_new();
                for (n, r) in &compared_roots {
                    cr.insert(n.clone(), local_id(*r));
                }
                let bs = TypeCollectionSchema::new(b.into_versioned(), br);
                let cs = TypeCollectionSchema::new(c.into_versioned(), cr);
                compare_type_collection_schemas(&settings, &bs, &cs).is_valid()
            } else {
                let bs = SingleTypeSchema::new(b.into_versioned(), local_id(base_roots[0].1));
                let cs = SingleTypeSchema::new(c.into_versioned(), local_id(compared_roots[0].1));
                compare_single_type_schemas(&settings, &bs, &cs).is_valid()
            }
        })
    };
    let valid = match verdict {
        Ok(v) => v,
        Err(p) => {
            return Outcome::fail(
                "schema comparison panics on valid schemas",
                format!("settings {}; base {} ; compared {} : {}", choice.name, base_ir.render(), compared_ir.render(), p),
            )
        }
    };
    let only_compatible = edits.iter().all(|e| e.class == EditClass::Compatible);
    if valid {
        g.label("verdict: valid");
        if !edits.is_empty() {
            g.label("verdict valid with edits");
            g.nontrivial();
        }
    } else {
        g.label("verdict: invalid");
        if only_compatible && !edits.is_empty() {
            // logged for inspection: the comparison may be stricter than necessary
            g.label("verdict invalid with only compatible-labelled edits");
            g.nontrivial();
        }
    }

    // payload probes: always exercised (also checks the generator against the base schema)
    let depth = fl.default_depth();
    let n_probes = 6 + g.index(10);
    let two_way = choice.guarantee == Guarantee::Equal;
    for (root_name, base_root) in &base_ir.roots {
        let Some((_, compared_root)) = compared_ir.roots.iter().find(|(n, _)| n == root_name) else { continue };
        let base_id = local_id(*base_root);
        let compared_id = local_id(*compared_root);
        let mut probes: Vec<Probe> = Vec::new();
        for i in 0..n_probes {
            let from_base = !(two_way && valid && i % 3 == 2);
            let (view, id): (&dyn SchemaView, LocalTypeId) = if from_base { (&base, base_id) } else { (&compared, compared_id) };
            let mut tg = TypedGen::new(g, view, fl);
            tg.max_len = 3;
            tg.budget = 60;
            tg.alt_kind_chance = (1, 3);
            if tg.g.chance(1, 3) {
                tg.mutate_at = Some(tg.g.index(6));
            }
            let Some(tree) = tg.payload(id, depth) else {
                g.count("type without a value in this flavour", 1);
                continue;
            };
            let mutation = tg.mutation;
            probes.push(Probe { payload: print_payload(fl, &tree), tree: tree.render(), from_base, mutation });
        }
        for p in probes {
            g.count("payload probes", 1);
            let under_base = match validate::<E>(&p.payload, &base, base_id, depth) {
                Ok(r) => r,
                Err(panic) => return Outcome::fail("payload validation panics", format!("schema {} payload {} ({}): {}", base_ir.render(), hexs(&p.payload), p.tree, panic)),
            };
            let under_compared = match validate::<E>(&p.payload, &compared, compared_id, depth) {
                Ok(r) => r,
                Err(panic) => {
                    return Outcome::fail("payload validation panics", format!("schema {} payload {} ({}): {}", compared_ir.render(), hexs(&p.payload), p.tree, panic))
                }
            };
            // generator self-check: a payload built to be valid under a schema validates under it
            if p.mutation.is_none() {
                let (own, own_ir) = if p.from_base { (&under_base, &base_ir) } else { (&under_compared, &compared_ir) };
                if let Err(e) = own {
                    return Outcome::fail(
                        format!("{}: a payload built to conform to a schema is rejected by that schema", fl.name()),
                        format!("schema {} ; payload {} = {} ; error {}", own_ir.render(), hexs(&p.payload), p.tree, e),
                    );
                }
            } else {
                g.count("near-valid probes", 1);
            }
            if !valid {
                continue;
            }
            if under_base.is_ok() && under_compared.is_err() {
                return Outcome::fail(
                    format!("{}: comparison reports a valid {} but a payload valid under the base schema is rejected by the compared schema", fl.name(), if two_way { "equality" } else { "extension" }),
                    format!(
                        "settings {}; edits [{}]; base {} ; compared {} ; root {:?}; payload {} = {} ; compared schema says {:?}",
                        choice.name,
                        edit_list,
                        base_ir.render(),
                        compared_ir.render(),
                        root_name,
                        hexs(&p.payload),
                        p.tree,
                        under_compared
                    ),
                );
            }
            if two_way && under_base.is_err() && under_compared.is_ok() {
                return Outcome::fail(
                    format!("{}: comparison reports equality but the compared schema accepts a payload the base schema rejects", fl.name()),
                    format!(
                        "settings {}; edits [{}]; base {} ; compared {} ; root {:?}; payload {} = {} ; base schema says {:?}",
                        choice.name,
                        edit_list,
                        base_ir.render(),
                        compared_ir.render(),
                        root_name,
                        hexs(&p.payload),
                        p.tree,
                        under_base
                    ),
                );
            }
        }
    }
    Outcome::Pass
}

pub fn scrypto_case(g: &mut Gen) -> Outcome {
    run::<ScryptoCustomExtension>(g, Flavour::Scrypto, scrypto_cfg())
}
pub fn manifest_case(g: &mut Gen) -> Outcome {
    run::<ManifestCustomExtension>(g, Flavour::Manifest, scrypto_cfg())
}
pub fn basic_case(g: &mut Gen) -> Outcome {
    run::<NoCustomExtension>(g, Flavour::Basic, basic_cfg())
}

pub fn check() -> Check {
    Check::new(
        "C23",
        "Schema compatibility checks are sound",
        "A random valid schema (1-12 local types reachable from 1-3 roots: every type kind, enums with 0-5 variants, recursion through back references, numeric / length / reference / own validations, names) and a second schema derived by 0-4 labelled edits (compatible: add variant, widen or drop validation, replace with Any, add root; rename; breaking: remove / renumber variant, change field type or count, narrow validation, swap map key/value, change array element, change kind) are compared under one of 8 settings (require_equality, allow_extension, with name-change, completeness, validation and structure variations), as single-type or type-collection schemas. When the verdict is valid, 6-15 schema-directed payloads per root (valid by construction, one third carrying one planted defect; under equality settings also payloads built from the compared schema) must satisfy: valid under base => valid under compared, and under equality settings also the converse. Every payload built to conform to a schema must validate under it (generator self-check). Parts: Scrypto payloads on Scrypto schemas, manifest payloads on Scrypto schemas, basic payloads on basic schemas. Non-trivial = verdict valid with >= 1 edit applied, or verdict invalid with only compatible-labelled edits (logged, not a failure).",
    )
    .assume("schema-directed payload generator (vf-sbor/src/typed.rs) encodes the documented meaning of type kinds and validations; payload validity itself is judged by validate_payload_against_schema on both sides")
    .assume("only payload-level soundness of a *valid* verdict is asserted; an invalid verdict for harmless edits is not a failure")
    .part(Part::new("scrypto", 200_000, 8_000_000, 2048, scrypto_case))
    .part(Part::new("manifest", 120_000, 5_000_000, 2048, manifest_case))
    .part(Part::new("basic", 80_000, 3_000_000, 2048, basic_case))
    .min_nontrivial_pct(15.0)
}
