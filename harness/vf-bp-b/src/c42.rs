//! C42 Validator staking and emissions never create value.
//!
//! Three custom-genesis worlds (5 genesis validators, different `ConsensusManagerConfig`s); a case
//! is a history of 1-40 operations by 4 accounts (owners of the validators and public stakers) and
//! the consensus layer (next_round system transactions with gap rounds, fallback rounds, chosen
//! leaders). After every transaction the whole ledger is re-read from raw substates (vf-world scan +
//! validator / consensus-manager fields) and compared with a model; amounts the code is free to
//! round (units minted, claim amounts, emission and reward splits) are *bounded* by the exact
//! integer oracle and then adopted, everything else is predicted exactly.

use crate::num::*;
use num_bigint::BigInt;
use num_traits::{One, Signed, Zero};
use radix_engine::blueprints::consensus_manager::*;
use radix_engine::system::system_db_reader::SystemDatabaseReader;
use scrypto_test::prelude::*;
use std::collections::{BTreeMap, BTreeSet};
use vf_core::{Check, Failure, Gen, Outcome, Part};
use vf_world::*;

const NACC: usize = 4;
const MAX_CREATED: usize = 2;

fn acct_key(i: usize) -> Secp256k1PublicKey {
    Secp256k1PrivateKey::from_u64(7001 + i as u64).unwrap().public_key()
}
fn val_key(i: usize) -> Secp256k1PublicKey {
    Secp256k1PrivateKey::from_u64(8001 + i as u64).unwrap().public_key()
}
fn acct_addr(i: usize) -> ComponentAddress {
    ComponentAddress::preallocated_account_from_public_key(&acct_key(i))
}

fn config(variant: usize) -> ConsensusManagerConfig {
    match variant {
        0 => ConsensusManagerConfig {
            max_validators: 2,
            epoch_change_condition: EpochChangeCondition { min_round_count: 2, max_round_count: 2, target_duration_millis: 0 },
            num_unstake_epochs: 1,
            total_emission_xrd_per_epoch: dec!(100),
            min_validator_reliability: dec!(1),
            num_owner_stake_units_unlock_epochs: 2,
            num_fee_increase_delay_epochs: 1,
            validator_creation_usd_cost: dec!(6),
        },
        1 => ConsensusManagerConfig {
            max_validators: 3,
            epoch_change_condition: EpochChangeCondition { min_round_count: 1, max_round_count: 4, target_duration_millis: 1000 },
            num_unstake_epochs: 2,
            total_emission_xrd_per_epoch: dec!("2853.881278538812785388"),
            min_validator_reliability: dec!("0.5"),
            num_owner_stake_units_unlock_epochs: 1,
            num_fee_increase_delay_epochs: 2,
            validator_creation_usd_cost: dec!(6),
        },
        _ => ConsensusManagerConfig {
            max_validators: 4,
            epoch_change_condition: EpochChangeCondition { min_round_count: 1, max_round_count: 3, target_duration_millis: 0 },
            num_unstake_epochs: 0,
            total_emission_xrd_per_epoch: dec!("0.000001000000000123"),
            min_validator_reliability: dec!(0),
            num_owner_stake_units_unlock_epochs: 0,
            num_fee_increase_delay_epochs: 0,
            validator_creation_usd_cost: dec!(6),
        },
    }
}

/// (registered, accepts delegated stake, fee factor, owner account, [(staker account, xrd)])
fn genesis_validators() -> Vec<(bool, bool, Decimal, usize, Vec<(usize, Decimal)>)> {
    vec![
        (true, true, dec!(0), 0, vec![(0, dec!(250000)), (3, dec!(100000))]),
        (true, true, dec!("0.1"), 1, vec![(1, dec!(120000))]),
        (true, false, dec!(1), 2, vec![(2, dec!("99999.5"))]),
        (false, true, dec!("0.5"), 0, vec![(0, dec!(500000))]),
        (true, true, dec!("0.02"), 1, vec![]),
    ]
}

fn genesis(variant: usize) -> Option<BabylonSettings> {
    let accounts: Vec<ComponentAddress> = (0..NACC).map(acct_addr).collect();
    let mut validators = Vec::new();
    let mut allocations = Vec::new();
    for (i, (registered, accepts, fee, owner, stakes)) in genesis_validators().into_iter().enumerate() {
        validators.push(GenesisValidator {
            key: val_key(i),
            accept_delegated_stake: accepts,
            is_registered: registered,
            fee_factor: fee,
            metadata: vec![],
            owner: accounts[owner],
        });
        if !stakes.is_empty() {
            allocations.push((
                val_key(i),
                stakes.into_iter().map(|(a, x)| GenesisStakeAllocation { account_index: a as u32, xrd_amount: x }).collect::<Vec<_>>(),
            ));
        }
    }
    Some(BabylonSettings {
        genesis_data_chunks: vec![
            GenesisDataChunk::Validators(validators),
            GenesisDataChunk::Stakes { accounts: accounts.clone(), allocations },
            GenesisDataChunk::XrdBalances(accounts.iter().map(|a| (*a, dec!(3000000))).collect()),
        ],
        genesis_epoch: Epoch::of(1),
        consensus_manager_config: config(variant),
        initial_time_ms: 1,
        initial_current_leader: Some(0),
        faucet_supply: *DEFAULT_TESTING_FAUCET_SUPPLY,
    })
}
fn genesis0() -> Option<BabylonSettings> {
    genesis(0)
}
fn genesis1() -> Option<BabylonSettings> {
    genesis(1)
}
fn genesis2() -> Option<BabylonSettings> {
    genesis(2)
}

#[derive(Clone, Debug)]
struct VInfo {
    addr: ComponentAddress,
    su: ResourceAddress,
    claim: ResourceAddress,
    stake_vault: NodeId,
    pending_vault: NodeId,
    locked_vault: NodeId,
    unlock_vault: NodeId,
    owner: usize,
}

#[derive(Clone, Debug)]
struct Ext {
    variant: usize,
    cfg: ConsensusManagerConfig,
    validators: Vec<VInfo>,
    rewards_vault: NodeId,
    /// vault -> owning account (None: not one of the four accounts)
    owners: BTreeMap<NodeId, Option<usize>>,
}

fn vinfo(w: &World, addr: ComponentAddress, owner: usize) -> VInfo {
    let s = w.sim.get_validator_info(addr);
    VInfo {
        addr,
        su: s.stake_unit_resource,
        claim: s.claim_nft,
        stake_vault: s.stake_xrd_vault_id.0,
        pending_vault: s.pending_xrd_withdraw_vault_id.0,
        locked_vault: s.locked_owner_stake_unit_vault_id.0,
        unlock_vault: s.pending_owner_stake_unit_unlock_vault_id.0,
        owner,
    }
}

fn build_variant(w: &mut World, variant: usize) {
    // genesis validators, found by key among all validator components
    let mut by_key: BTreeMap<Vec<u8>, ComponentAddress> = BTreeMap::new();
    for node in all_nodes(w.db()) {
        if node.entity_type() == Some(EntityType::GlobalValidator) {
            let addr = ComponentAddress::new_or_panic(node.0);
            by_key.insert(w.sim.get_validator_info(addr).key.to_vec(), addr);
        }
    }
    let mut validators = Vec::new();
    for (i, (_, _, _, owner, _)) in genesis_validators().into_iter().enumerate() {
        let addr = *by_key.get(&val_key(i).to_vec()).expect("genesis validator exists");
        validators.push(vinfo(w, addr, owner));
    }
    let reader = SystemDatabaseReader::new(w.db());
    let rewards = reader
        .read_typed_object_field::<ConsensusManagerValidatorRewardsFieldPayload>(CONSENSUS_MANAGER.as_node_id(), ModuleId::Main, ConsensusManagerField::ValidatorRewards.field_index())
        .unwrap()
        .fully_update_and_into_latest_version();
    let stored_cfg = reader
        .read_typed_object_field::<ConsensusManagerConfigurationFieldPayload>(CONSENSUS_MANAGER.as_node_id(), ModuleId::Main, ConsensusManagerField::Configuration.field_index())
        .unwrap()
        .fully_update_and_into_latest_version()
        .config;
    // a later protocol update (anemone) rewrites validator_creation_usd_cost; everything else is ours
    let mut expected_cfg = config(variant);
    expected_cfg.validator_creation_usd_cost = stored_cfg.validator_creation_usd_cost;
    assert_eq!(stored_cfg, expected_cfg);
    let mut ext = Ext { variant, cfg: stored_cfg, validators, rewards_vault: rewards.rewards_vault.0 .0, owners: BTreeMap::new() };
    // resolve the owner of every vault that exists now
    let mut cx = Cx { ext: ext.clone(), created: 0 };
    observe(w, &mut cx).expect("initial observation");
    ext.owners = cx.ext.owners;
    w.set_ext(ext);
}
fn build0(w: &mut World) {
    build_variant(w, 0)
}
fn build1(w: &mut World) {
    build_variant(w, 1)
}
fn build2(w: &mut World) {
    build_variant(w, 2)
}

#[derive(Clone, PartialEq, Eq, Debug)]
struct VSt {
    registered: bool,
    accepts: bool,
    k: BigInt,
    s: BigInt,
    pending: BigInt,
    locked: BigInt,
    unlocking: BigInt,
}

#[derive(Clone, PartialEq, Eq, Debug)]
struct St {
    epoch: u64,
    round: u64,
    xrd: Vec<BigInt>,
    /// [validator][account]
    su: Vec<Vec<BigInt>>,
    claims: Vec<Vec<BTreeSet<NonFungibleLocalId>>>,
    val: Vec<VSt>,
    rewards: BigInt,
    xrd_supply: BigInt,
}

impl St {
    fn render(&self) -> String {
        let vals: Vec<String> = self
            .val
            .iter()
            .enumerate()
            .map(|(i, v)| {
                format!(
                    "V{}[{}{} stake {} units {} pending {} locked {} unlocking {}]",
                    i,
                    if v.registered { "R" } else { "-" },
                    if v.accepts { "A" } else { "-" },
                    show(&v.k),
                    show(&v.s),
                    show(&v.pending),
                    show(&v.locked),
                    show(&v.unlocking)
                )
            })
            .collect();
        format!("epoch {} round {} rewards {} xrd [{}] {}", self.epoch, self.round, show(&self.rewards), self.xrd.iter().map(show).collect::<Vec<_>>().join(", "), vals.join(" "))
    }
}

struct Cx {
    ext: Ext,
    created: usize,
}

fn fail(sig: &str, msg: String) -> Failure {
    Failure { signature: sig.to_string(), message: msg }
}

fn owner_of(w: &mut World, cx: &mut Cx, vault: NodeId, res: ResourceAddress) -> Option<usize> {
    if let Some(o) = cx.ext.owners.get(&vault) {
        return *o;
    }
    let mut found = None;
    for a in 0..NACC {
        if w.sim.get_component_vaults(acct_addr(a), res).contains(&vault) {
            found = Some(a);
            break;
        }
    }
    cx.ext.owners.insert(vault, found);
    found
}

fn observe(w: &mut World, cx: &mut Cx) -> Result<St, Failure> {
    let scan = Totals::scan(w.db());
    if !scan.problems.is_empty() {
        return Err(fail("ledger scan: structural problem in a vault", format!("{:?}", scan.problems)));
    }
    let cm = w.sim.get_consensus_manager_state();
    let nv = cx.ext.validators.len();
    let mut st = St {
        epoch: cm.epoch.number(),
        round: cm.round.number(),
        xrd: vec![BigInt::zero(); NACC],
        su: vec![vec![BigInt::zero(); NACC]; nv],
        claims: vec![vec![BTreeSet::new(); NACC]; nv],
        val: Vec::new(),
        rewards: BigInt::zero(),
        // XRD does not track its total supply: the XRD in existence is the sum of all XRD vaults
        xrd_supply: scan.fungible_vault_sum.get(&XRD).cloned().map(big).unwrap_or_default(),
    };
    let bal = |v: &NodeId| -> BigInt { scan.fungible_vaults.get(v).map(|(_, b)| big(*b)).unwrap_or_default() };
    let mut internal: BTreeSet<NodeId> = BTreeSet::new();
    internal.insert(cx.ext.rewards_vault);
    st.rewards = bal(&cx.ext.rewards_vault);
    let su_index: BTreeMap<ResourceAddress, usize> = cx.ext.validators.iter().enumerate().map(|(i, v)| (v.su, i)).collect();
    let claim_index: BTreeMap<ResourceAddress, usize> = cx.ext.validators.iter().enumerate().map(|(i, v)| (v.claim, i)).collect();
    for v in &cx.ext.validators {
        let s = w.sim.get_validator_info(v.addr);
        for n in [v.stake_vault, v.pending_vault, v.locked_vault, v.unlock_vault] {
            internal.insert(n);
        }
        st.val.push(VSt {
            registered: s.is_registered,
            accepts: s.accepts_delegated_stake,
            k: bal(&v.stake_vault),
            s: scan.supply.get(&v.su).cloned().flatten().map(big).unwrap_or_default(),
            pending: bal(&v.pending_vault),
            locked: bal(&v.locked_vault),
            unlocking: bal(&v.unlock_vault),
        });
    }
    let vaults: Vec<(NodeId, ResourceAddress, Decimal)> = scan.fungible_vaults.iter().map(|(n, (r, b))| (*n, *r, *b)).collect();
    for (node, res, b) in vaults {
        if internal.contains(&node) {
            continue;
        }
        if res == XRD {
            if let Some(a) = owner_of(w, cx, node, res) {
                st.xrd[a] += big(b);
            }
        } else if let Some(vi) = su_index.get(&res) {
            match owner_of(w, cx, node, res) {
                Some(a) => st.su[*vi][a] += big(b),
                None => {
                    if !b.is_zero() {
                        return Err(fail("stake units are held outside the validator and the four accounts", format!("vault {:?} holds {} of V{}'s units", node, b, vi)));
                    }
                }
            }
        }
    }
    let nf: Vec<(NodeId, ResourceAddress, BTreeSet<NonFungibleLocalId>)> = scan.non_fungible_vaults.iter().map(|(n, (r, _, ids))| (*n, *r, ids.clone())).collect();
    for (node, res, ids) in nf {
        if let Some(vi) = claim_index.get(&res) {
            match owner_of(w, cx, node, res) {
                Some(a) => st.claims[*vi][a].extend(ids),
                None => {
                    if !ids.is_empty() {
                        return Err(fail("claim NFTs are held outside the four accounts", format!("vault {:?} of V{}", node, vi)));
                    }
                }
            }
        }
    }
    Ok(st)
}

fn active_set(w: &World) -> Vec<(ComponentAddress, Decimal)> {
    let reader = SystemDatabaseReader::new(w.db());
    reader
        .read_typed_object_field::<ConsensusManagerCurrentValidatorSetFieldPayload>(CONSENSUS_MANAGER.as_node_id(), ModuleId::Main, ConsensusManagerField::CurrentValidatorSet.field_index())
        .unwrap()
        .fully_update_and_into_latest_version()
        .validator_set
        .validators_by_stake_desc
        .into_iter()
        .map(|(a, v)| (a, v.stake))
        .collect()
}

#[derive(Debug, PartialEq, Eq)]
enum ErrClass {
    Validator,
    Auth,
    Vault,
    Other,
}

struct Tx {
    ok: bool,
    class: Option<ErrClass>,
    err: String,
    outputs: Vec<Option<Vec<u8>>>,
    new_components: Vec<ComponentAddress>,
    next_epoch: Option<EpochChangeEvent>,
}

fn digest(run: Run, ctx: &str) -> Result<Tx, Failure> {
    if let Some(p) = &run.panic {
        return Err(fail("host panic while executing a staking / consensus transaction", format!("{}: {}", ctx, p)));
    }
    let Some(c) = run.commit() else {
        return Err(fail("harness: transaction was rejected", format!("{}: {}", ctx, run.outcome_string())));
    };
    match &c.outcome {
        TransactionOutcome::Success(outs) => Ok(Tx {
            ok: true,
            class: None,
            err: String::new(),
            outputs: outs
                .iter()
                .map(|o| match o {
                    InstructionOutput::CallReturn(v) => Some(v.clone()),
                    InstructionOutput::None => None,
                })
                .collect(),
            new_components: c.new_component_addresses().iter().cloned().collect(),
            next_epoch: c.next_epoch(),
        }),
        TransactionOutcome::Failure(e) => {
            let class = match e {
                RuntimeError::ApplicationError(ApplicationError::ValidatorError(_)) | RuntimeError::ApplicationError(ApplicationError::ConsensusManagerError(_)) => ErrClass::Validator,
                RuntimeError::SystemModuleError(SystemModuleError::AuthError(_)) => ErrClass::Auth,
                RuntimeError::ApplicationError(ApplicationError::VaultError(_))
                | RuntimeError::ApplicationError(ApplicationError::BucketError(_))
                | RuntimeError::ApplicationError(ApplicationError::NonFungibleVaultError(_))
                | RuntimeError::ApplicationError(ApplicationError::AccountError(_)) => ErrClass::Vault,
                _ => ErrClass::Other,
            };
            let mut s = format!("{:?}", e);
            s.truncate(300);
            Ok(Tx { ok: false, class: Some(class), err: s, outputs: vec![], new_components: vec![], next_epoch: None })
        }
    }
}

fn exec(w: &mut World, m: TransactionManifestV1, signer: usize, ctx: &str) -> Result<Tx, Failure> {
    let run = w.run(m, vec![NonFungibleGlobalId::from_public_key(&acct_key(signer))]);
    digest(run, ctx)
}

fn d(b: &BigInt) -> Decimal {
    dec(b).expect("amount fits a Decimal")
}

fn owner_badge_id(v: &VInfo) -> NonFungibleLocalId {
    NonFungibleLocalId::bytes(v.addr.as_node_id().0).unwrap()
}

fn rand_below(g: &mut Gen, cap: &BigInt) -> BigInt {
    if !cap.is_positive() {
        return BigInt::zero();
    }
    let bits = cap.bits();
    let width = 1 + g.below(bits) as u64;
    let nbytes = ((width + 7) / 8) as usize;
    let bytes = g.bytes(nbytes);
    let mut v = BigInt::from_bytes_be(num_bigint::Sign::Plus, &bytes);
    v &= (BigInt::one() << width) - 1;
    if &v > cap {
        v = cap.clone();
    }
    v
}

/// XRD amount to stake: 1 atto .. the whole balance, biased to the 100 000 XRD index buckets.
fn gen_xrd(g: &mut Gen, cap: &BigInt, k: &BigInt) -> BigInt {
    let one = pow10(18);
    let v = match g.weighted(&[8, 2, 3, 4, 2, 3, 1]) {
        0 => BigInt::from(1 + g.below(9999)) * pow10(g.range_u64(12, 22) as u32),
        1 => BigInt::one(),
        2 => rand_below(g, cap),
        3 => {
            // make the validator's stake land on / next to a multiple of 100 000 XRD
            let bucket = BigInt::from(100_000u64) * &one;
            let target = (k / &bucket + BigInt::from(1 + g.below(3))) * &bucket;
            let delta = match g.below(4) {
                0 => BigInt::zero(),
                1 => -BigInt::one(),
                2 => BigInt::one(),
                _ => -one.clone(),
            };
            target + delta - k
        }
        4 => cap / BigInt::from(*g.pick(&[1u64, 2, 3, 10, 1000])),
        5 => {
            if k.is_positive() {
                k * BigInt::from(1 + g.below(20)) / BigInt::from(*g.pick(&[1u64, 3, 7, 10, 1000, 1_000_000]))
            } else {
                BigInt::from(1 + g.below(1000)) * &one
            }
        }
        _ => return cap + 1,
    };
    if !v.is_positive() {
        BigInt::one()
    } else if &v > cap {
        cap.clone()
    } else {
        v
    }
}

pub fn run(g: &mut Gen) -> Outcome {
    let variant = g.index(3);
    let r = match variant {
        0 => with_world("c42-0", genesis0, build0, |w| case(g, w)),
        1 => with_world("c42-1", genesis1, build1, |w| case(g, w)),
        _ => with_world("c42-2", genesis2, build2, |w| case(g, w)),
    };
    match r {
        Ok(()) => Outcome::Pass,
        Err(f) => Outcome::Fail(f),
    }
}

/// Fees of user transactions: the reward vault only grows, the XRD supply only shrinks (burn).
fn settle_fees(want: &mut St, obs: &St, m: &St, ctx: &str) -> Result<(), Failure> {
    if obs.rewards < m.rewards {
        return Err(fail("the reward vault shrank outside an epoch change", format!("{}\nrewards {} -> {}", ctx, show(&m.rewards), show(&obs.rewards))));
    }
    if obs.xrd_supply > m.xrd_supply {
        return Err(fail("XRD was minted outside an epoch change", format!("{}\nsupply {} -> {}", ctx, show(&m.xrd_supply), show(&obs.xrd_supply))));
    }
    want.rewards = obs.rewards.clone();
    want.xrd_supply = obs.xrd_supply.clone();
    Ok(())
}

fn expect_state(obs: &St, want: &St, sig: &str, ctx: &str) -> Result<(), Failure> {
    if obs != want {
        return Err(fail(sig, format!("{}\nexpected: {}\nobserved: {}", ctx, want.render(), obs.render())));
    }
    Ok(())
}

struct Claim {
    amount: BigInt,
    claim_epoch: u64,
}

fn case(g: &mut Gen, w: &mut World) -> Result<(), Failure> {
    let ext: Ext = w.ext::<Ext>().clone();
    let cfg = ext.cfg.clone();
    let mut cx = Cx { ext, created: 0 };
    g.label(match cx.ext.variant {
        0 => "config 0: max 2 validators, epoch = 2 rounds, emission 100, reliability 1, unstake delay 1",
        1 => "config 1: max 3 validators, epoch 1-4 rounds / 1 s, emission 2853.88, reliability 0.5, unstake delay 2",
        _ => "config 2: max 4 validators, epoch = 1 round, emission 0.000001000000000123, reliability 0, unstake delay 0",
    });
    let emission_cap = big(cfg.total_emission_xrd_per_epoch);
    let mut m = observe(w, &mut cx)?;
    let mut time_ms = w.sim.get_current_proposer_timestamp_ms();
    let steps = 1 + g.below(40) as usize;
    let mut log: Vec<String> = vec![format!("start: {}", m.render())];
    let mut claims: BTreeMap<(usize, NonFungibleLocalId), Claim> = BTreeMap::new();
    // per validator: epoch -> units whose unlock started (model of pending_owner_stake_unit_withdrawals)
    let mut unlocks: Vec<BTreeMap<u64, BigInt>> = vec![BTreeMap::new(); m.val.len()];
    // non-trivial rule bookkeeping: per validator, accounts that staked in this history, whether an
    // emission reached it after such a stake
    let mut staked_here: Vec<BTreeSet<usize>> = vec![BTreeSet::new(); m.val.len()];
    let mut emitted_after_stake: Vec<bool> = vec![false; m.val.len()];
    let mut nontrivial = false;
    let mut epochs_changed = 0u64;

    for _ in 0..steps {
        let nv = m.val.len();
        let su_holders: Vec<(usize, usize)> = (0..nv).flat_map(|v| (0..NACC).map(move |a| (v, a))).filter(|(v, a)| m.su[*v][*a].is_positive()).collect();
        let have_claims = !claims.is_empty();
        let weights: [u32; 15] = [
            14,                                             // 0 stake
            6,                                              // 1 stake as owner
            6,                                              // 2 stake + unstake in one manifest
            if su_holders.is_empty() { 0 } else { 14 },     // 3 unstake
            if have_claims { 10 } else { 0 },               // 4 claim
            5,                                              // 5 register / unregister
            3,                                              // 6 update fee
            3,                                              // 7 accept delegated stake on/off
            3,                                              // 8 lock owner stake units
            3,                                              // 9 start unlock
            2,                                              // 10 finish unlock
            26,                                             // 11 next round
            if cx.created < MAX_CREATED { 2 } else { 0 },   // 12 create validator
            2,                                              // 13 owner-only call by somebody else
            3,                                              // 14 get_redemption_value
        ];
        let op = g.weighted(&weights);
        match op {
            // ---- stake (public / owner) -------------------------------------------------------
            0 | 1 | 2 => {
                let mut v = g.index(nv);
                let as_owner = op == 1;
                if !as_owner && !m.val[v].accepts && g.chance(4, 5) {
                    // mostly stake where delegated stake is accepted
                    let accepting: Vec<usize> = (0..nv).filter(|i| m.val[*i].accepts).collect();
                    if !accepting.is_empty() {
                        v = *g.pick(&accepting);
                    }
                }
                let roundtrip = op == 2;
                let a = if as_owner { cx.ext.validators[v].owner } else { g.index(NACC) };
                let x = gen_xrd(g, &m.xrd[a], &m.val[v].k);
                let vi = cx.ext.validators[v].clone();
                log.push(format!("A{} {} V{} {}", a, if as_owner { "stake_as_owner" } else if roundtrip { "stake+unstake" } else { "stake" }, v, show(&x)));
                let ctx = format!("{}\nstate before: {}", log.join("\n"), m.render());
                let mut b = ManifestBuilder::new().lock_fee_from_faucet();
                if as_owner {
                    b = b.create_proof_from_account_of_non_fungibles(acct_addr(a), VALIDATOR_OWNER_BADGE, [owner_badge_id(&vi)]);
                }
                b = b.withdraw_from_account(acct_addr(a), XRD, d(&x)).take_all_from_worktop(XRD, "xrd");
                b = if as_owner { b.stake_validator_as_owner(vi.addr, "xrd") } else { b.stake_validator(vi.addr, "xrd") };
                if roundtrip {
                    b = b.take_all_from_worktop(vi.su, "su").unstake_validator(vi.addr, "su");
                }
                let tx = exec(w, b.try_deposit_entire_worktop_or_abort(acct_addr(a), None).build(), a, &ctx)?;
                let obs = observe(w, &mut cx)?;
                let expect_ok = (as_owner || m.val[v].accepts) && x <= m.xrd[a];
                if tx.ok != expect_ok {
                    return Err(fail(
                        if expect_ok { "staking an available amount to an accepting validator failed" } else { "staking succeeded although the validator does not accept delegated stake or the funds are missing" },
                        format!("{}\noutcome: {}", ctx, if tx.ok { "success".into() } else { tx.err.clone() }),
                    ));
                }
                let mut want = m.clone();
                settle_fees(&mut want, &obs, &m, &ctx)?;
                if !tx.ok {
                    expect_state(&obs, &want, "a failed staking transaction changed state", &ctx)?;
                    g.label(if x > m.xrd[a] { "stake: insufficient funds (predicted failure)" } else { "stake: delegated stake not accepted (predicted failure)" });
                    log.push(format!("  -> failed: {}", tx.err));
                    m = obs;
                    continue;
                }
                let (k0, s0) = (m.val[v].k.clone(), m.val[v].s.clone());
                if roundtrip {
                    let new_ids: Vec<NonFungibleLocalId> = obs.claims[v][a].difference(&m.claims[v][a]).cloned().collect();
                    if new_ids.len() != 1 {
                        return Err(fail("unstake did not deliver exactly one claim NFT", format!("{}\nnew ids {:?}", ctx, new_ids)));
                    }
                    let data: UnstakeData = w.sim.get_non_fungible_data(vi.claim, new_ids[0].clone());
                    let c = big(data.claim_amount);
                    if c > x || c.is_negative() {
                        return Err(fail(
                            "staking and immediately unstaking yields a claim above the staked amount",
                            format!("{}\nstaked {}, claim {}", ctx, show(&x), show(&c)),
                        ));
                    }
                    if data.claim_epoch.number() != m.epoch + cfg.num_unstake_epochs {
                        return Err(fail("claim NFT carries another claim epoch than current + num_unstake_epochs", format!("{}\nclaim epoch {}", ctx, data.claim_epoch.number())));
                    }
                    want.xrd[a] -= &x;
                    want.val[v].k += &x - &c;
                    want.val[v].pending += &c;
                    want.claims[v][a].insert(new_ids[0].clone());
                    expect_state(&obs, &want, "stake+unstake moved other amounts than the staked XRD and the claim", &ctx)?;
                    claims.insert((v, new_ids[0].clone()), Claim { amount: c.clone(), claim_epoch: m.epoch + cfg.num_unstake_epochs });
                    g.label("stake and unstake in one transaction");
                    if c < x {
                        g.label("stake+unstake returns strictly less (truncation)");
                    }
                    log.push(format!("  -> ok, claim {} at epoch {}", show(&c), m.epoch + cfg.num_unstake_epochs));
                    m = obs;
                    continue;
                }
                let minted = &obs.su[v][a] - &m.su[v][a];
                if minted.is_negative() {
                    return Err(fail("staking reduced the staker's stake units", ctx));
                }
                if k0.is_zero() {
                    if minted != x {
                        return Err(fail("staking to an empty validator does not mint units 1:1", format!("{}\nstaked {}, units {}", ctx, show(&x), show(&minted))));
                    }
                    g.label("stake to a validator with no stake (1:1)");
                } else if &minted * &k0 > &x * &s0 {
                    return Err(fail(
                        "staking minted more stake units than the proportional share x*supply/stake",
                        format!("{}\nstaked {} at stake {} / supply {}: minted {}", ctx, show(&x), show(&k0), show(&s0), show(&minted)),
                    ));
                }
                if k0 != s0 {
                    g.label("stake at a unit price != 1");
                }
                if k0.is_positive() && s0.is_zero() {
                    g.label("stake into a validator holding XRD but no units: 0 units minted, XRD stranded");
                }
                if minted.is_zero() {
                    g.label("stake minted 0 units (amount below one unit's price)");
                }
                want.xrd[a] -= &x;
                want.su[v][a] += &minted;
                want.val[v].k += &x;
                want.val[v].s += &minted;
                expect_state(&obs, &want, "staking moved other amounts than the staked XRD and the minted units", &ctx)?;
                staked_here[v].insert(a);
                emitted_after_stake[v] = false;
                log.push(format!("  -> ok, minted {}", show(&minted)));
                m = obs;
            }
            // ---- unstake ----------------------------------------------------------------------
            3 => {
                let (v, a) = *g.pick(&su_holders);
                let have = m.su[v][a].clone();
                let u = match g.weighted(&[5, 4, 3, 3, 1]) {
                    0 => have.clone(),
                    1 => &have / 2,
                    2 => rand_below(g, &have),
                    3 => BigInt::one(),
                    _ => &have + 1,
                };
                let u = if u.is_zero() { BigInt::one() } else { u };
                let vi = cx.ext.validators[v].clone();
                log.push(format!("A{} unstake V{} {} units", a, v, show(&u)));
                let ctx = format!("{}\nstate before: {}", log.join("\n"), m.render());
                let b = ManifestBuilder::new()
                    .lock_fee_from_faucet()
                    .withdraw_from_account(acct_addr(a), vi.su, d(&u))
                    .take_all_from_worktop(vi.su, "su")
                    .unstake_validator(vi.addr, "su")
                    .try_deposit_entire_worktop_or_abort(acct_addr(a), None);
                let tx = exec(w, b.build(), a, &ctx)?;
                let obs = observe(w, &mut cx)?;
                let expect_ok = u <= have;
                if tx.ok != expect_ok {
                    return Err(fail(
                        if expect_ok { "unstaking held stake units failed" } else { "unstaking more units than held succeeded" },
                        format!("{}\noutcome: {}", ctx, if tx.ok { "success".into() } else { tx.err.clone() }),
                    ));
                }
                let mut want = m.clone();
                settle_fees(&mut want, &obs, &m, &ctx)?;
                if !tx.ok {
                    expect_state(&obs, &want, "a failed staking transaction changed state", &ctx)?;
                    g.label("unstake: more units than held (predicted failure)");
                    m = obs;
                    continue;
                }
                let new_ids: Vec<NonFungibleLocalId> = obs.claims[v][a].difference(&m.claims[v][a]).cloned().collect();
                if new_ids.len() != 1 {
                    return Err(fail("unstake did not deliver exactly one claim NFT", format!("{}\nnew ids {:?}", ctx, new_ids)));
                }
                let data: UnstakeData = w.sim.get_non_fungible_data(vi.claim, new_ids[0].clone());
                let c = big(data.claim_amount);
                let (k0, s0) = (m.val[v].k.clone(), m.val[v].s.clone());
                if c.is_negative() || &c * &s0 > &u * &k0 {
                    return Err(fail(
                        "unstaking yields a claim above the units' proportional share u*stake/supply",
                        format!("{}\nunstaked {} at stake {} / supply {}: claim {}", ctx, show(&u), show(&k0), show(&s0), show(&c)),
                    ));
                }
                if data.claim_epoch.number() != m.epoch + cfg.num_unstake_epochs {
                    return Err(fail("claim NFT carries another claim epoch than current + num_unstake_epochs", format!("{}\nclaim epoch {}", ctx, data.claim_epoch.number())));
                }
                want.su[v][a] -= &u;
                want.val[v].s -= &u;
                want.val[v].k -= &c;
                want.val[v].pending += &c;
                want.claims[v][a].insert(new_ids[0].clone());
                expect_state(&obs, &want, "unstaking moved other amounts than the burned units and the claim", &ctx)?;
                claims.insert((v, new_ids[0].clone()), Claim { amount: c.clone(), claim_epoch: m.epoch + cfg.num_unstake_epochs });
                let holders = (0..NACC).filter(|x| m.su[v][*x].is_positive()).count();
                if holders >= 2 && emitted_after_stake[v] && !staked_here[v].is_empty() {
                    nontrivial = true;
                }
                if u == have {
                    g.label("unstake all units of a holder");
                }
                if obs.val[v].s.is_zero() {
                    g.label("validator fully unstaked (supply 0)");
                    if obs.val[v].k.is_positive() {
                        g.label("validator with stake but no units (dust)");
                    }
                }
                if k0 != s0 {
                    g.label("unstake at a unit price != 1");
                }
                log.push(format!("  -> ok, claim {} at epoch {}", show(&c), m.epoch + cfg.num_unstake_epochs));
                m = obs;
            }
            // ---- claim ------------------------------------------------------------------------
            4 => {
                let keys: Vec<(usize, NonFungibleLocalId)> = claims.keys().cloned().collect();
                let (v, id) = g.pick(&keys).clone();
                let a = (0..NACC).find(|a| m.claims[v][*a].contains(&id)).expect("claim is held by an account");
                // sometimes a second claim of the same validator held by the same account
                let mut ids = vec![id.clone()];
                if g.chance(1, 4) {
                    if let Some(other) = m.claims[v][a].iter().find(|o| **o != id) {
                        ids.push(other.clone());
                    }
                }
                let vi = cx.ext.validators[v].clone();
                let matured = ids.iter().all(|i| m.epoch >= claims[&(v, i.clone())].claim_epoch);
                let total: BigInt = ids.iter().map(|i| claims[&(v, i.clone())].amount.clone()).sum();
                log.push(format!("A{} claim V{} {} NFT(s) worth {} (claim epochs {:?}, now {})", a, v, ids.len(), show(&total), ids.iter().map(|i| claims[&(v, i.clone())].claim_epoch).collect::<Vec<_>>(), m.epoch));
                let ctx = format!("{}\nstate before: {}", log.join("\n"), m.render());
                let b = ManifestBuilder::new()
                    .lock_fee_from_faucet()
                    .withdraw_non_fungibles_from_account(acct_addr(a), vi.claim, ids.clone())
                    .take_all_from_worktop(vi.claim, "nft")
                    .claim_xrd(vi.addr, "nft")
                    .try_deposit_entire_worktop_or_abort(acct_addr(a), None);
                let tx = exec(w, b.build(), a, &ctx)?;
                let obs = observe(w, &mut cx)?;
                if tx.ok != matured {
                    return Err(fail(
                        if matured { "claiming a matured claim failed" } else { "claim paid before the unstake delay elapsed" },
                        format!("{}\noutcome: {}", ctx, if tx.ok { "success".into() } else { tx.err.clone() }),
                    ));
                }
                let mut want = m.clone();
                settle_fees(&mut want, &obs, &m, &ctx)?;
                if !tx.ok {
                    expect_state(&obs, &want, "a failed staking transaction changed state", &ctx)?;
                    g.label("claim before the delay elapsed (predicted failure)");
                    m = obs;
                    continue;
                }
                want.xrd[a] += &total;
                want.val[v].pending -= &total;
                for i in &ids {
                    want.claims[v][a].remove(i);
                    claims.remove(&(v, i.clone()));
                }
                expect_state(&obs, &want, "claim paid another amount than the claim NFT states", &ctx)?;
                g.label("claim paid");
                log.push("  -> ok".into());
                m = obs;
            }
            // ---- owner operations ---------------------------------------------------------------
            5 | 6 | 7 | 8 | 9 | 10 | 13 => {
                let v = g.index(nv);
                let vi = cx.ext.validators[v].clone();
                let unauthorized = op == 13;
                let a = if unauthorized { (vi.owner + 1 + g.index(NACC - 1)) % NACC } else { vi.owner };
                let kind = if unauthorized { 5 + g.index(6) } else { op };
                let mut b = ManifestBuilder::new().lock_fee_from_faucet();
                if !unauthorized {
                    b = b.create_proof_from_account_of_non_fungibles(acct_addr(a), VALIDATOR_OWNER_BADGE, [owner_badge_id(&vi)]);
                }
                let mut want = m.clone();
                let mut expect_ok = true;
                let mut unlock_update: Option<(u64, BigInt)> = None;
                let mut finish = false;
                let desc;
                match kind {
                    5 => {
                        let target = if g.chance(1, 5) { m.val[v].registered } else { !m.val[v].registered };
                        desc = format!("{} V{}", if target { "register" } else { "unregister" }, v);
                        b = if target { b.register_validator(vi.addr) } else { b.unregister_validator(vi.addr) };
                        want.val[v].registered = target;
                    }
                    6 => {
                        let f = match g.weighted(&[4, 2, 2, 1, 1]) {
                            0 => Decimal::from(g.below(101)) / 100,
                            1 => dec!(0),
                            2 => dec!(1),
                            3 => dec!("1.000000000000000001"),
                            _ => dec!("-0.01"),
                        };
                        expect_ok = f >= dec!(0) && f <= dec!(1);
                        desc = format!("update_fee V{} {}", v, f);
                        b = b.call_method(vi.addr, VALIDATOR_UPDATE_FEE_IDENT, ValidatorUpdateFeeInput { new_fee_factor: f });
                    }
                    7 => {
                        let on = g.bool();
                        desc = format!("update_accept_delegated_stake V{} {}", v, on);
                        b = b.call_method(vi.addr, VALIDATOR_UPDATE_ACCEPT_DELEGATED_STAKE_IDENT, ValidatorUpdateAcceptDelegatedStakeInput { accept_delegated_stake: on });
                        want.val[v].accepts = on;
                    }
                    8 => {
                        let have = m.su[v][a].clone();
                        let amt = match g.weighted(&[3, 3, 2, 1]) {
                            0 => have.clone(),
                            1 => &have / 2,
                            2 => rand_below(g, &have),
                            _ => &have + 1,
                        };
                        expect_ok = amt <= have;
                        desc = format!("lock_owner_stake_units V{} {}", v, show(&amt));
                        if amt.is_positive() {
                            b = b.withdraw_from_account(acct_addr(a), vi.su, d(&amt));
                        }
                        b = b.take_from_worktop(vi.su, d(&amt), "su").with_name_lookup(|b, l| b.call_method(vi.addr, VALIDATOR_LOCK_OWNER_STAKE_UNITS_IDENT, ValidatorLockOwnerStakeUnitsManifestInput { stake_unit_bucket: l.bucket("su") }));
                        want.su[v][a] -= &amt;
                        want.val[v].locked += &amt;
                    }
                    9 => {
                        let have = m.val[v].locked.clone();
                        let amt = match g.weighted(&[3, 3, 2, 1]) {
                            0 => have.clone(),
                            1 => &have / 2,
                            2 => rand_below(g, &have),
                            _ => &have + 1,
                        };
                        expect_ok = amt <= have;
                        desc = format!("start_unlock_owner_stake_units V{} {}", v, show(&amt));
                        b = b.call_method(vi.addr, VALIDATOR_START_UNLOCK_OWNER_STAKE_UNITS_IDENT, ValidatorStartUnlockOwnerStakeUnitsInput { requested_stake_unit_amount: d(&amt) });
                        want.val[v].locked -= &amt;
                        want.val[v].unlocking += &amt;
                        unlock_update = Some((m.epoch + cfg.num_owner_stake_units_unlock_epochs, amt));
                    }
                    _ => {
                        let ready: BigInt = unlocks[v].range(..=m.epoch).map(|(_, x)| x.clone()).sum();
                        desc = format!("finish_unlock_owner_stake_units V{} (ready {})", v, show(&ready));
                        b = b.call_method(vi.addr, VALIDATOR_FINISH_UNLOCK_OWNER_STAKE_UNITS_IDENT, ValidatorFinishUnlockOwnerStakeUnitsInput {}).try_deposit_entire_worktop_or_abort(acct_addr(a), None);
                        want.val[v].unlocking -= &ready;
                        want.su[v][a] += &ready;
                        finish = true;
                    }
                }
                log.push(format!("A{}{} {}", a, if unauthorized { " (not the owner)" } else { "" }, desc));
                let ctx = format!("{}\nstate before: {}", log.join("\n"), m.render());
                let tx = exec(w, b.build(), a, &ctx)?;
                let obs = observe(w, &mut cx)?;
                if unauthorized {
                    expect_ok = false;
                }
                if tx.ok != expect_ok {
                    return Err(fail(
                        if expect_ok { "an owner operation with the owner badge failed" } else if unauthorized { "an owner-only validator method succeeded without the owner badge" } else { "an owner operation with an invalid argument succeeded" },
                        format!("{}\noutcome: {}", ctx, if tx.ok { "success".into() } else { tx.err.clone() }),
                    ));
                }
                if !tx.ok {
                    if unauthorized && tx.class != Some(ErrClass::Auth) && kind != 8 {
                        return Err(fail("an owner-only validator method without the badge failed with a non-auth error", format!("{}\nerror {}", ctx, tx.err)));
                    }
                    let mut same = m.clone();
                    settle_fees(&mut same, &obs, &m, &ctx)?;
                    expect_state(&obs, &same, "a failed staking transaction changed state", &ctx)?;
                    g.label(if unauthorized { "owner-only call refused (predicted)" } else { "owner operation with invalid argument refused (predicted)" });
                    m = obs;
                    continue;
                }
                settle_fees(&mut want, &obs, &m, &ctx)?;
                expect_state(&obs, &want, "an owner operation changed something else than its documented effect", &ctx)?;
                if let Some((epoch, amt)) = unlock_update {
                    // the code first moves matured entries aside (they stay in the unlock vault), then adds
                    *unlocks[v].entry(epoch).or_default() += amt;
                }
                if finish {
                    let done: Vec<u64> = unlocks[v].range(..=m.epoch).map(|(e, _)| *e).collect();
                    for e in done {
                        unlocks[v].remove(&e);
                    }
                    g.label("finish unlock of owner stake units");
                }
                if kind == 5 {
                    g.label("register / unregister");
                }
                log.push("  -> ok".into());
                m = obs;
            }
            // ---- next round -------------------------------------------------------------------
            11 => {
                let set_before = active_set(w);
                let n = set_before.len();
                let gaps = g.weighted(&[6, 2, 1, 1]) as u64;
                let leaders: Vec<u8> = (0..gaps).map(|_| g.index(n.max(1)) as u8).collect();
                let leader = g.index(n.max(1)) as u8;
                let fallback = g.chance(1, 6);
                time_ms += *g.pick(&[0i64, 1, 400, 1000, 1100, 60_000]);
                let round = m.round + 1 + gaps;
                log.push(format!("next_round {} (gap leaders {:?}, leader {}, fallback {}, t={})", round, leaders, leader, fallback, time_ms));
                let ctx = format!("{}\nstate before: {}\nactive set {:?}", log.join("\n"), m.render(), set_before);
                let manifest = ManifestBuilder::new_system_v1()
                    .call_method(
                        CONSENSUS_MANAGER,
                        CONSENSUS_MANAGER_NEXT_ROUND_IDENT,
                        ConsensusManagerNextRoundInput {
                            round: Round::of(round),
                            proposer_timestamp_ms: time_ms,
                            leader_proposal_history: LeaderProposalHistory { gap_round_leaders: leaders.clone(), current_leader: leader, is_fallback: fallback },
                        },
                    )
                    .build();
                let run = w.run_system(manifest, vec![system_execution(SystemExecution::Validator)]);
                let tx = digest(run, &ctx)?;
                let obs = observe(w, &mut cx)?;
                if n == 0 {
                    if tx.ok {
                        return Err(fail("next_round with a leader index succeeded although the active set is empty", ctx));
                    }
                    expect_state(&obs, &m, "a failed round change changed state", &ctx)?;
                    g.label("round change impossible: active validator set is empty");
                    continue;
                }
                if !tx.ok {
                    return Err(fail("a well-formed next_round failed", format!("{}\nerror {}", ctx, tx.err)));
                }
                let Some(event) = tx.next_epoch else {
                    let mut want = m.clone();
                    want.round = round;
                    expect_state(&obs, &want, "a round change without epoch change moved funds or state", &ctx)?;
                    if gaps > 0 || fallback {
                        g.label("round with missed proposals");
                    }
                    m = obs;
                    continue;
                };
                // ---------------- epoch change ----------------
                epochs_changed += 1;
                if event.epoch.number() != m.epoch + 1 || obs.epoch != m.epoch + 1 || obs.round != 0 {
                    return Err(fail("epoch change did not advance the epoch by exactly one", format!("{}\nevent epoch {}, state epoch {} round {}", ctx, event.epoch.number(), obs.epoch, obs.round)));
                }
                let minted = &obs.xrd_supply - &m.xrd_supply;
                if minted.is_negative() || minted > emission_cap {
                    return Err(fail(
                        "emission minted per epoch exceeds the configured total_emission_xrd_per_epoch",
                        format!("{}\nminted {}, configured {}", ctx, show(&minted), show(&emission_cap)),
                    ));
                }
                let distributed = &m.rewards - &obs.rewards;
                if distributed.is_negative() || obs.rewards.is_negative() {
                    return Err(fail("rewards distributed at the epoch change exceed the reward vault", format!("{}\nreward vault {} -> {}", ctx, show(&m.rewards), show(&obs.rewards))));
                }
                let prev: BTreeSet<ComponentAddress> = set_before.iter().map(|(a, _)| *a).collect();
                let mut want = m.clone();
                want.epoch += 1;
                want.round = 0;
                want.rewards = obs.rewards.clone();
                want.xrd_supply = obs.xrd_supply.clone();
                let mut credited = BigInt::zero();
                for v in 0..nv {
                    let dk = &obs.val[v].k - &m.val[v].k;
                    let ds = &obs.val[v].s - &m.val[v].s;
                    if dk.is_negative() || ds.is_negative() {
                        return Err(fail("an epoch change reduced a validator's stake or unit supply", format!("{}\nV{}: stake {} -> {}", ctx, v, show(&m.val[v].k), show(&obs.val[v].k))));
                    }
                    if dk.is_positive() {
                        if !prev.contains(&cx.ext.validators[v].addr) {
                            return Err(fail("emission / reward credited to a validator outside the concluded epoch's set", format!("{}\nV{} gained {}", ctx, v, show(&dk))));
                        }
                        if m.val[v].k.is_zero() {
                            // emissions follow the stake listed when the epoch began: a validator fully
                            // unstaked during the epoch still receives them (stake > 0 with 0 units)
                            g.label("emission credited to a validator that was fully unstaked during the epoch");
                        }
                        if staked_here[v].is_empty() == false {
                            emitted_after_stake[v] = true;
                        }
                    }
                    // units minted for the owner (fee share, rewards) are staking: <= added * supply / stake
                    if &ds * &m.val[v].k > &dk * &m.val[v].s {
                        return Err(fail(
                            "epoch change minted more owner stake units than the proportional share of the XRD added",
                            format!("{}\nV{}: stake {} (+{}), supply {} (+{})", ctx, v, show(&m.val[v].k), show(&dk), show(&m.val[v].s), show(&ds)),
                        ));
                    }
                    credited += &dk;
                    want.val[v].k = obs.val[v].k.clone();
                    want.val[v].s = obs.val[v].s.clone();
                    want.val[v].locked = &m.val[v].locked + &ds;
                }
                if credited != &minted + &distributed {
                    return Err(fail(
                        "XRD credited to validators at the epoch change differs from emission minted plus rewards taken from the vault",
                        format!("{}\ncredited {}, minted {}, rewards taken {}", ctx, show(&credited), show(&minted), show(&distributed)),
                    ));
                }
                if credited > &emission_cap + &m.rewards {
                    return Err(fail("validators were credited more than the configured emission plus the reward vault", ctx));
                }
                expect_state(&obs, &want, "an epoch change moved something else than emissions and rewards", &ctx)?;
                // ---- the validator set of the event ----
                let set = &event.validator_set.validators_by_stake_desc;
                if set.len() > cfg.max_validators as usize {
                    return Err(fail("the active validator set is larger than max_validators", format!("{}\n{} members", ctx, set.len())));
                }
                let mut last: Option<Decimal> = None;
                for (addr, listed) in set.iter() {
                    let Some(v) = cx.ext.validators.iter().position(|x| x.addr == *addr) else {
                        return Err(fail("harness: unknown validator in the active set", format!("{}\n{:?}", ctx, addr)));
                    };
                    if !obs.val[v].registered {
                        return Err(fail("the active validator set contains an unregistered validator", format!("{}\nV{} in {:?}", ctx, v, set)));
                    }
                    if !obs.val[v].k.is_positive() {
                        return Err(fail("the active validator set contains a validator without stake", format!("{}\nV{} in {:?}", ctx, v, set)));
                    }
                    if big(listed.stake) != obs.val[v].k {
                        return Err(fail(
                            "a validator's stake listed in the EpochChangeEvent differs from its stake vault",
                            format!("{}\nV{}: listed {}, vault {}", ctx, v, listed.stake, show(&obs.val[v].k)),
                        ));
                    }
                    if let Some(prev_stake) = last {
                        if listed.stake > prev_stake {
                            return Err(fail("the active validator set is not ordered by stake descending", format!("{}\n{:?}", ctx, set)));
                        }
                    }
                    last = Some(listed.stake);
                }
                let after = active_set(w);
                if after.iter().map(|(a, s)| (*a, *s)).collect::<Vec<_>>() != set.iter().map(|(a, v)| (*a, v.stake)).collect::<Vec<_>>() {
                    return Err(fail("the stored validator set differs from the EpochChangeEvent", format!("{}\nstored {:?}", ctx, after)));
                }
                if minted.is_positive() {
                    g.label("epoch change with emission");
                }
                if distributed.is_positive() {
                    g.label("epoch change with rewards distributed");
                }
                if minted.is_zero() && prev.iter().any(|a| cx.ext.validators.iter().position(|x| x.addr == *a).map(|v| m.val[v].k.is_positive()).unwrap_or(false)) {
                    g.label("epoch change with emission fully withheld (reliability)");
                }
                if set.len() == cfg.max_validators as usize && (0..nv).filter(|v| obs.val[*v].registered && obs.val[*v].k.is_positive()).count() > set.len() {
                    g.label("validator set cut at max_validators");
                }
                if set.len() >= 2 {
                    g.label("validator set with >= 2 members (order checked)");
                }
                log.push(format!("  -> epoch {}: minted {}, rewards out {}, set {:?}", obs.epoch, show(&minted), show(&distributed), set.iter().map(|(a, v)| (cx.ext.validators.iter().position(|x| x.addr == *a).unwrap(), v.stake)).collect::<Vec<_>>()));
                m = obs;
            }
            // ---- create validator -----------------------------------------------------------------
            12 => {
                let a = g.index(NACC);
                let pay = match g.weighted(&[6, 1]) {
                    0 => pow10(18) * 2500,
                    _ => pow10(18),
                };
                let fee = match g.weighted(&[5, 1]) {
                    0 => Decimal::from(g.below(101)) / 100,
                    _ => dec!("1.5"),
                };
                let key = Secp256k1PrivateKey::from_u64(9001 + cx.created as u64).unwrap().public_key();
                log.push(format!("A{} create_validator fee {} paying {}", a, fee, show(&pay)));
                let ctx = format!("{}\nstate before: {}", log.join("\n"), m.render());
                let b = ManifestBuilder::new()
                    .lock_fee_from_faucet()
                    .withdraw_from_account(acct_addr(a), XRD, d(&pay))
                    .take_all_from_worktop(XRD, "pay")
                    .create_validator(key, fee, "pay")
                    .try_deposit_entire_worktop_or_abort(acct_addr(a), None);
                let tx = exec(w, b.build(), a, &ctx)?;
                let expect_ok = pay >= pow10(18) * 2000 && fee <= dec!(1) && pay <= m.xrd[a];
                if tx.ok != expect_ok {
                    return Err(fail("create_validator outcome differs from the prediction (payment >= cost, fee in 0..=1)", format!("{}\noutcome: {}", ctx, if tx.ok { "success".into() } else { tx.err.clone() })));
                }
                if !tx.ok {
                    let obs = observe(w, &mut cx)?;
                    let mut same = m.clone();
                    settle_fees(&mut same, &obs, &m, &ctx)?;
                    expect_state(&obs, &same, "a failed staking transaction changed state", &ctx)?;
                    g.label("create validator refused (payment / fee, predicted)");
                    m = obs;
                    continue;
                }
                let Some(addr) = tx.new_components.iter().find(|c| c.as_node_id().entity_type() == Some(EntityType::GlobalValidator)).cloned() else {
                    return Err(fail("harness: created validator not found in the receipt", ctx));
                };
                cx.ext.validators.push(vinfo(w, addr, a));
                cx.created += 1;
                unlocks.push(BTreeMap::new());
                staked_here.push(BTreeSet::new());
                emitted_after_stake.push(false);
                let obs = observe(w, &mut cx)?;
                let mut want = m.clone();
                settle_fees(&mut want, &obs, &m, &ctx)?;
                let cost = &m.xrd[a] - &obs.xrd[a];
                if cost.is_negative() || cost > pay {
                    return Err(fail("create_validator charged an amount outside 0..=payment", format!("{}\ncharged {}", ctx, show(&cost))));
                }
                want.xrd[a] -= &cost;
                want.su.push(vec![BigInt::zero(); NACC]);
                want.claims.push(vec![BTreeSet::new(); NACC]);
                want.val.push(VSt { registered: false, accepts: false, k: BigInt::zero(), s: BigInt::zero(), pending: BigInt::zero(), locked: BigInt::zero(), unlocking: BigInt::zero() });
                expect_state(&obs, &want, "create_validator changed something else than the creator's XRD", &ctx)?;
                g.label("validator created in the history");
                log.push(format!("  -> ok, V{} for {}", cx.ext.validators.len() - 1, show(&cost)));
                m = obs;
            }
            // ---- get_redemption_value ---------------------------------------------------------
            _ => {
                let v = g.index(nv);
                let s0 = m.val[v].s.clone();
                let u = match g.weighted(&[4, 3, 2, 1]) {
                    0 => rand_below(g, &s0),
                    1 => s0.clone(),
                    2 => BigInt::one(),
                    _ => &s0 + 1,
                };
                let vi = cx.ext.validators[v].clone();
                log.push(format!("get_redemption_value V{} {}", v, show(&u)));
                let ctx = format!("{}\nstate before: {}", log.join("\n"), m.render());
                let b = ManifestBuilder::new().lock_fee_from_faucet().call_method(vi.addr, VALIDATOR_GET_REDEMPTION_VALUE_IDENT, ValidatorGetRedemptionValueInput { amount_of_stake_units: d(&u) });
                let tx = exec(w, b.build(), 0, &ctx)?;
                let obs = observe(w, &mut cx)?;
                let mut same = m.clone();
                settle_fees(&mut same, &obs, &m, &ctx)?;
                expect_state(&obs, &same, "get_redemption_value changed state", &ctx)?;
                let valid = u.is_positive() && u <= s0;
                if tx.ok != valid {
                    return Err(fail("get_redemption_value outcome differs from 0 < amount <= supply", format!("{}\noutcome: {}", ctx, if tx.ok { "success".into() } else { tx.err.clone() })));
                }
                if tx.ok {
                    let Some(value) = tx.outputs.get(1).and_then(|o| o.as_ref()).and_then(|b| scrypto_decode::<Decimal>(b).ok()) else {
                        return Err(fail("harness: cannot decode get_redemption_value output", ctx));
                    };
                    if big(value).is_negative() || big(value) * &s0 > &u * &m.val[v].k {
                        return Err(fail(
                            "get_redemption_value exceeds the units' proportional share u*stake/supply",
                            format!("{}\nvalue {} at stake {} / supply {}", ctx, value, show(&m.val[v].k), show(&s0)),
                        ));
                    }
                }
                m = obs;
            }
        }
    }

    let problems = Totals::scan(w.db()).supply_problems();
    if !problems.is_empty() {
        return Err(fail("ledger scan after the history: supply and vault totals disagree", format!("{}\n{:?}", log.join("\n"), problems)));
    }
    if nontrivial {
        g.nontrivial();
    }
    g.count("steps", steps as u64);
    g.count("epoch_changes", epochs_changed);
    g.sample(|| log.join("\n"));
    Ok(())
}

pub fn check() -> Check {
    Check::new(
        "C42",
        "Validator staking and emissions never create value",
        "One of three custom-genesis worlds (5 genesis validators: registered or not, accepting delegated stake or not, fee 0 / 0.02 / 0.1 / 0.5 / 1, stakes 0 / 99 999.5 / 120 000 / 350 000 / 500 000 XRD from 1-2 stakers; max_validators 2/3/4; epoch = 2 rounds / 1-4 rounds or 1 s / 1 round; emission 100 / 2853.88 / 0.000001000000000123; min reliability 1 / 0.5 / 0; unstake delay 1 / 2 / 0 epochs) and a history of 1-40 operations by 4 accounts: stake, stake_as_owner, stake+unstake in one manifest (amounts 1 atto .. whole balance, biased to the 100 000 XRD index buckets), unstake (all / half / random / 1 atto / too much), claim (1-2 NFTs, before and after the delay), register / unregister, update_fee (valid and invalid), update_accept_delegated_stake, lock / start_unlock / finish_unlock owner stake units, create_validator, owner-only calls by others, get_redemption_value, and next_round system transactions with 0-3 gap rounds, chosen leaders and fallback rounds (epoch changes follow from the configuration). After every transaction every tracked quantity is re-read from raw substates (vf-world scan of all vaults and supplies, validator and consensus-manager fields) and must equal the model; rounded amounts are bounded, then adopted: units minted m*stake <= x*supply (m = x when the validator is empty), claim c*supply <= u*stake and c <= x for stake+unstake, claim epoch = current + num_unstake_epochs, claim pays exactly the NFT amounts and only at/after the claim epoch; per epoch change: XRD minted in 0..=configured emission, reward vault non-negative and only decreasing, sum of stake-vault increases == minted + rewards taken, only members of the concluded set with stake gain, owner units minted dS*stake <= dK*supply, nothing else moves; EpochChangeEvent set: size <= max_validators, every member registered with stake vault > 0, listed stake == stake vault, stake non-increasing, equal to the stored set; supply == sum of vaults for all resources at the end. Non-trivial = an unstake on a validator with >= 2 unit holders that received emission/rewards after a stake made in this history. Distinct = distinct decoded choice sequences.",
    )
    .assume("epoch changes are observed (event + consensus manager state), not predicted: the epoch-change condition itself is not part of the property")
    .assume("validator fee factors and the owner-unit lock / unlock delays are modelled only as far as the vault movements go; the fee change delay is not asserted")
    .part(Part::new("history", 1_600, 40_000, 1600, run))
    .min_nontrivial_pct(3.0)
}
