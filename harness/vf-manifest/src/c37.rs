//! C37 Resource assertions accept exactly the balances they describe.

use crate::cgen::*;
use num_bigint::BigInt;
use num_traits::{Signed, Zero};
use radix_common::prelude::*;
use std::collections::BTreeSet;
use vf_core::{catch, ensure, Check, Gen, Outcome, Part};
use vf_math::refdec::{big_to_dec, dec_to_big, DEC};

const WITNESS_CAP: usize = 64;

fn code_accepts(c: &ManifestResourceConstraint, b: &Balance) -> Result<bool, String> {
    let c = c.clone();
    match b {
        Balance::Amount(a) => {
            let d = big_to_dec(a);
            catch(move || c.validate_fungible(d).is_ok())
        }
        Balance::Ids(s) => {
            let ids = ids_of(s);
            catch(move || c.validate_non_fungible(&ids).is_ok())
        }
    }
}

fn render_balance(b: &Balance) -> String {
    match b {
        Balance::Amount(a) => format!("amount {}", big_to_dec(a)),
        Balance::Ids(s) => {
            let v: Vec<String> = s.iter().map(|i| universe_id(*i).to_string()).collect();
            format!("ids {{{}}}", v.join(","))
        }
    }
}

fn bound_values(c: &ManifestResourceConstraint) -> Vec<BigInt> {
    let mut v = Vec::new();
    match c {
        ManifestResourceConstraint::ExactAmount(d) | ManifestResourceConstraint::AtLeastAmount(d) => v.push(dec_to_big(*d)),
        ManifestResourceConstraint::General(g) => {
            if let LowerBound::Inclusive(d) = g.lower_bound {
                v.push(dec_to_big(d));
            }
            if let UpperBound::Inclusive(d) = g.upper_bound {
                v.push(dec_to_big(d));
            }
            v.push(BigInt::from(g.required_ids.len()) * one());
            if let AllowedIds::Allowlist(a) = &g.allowed_ids {
                v.push(BigInt::from(a.len()) * one());
            }
        }
        _ => {}
    }
    v
}

/// Amount probes: 0, 1 atto, 1, MAX and every bound of the constraint ± 1 atto (non-negative, in range).
fn amount_probes(g: &mut Gen, c: &ManifestResourceConstraint) -> Vec<Balance> {
    let mut vals: Vec<BigInt> = vec![BigInt::zero(), BigInt::from(1u8), one(), DEC.max()];
    for b in bound_values(c) {
        for d in [-1i32, 0, 1] {
            vals.push(b.clone() + BigInt::from(d));
        }
    }
    vals.push(gen_amount(g, false));
    let max = DEC.max();
    let mut out: Vec<BigInt> = vals.into_iter().filter(|v| !v.is_negative() && *v <= max).collect();
    out.sort();
    out.dedup();
    out.into_iter().map(Balance::Amount).collect()
}

/// All 64 subsets of the universe, plus a few balances holding ids outside it.
fn id_probes(g: &mut Gen) -> Vec<Balance> {
    let mut out: Vec<Balance> = (0u32..(1 << UNIVERSE))
        .map(|mask| Balance::Ids((0..UNIVERSE).filter(|i| mask >> i & 1 == 1).collect()))
        .collect();
    for extra in 1..=2usize {
        let mut s = gen_subset(g);
        for k in 0..extra {
            s.insert(UNIVERSE + k);
        }
        out.push(Balance::Ids(s));
    }
    out
}

fn is_valid(c: &ManifestResourceConstraint, fungible: bool) -> Result<bool, String> {
    let c = c.clone();
    catch(move || if fungible { c.is_valid_for_fungible_use() } else { c.is_valid_for_non_fungible_use() })
}

/// A balance that satisfies a *valid* constraint, built from the validity rules in the doc comment.
/// `Err(why)` = none exists (contradicts validity); `Ok(None)` = larger than the harness wants to build.
fn witness(c: &ManifestResourceConstraint, fungible: bool) -> Result<Option<Balance>, String> {
    if fungible {
        let a = match c {
            ManifestResourceConstraint::NonZeroAmount => BigInt::from(1u8),
            ManifestResourceConstraint::ExactAmount(d) | ManifestResourceConstraint::AtLeastAmount(d) => dec_to_big(*d),
            ManifestResourceConstraint::General(g) => match g.lower_bound {
                LowerBound::NonZero => BigInt::from(1u8),
                LowerBound::Inclusive(d) => dec_to_big(d),
            },
            _ => return Err("id constraint declared valid for a fungible resource".into()),
        };
        if a.is_negative() {
            return Err(format!("valid constraint needs the negative amount {}", a));
        }
        return Ok(Some(Balance::Amount(a)));
    }
    let whole = |d: &Decimal| -> Result<Option<usize>, String> {
        let v = dec_to_big(*d);
        if v.is_negative() || !(&v % one()).is_zero() {
            return Err(format!("valid non-fungible constraint with a negative or fractional amount {}", d));
        }
        let n = v / one();
        Ok(if n > BigInt::from(WITNESS_CAP) { None } else { Some(n.to_string().parse().unwrap()) })
    };
    let fresh = |n: usize| -> BTreeSet<usize> { (0..n).map(|k| UNIVERSE + k).collect() };
    Ok(Some(Balance::Ids(match c {
        ManifestResourceConstraint::NonZeroAmount => fresh(1),
        ManifestResourceConstraint::ExactAmount(d) | ManifestResourceConstraint::AtLeastAmount(d) => match whole(d)? {
            Some(n) => fresh(n),
            None => return Ok(None),
        },
        ManifestResourceConstraint::ExactNonFungibles(s) | ManifestResourceConstraint::AtLeastNonFungibles(s) => set_of(s),
        ManifestResourceConstraint::General(g) => {
            let mut ids = set_of(&g.required_ids);
            let need = match g.lower_bound {
                LowerBound::NonZero => 1,
                LowerBound::Inclusive(d) => match whole(&d)? {
                    Some(n) => n,
                    None => return Ok(None),
                },
            };
            match &g.allowed_ids {
                AllowedIds::Allowlist(a) => {
                    for i in set_of(a) {
                        if ids.len() >= need {
                            break;
                        }
                        ids.insert(i);
                    }
                    if ids.len() < need {
                        return Err(format!("needs {} ids but the allow-list only offers {}", need, ids.len()));
                    }
                }
                AllowedIds::Any => {
                    let mut k = 0;
                    while ids.len() < need {
                        ids.insert(UNIVERSE + k);
                        k += 1;
                    }
                }
            }
            ids
        }
    })))
}

fn eq_dec(l: &LowerBound) -> BigInt {
    match l {
        LowerBound::NonZero => BigInt::from(1u8),
        LowerBound::Inclusive(d) => dec_to_big(*d),
    }
}

fn single(g: &mut Gen) -> Outcome {
    let fungible = g.bool();
    let c = gen_constraint(g, fungible);
    g.label(if fungible { "fungible balance" } else { "non-fungible balance" });
    g.label(match &c {
        ManifestResourceConstraint::NonZeroAmount => "NonZeroAmount",
        ManifestResourceConstraint::ExactAmount(_) => "ExactAmount",
        ManifestResourceConstraint::AtLeastAmount(_) => "AtLeastAmount",
        ManifestResourceConstraint::ExactNonFungibles(_) => "ExactNonFungibles",
        ManifestResourceConstraint::AtLeastNonFungibles(_) => "AtLeastNonFungibles",
        ManifestResourceConstraint::General(_) => "General",
    });
    let kind = if fungible { "fungible" } else { "non-fungible" };
    let valid = match is_valid(&c, fungible) {
        Ok(v) => v,
        Err(p) => return Outcome::fail("ManifestResourceConstraint::is_valid_for panics", format!("{} for {} use: {}", render_constraint(&c), kind, p)),
    };
    g.label(if valid { "valid for the resource kind" } else { "invalid for the resource kind" });
    if let ManifestResourceConstraint::General(gc) = &c {
        if !fungible && !gc.required_ids.is_empty() && matches!(gc.allowed_ids, AllowedIds::Allowlist(_)) {
            g.label("General with allow-list and required ids");
            g.nontrivial();
        }
        if fungible && valid {
            g.nontrivial();
        }
    } else if valid && !matches!(c, ManifestResourceConstraint::NonZeroAmount) {
        g.nontrivial();
    }
    g.sample(|| format!("{} against every {} probe balance (valid={})", render_constraint(&c), kind, valid));

    let probes = if fungible { amount_probes(g, &c) } else { id_probes(g) };
    g.count("balance probes", probes.len() as u64);

    // 1. accept <=> meaning
    let mut accepted_before = Vec::with_capacity(probes.len());
    for b in &probes {
        let got = match code_accepts(&c, b) {
            Ok(v) => v,
            Err(p) => return Outcome::fail(format!("validate on a {} balance panics", kind), format!("{} with {}: {}", render_constraint(&c), render_balance(b), p)),
        };
        accepted_before.push(got);
        match satisfies(&c, b) {
            Some(expect) => {
                ensure!(
                    got == expect,
                    format!("{} balance: validate {} a balance that {} the constraint", kind, if got { "accepts" } else { "rejects" }, if expect { "satisfies" } else { "violates" }),
                    "{} with {}: validate says {}, the documented meaning says {} (constraint valid for {} use: {})",
                    render_constraint(&c),
                    render_balance(b),
                    if got { "Ok" } else { "Err" },
                    expect,
                    kind,
                    valid
                );
            }
            None => g.count("probes without documented meaning", 1),
        }
    }

    // 2. valid => satisfiable
    if valid {
        match witness(&c, fungible) {
            Err(why) => {
                return Outcome::fail(
                    format!("constraint declared valid for {} use is unsatisfiable", kind),
                    format!("{}: {}", render_constraint(&c), why),
                )
            }
            Ok(None) => g.label("witness larger than 64 ids (not built)"),
            Ok(Some(w)) => {
                g.count("witnesses checked", 1);
                let got = match code_accepts(&c, &w) {
                    Ok(v) => v,
                    Err(p) => return Outcome::fail(format!("validate on a {} balance panics", kind), format!("{} with witness {}: {}", render_constraint(&c), render_balance(&w), p)),
                };
                ensure!(
                    got,
                    format!("constraint declared valid for {} use rejects the witness balance built from its own bounds", kind),
                    "{} rejects {}",
                    render_constraint(&c),
                    render_balance(&w)
                );
            }
        }
    }

    // 3. normalisation of a valid general constraint
    if let (true, ManifestResourceConstraint::General(gc)) = (valid, &c) {
        let mut n = gc.clone();
        let n = match catch(move || {
            n.normalize();
            n
        }) {
            Ok(n) => n,
            Err(p) => return Outcome::fail("GeneralResourceConstraint::normalize panics", format!("{}: {}", render_general(gc), p)),
        };
        if n != *gc {
            g.label("normalize changed the constraint");
        }
        let nc = ManifestResourceConstraint::General(n.clone());
        for (b, before) in probes.iter().zip(accepted_before.iter()) {
            let after = match code_accepts(&nc, b) {
                Ok(v) => v,
                Err(p) => return Outcome::fail(format!("validate on a {} balance panics", kind), format!("{} with {}: {}", render_general(&n), render_balance(b), p)),
            };
            // the one class where `is_valid_for_fungible_use` is laxer than its doc comment ("an empty
            // allowlist is also permitted if the upper bound is zero") gets its own signature
            let lax_empty_allowlist = fungible
                && gc.allowed_ids == AllowedIds::none()
                && !matches!(gc.upper_bound, UpperBound::Inclusive(d) if d.is_zero());
            ensure!(
                after == *before,
                if lax_empty_allowlist {
                    "normalize changes accepted fungible balances: empty allow-list with a non-zero upper bound is declared valid for fungible use".to_string()
                } else {
                    format!("normalize changes which {} balances a valid general constraint accepts", kind)
                },
                "{} accepts={} but normalized {} accepts={} for {}",
                render_general(gc),
                before,
                render_general(&n),
                after,
                render_balance(b)
            );
        }
        // documented canonical form
        let req = BigInt::from(n.required_ids.len()) * one();
        let lo = eq_dec(&n.lower_bound);
        let up = match n.upper_bound {
            UpperBound::Unbounded => None,
            UpperBound::Inclusive(d) => Some(dec_to_big(d)),
        };
        let allow = match &n.allowed_ids {
            AllowedIds::Any => None,
            AllowedIds::Allowlist(a) => Some(BigInt::from(a.len()) * one()),
        };
        let up_or_max = up.clone().unwrap_or_else(|| DEC.max());
        let ordered = req <= lo && lo <= up_or_max && allow.as_ref().map(|a| up_or_max <= *a).unwrap_or(true);
        ensure!(
            ordered,
            "normalize: required.len <= lower <= upper <= allowlist.len does not hold",
            "{} normalized to {}",
            render_general(gc),
            render_general(&n)
        );
        if up.as_ref() == Some(&req) {
            ensure!(
                n.allowed_ids == AllowedIds::Allowlist(n.required_ids.clone()),
                "normalize: required.len == upper but allowed ids != required ids",
                "{} normalized to {}",
                render_general(gc),
                render_general(&n)
            );
        }
        if let (Some(a), AllowedIds::Allowlist(list)) = (&allow, &n.allowed_ids) {
            if *a == lo {
                ensure!(
                    n.required_ids == *list,
                    "normalize: lower == allowlist.len but required ids != allowlist",
                    "{} normalized to {}",
                    render_general(gc),
                    render_general(&n)
                );
            }
        }
    }
    Outcome::Pass
}

// ---- maps of constraints against aggregate balances ---------------------------------------------

fn resource(i: usize) -> ResourceAddress {
    let (et, fill) = match i {
        0 => (EntityType::GlobalFungibleResourceManager, 0x01),
        1 => (EntityType::GlobalFungibleResourceManager, 0x02),
        2 => (EntityType::GlobalNonFungibleResourceManager, 0x03),
        _ => (EntityType::GlobalNonFungibleResourceManager, 0x04),
    };
    let mut raw = [fill; NodeId::LENGTH];
    raw[0] = et as u8;
    ResourceAddress::new_or_panic(raw)
}

fn multi(g: &mut Gen) -> Outcome {
    // constraints
    let mut spec: Vec<Option<ManifestResourceConstraint>> = Vec::new();
    for i in 0..4 {
        let fungible = i < 2;
        spec.push(if g.chance(1, 2) {
            Some(if g.chance(3, 4) { gen_valid_constraint(g, fungible) } else { gen_constraint(g, fungible) })
        } else {
            None
        });
    }
    // balances
    let mut bal: Vec<Option<Balance>> = Vec::new();
    for i in 0..4 {
        let fungible = i < 2;
        bal.push(match g.weighted(&[3, 2, 5]) {
            0 => None,
            1 => Some(if fungible { Balance::Amount(BigInt::zero()) } else { Balance::Ids(BTreeSet::new()) }),
            _ => Some(if fungible {
                // sometimes exactly on a bound of the constraint
                let on_bound = spec[i].as_ref().map(bound_values).unwrap_or_default();
                if !on_bound.is_empty() && g.chance(1, 2) {
                    let v = g.pick(&on_bound).clone() + BigInt::from(g.range(-1, 1) as i32);
                    Balance::Amount(v.max(BigInt::zero()).min(DEC.max()))
                } else {
                    Balance::Amount(gen_amount(g, false))
                }
            } else {
                Balance::Ids(gen_subset(g))
            }),
        });
    }
    let split = g.chance(1, 4);
    let only = g.bool();
    g.label(if only { "validate_only" } else { "validate_includes" });

    let specified = spec.iter().filter(|s| s.is_some()).count();
    let positive_unspecified = (0..4).any(|i| {
        spec[i].is_none()
            && match &bal[i] {
                Some(Balance::Amount(a)) => a.is_positive(),
                Some(Balance::Ids(s)) => !s.is_empty(),
                None => false,
            }
    });
    if positive_unspecified {
        g.label("non-zero balance of an unspecified resource");
    }
    if specified >= 2 {
        g.nontrivial();
    }

    // expected verdict
    let per: Vec<Option<bool>> = (0..4)
        .filter_map(|i| {
            spec[i].as_ref().map(|c| {
                let b = bal[i].clone().unwrap_or(if i < 2 { Balance::Amount(BigInt::zero()) } else { Balance::Ids(BTreeSet::new()) });
                satisfies(c, &b)
            })
        })
        .collect();
    let expected: Option<bool> = if only && positive_unspecified {
        Some(false)
    } else if per.iter().any(|r| *r == Some(false)) {
        Some(false)
    } else if per.iter().any(|r| r.is_none()) {
        None
    } else {
        Some(true)
    };

    let describe = |spec: &Vec<Option<ManifestResourceConstraint>>, bal: &Vec<Option<Balance>>| -> String {
        let mut s = String::new();
        for i in 0..4 {
            s.push_str(&format!(
                "[{}{}: constraint {} | balance {}] ",
                if i < 2 { "F" } else { "N" },
                i % 2 + 1,
                spec[i].as_ref().map(render_constraint).unwrap_or_else(|| "-".into()),
                bal[i].as_ref().map(render_balance).unwrap_or_else(|| "absent".into())
            ));
        }
        s
    };
    g.sample(|| format!("{} {}", if only { "validate_only" } else { "validate_includes" }, describe(&spec, &bal)));

    let spec2 = spec.clone();
    let bal2 = bal.clone();
    let got = catch(move || {
        let mut constraints = ManifestResourceConstraints::new();
        for (i, c) in spec2.into_iter().enumerate() {
            if let Some(c) = c {
                constraints = constraints.with_unchecked(resource(i), c);
            }
        }
        let mut agg = AggregateResourceBalances::new();
        for (i, b) in bal2.into_iter().enumerate() {
            match b {
                Some(Balance::Amount(a)) => {
                    if split && a > BigInt::from(1u8) {
                        let half = &a / BigInt::from(2u8);
                        agg.add_fungible(resource(i), big_to_dec(&half));
                        agg.add_fungible(resource(i), big_to_dec(&(a - half)));
                    } else {
                        agg.add_fungible(resource(i), big_to_dec(&a));
                    }
                }
                Some(Balance::Ids(s)) => {
                    if split && s.len() > 1 {
                        let first: BTreeSet<usize> = s.iter().copied().take(1).collect();
                        agg.add_non_fungible(resource(i), ids_of(&first));
                        agg.add_non_fungible(resource(i), ids_of(&s));
                    } else {
                        agg.add_non_fungible(resource(i), ids_of(&s));
                    }
                }
                None => {}
            }
        }
        if only {
            agg.validate_only(constraints).is_ok()
        } else {
            agg.validate_includes(constraints).is_ok()
        }
    });
    let got = match got {
        Ok(v) => v,
        Err(p) => return Outcome::fail("AggregateResourceBalances::validate_* panics", format!("{}: {}", describe(&spec, &bal), p)),
    };
    g.label(if got { "accepted" } else { "rejected" });
    match expected {
        Some(e) => {
            ensure!(
                got == e,
                format!(
                    "{} {} balances that {} the constraints",
                    if only { "validate_only" } else { "validate_includes" },
                    if got { "accepts" } else { "rejects" },
                    if e { "satisfy" } else { "violate" }
                ),
                "{}: code says {}, documented meaning says {}",
                describe(&spec, &bal),
                got,
                e
            );
        }
        None => g.label("a constraint without documented meaning for its resource kind"),
    }
    Outcome::Pass
}

pub fn check() -> Check {
    Check::new(
        "C37",
        "Resource assertions accept exactly the balances they describe",
        "part single: one ManifestResourceConstraint of any shape (amount bounds 0 / attos / whole numbers / MAX / equal bounds / NonZero / Unbounded, id sets over a 6-id universe of all four id kinds, general constraints half valid by construction and half free-form) is validated against every probe balance: all 64 id subsets plus balances with foreign ids, or 0, 1 atto, MAX and each bound +-1 atto; validate Ok <=> the set-theoretic meaning written from the doc comments; a constraint declared valid must accept a witness built from its own bounds; normalize() of a valid general constraint must accept the same probes and satisfy the documented canonical inequalities. Non-trivial = general constraint with allow-list and non-empty required ids, or any valid bounded constraint probed at bound +-1 atto. part multi: ManifestResourceConstraints over 2 fungible + 2 non-fungible resources against AggregateResourceBalances (absent / zero / on-bound / random balances, sometimes added in two steps), validate_only and validate_includes; non-trivial = at least two specified resources. Distinct = distinct decoded choice sequences.",
    )
    .assume("balances are non-negative amounts / sets of ids, as the worktop and buckets produce them")
    .assume("the engine tie-in (the same verdict through ASSERT_* instructions) is not part of this check")
    .part(Part::new("single", 2_000_000, 60_000_000, 160, single))
    .part(Part::new("multi", 3_000_000, 100_000_000, 256, multi))
    .min_nontrivial_pct(20.0)
}
