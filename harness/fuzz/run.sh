#!/usr/bin/env bash
# libFuzzer stage of a thorough run: ./run.sh <ID> <target[,target...]>
# A target is named <id-lowercase>_<part>; the fuzzer's bytes are the tape of that part's case function,
# so the semantic oracle runs inside the target. Exit 0 silent, 1 + VIOLATION line, 2 inconclusive.
set -u
ID="$1"; TARGETS="$2"
HERE="$(cd "$(dirname "${BASH_SOURCE[0]}")" && pwd)"
ROOT="${VERIF_ROOT:-$(cd "$HERE/../.." && pwd)}"
SEED="${VERIF_SEED:-0}"; [ "$SEED" = "0" ] && SEED=1      # libFuzzer: 0 means random
RUNS="${VERIF_FUZZ_RUNS:-2000000}"
MAXT="${VERIF_FUZZ_MAX_TIME:-900}"
export CARGO_NET_OFFLINE=true
rc=0
for T in ${TARGETS//,/ }; do
  W="$ROOT/.work/fuzz/$ID/$T"; rm -rf "$W"; mkdir -p "$W/corpus" "$W/artifacts"
  [ -d "$ROOT/corpus/$ID" ] && cp "$ROOT/corpus/$ID"/* "$W/corpus/" 2>/dev/null
  # a few committed replay tapes make good seeds too
  for r in "$ROOT/replays/$ID"/*.json; do
    [ -f "$r" ] && python3 -c "import json,sys,binascii;d=json.load(open(sys.argv[1]));open(sys.argv[2],'wb').write(binascii.unhexlify(d['tape_hex']))" "$r" "$W/corpus/replay-$(basename "$r" .json)" 2>/dev/null
  done
  PART="${T#*_}"
  MAXLEN="$(awk -F"\t" -v t="$T" '$1==t {print $2}' "$HERE/targets.tsv")"; MAXLEN="${MAXLEN:-512}"
  if ! (cd "$HERE" && cargo +nightly fuzz build -s none "$T") >"$W/build.log" 2>&1; then
    echo "[fuzz] build of $T failed (inconclusive); log $W/build.log" >&2; tail -n 20 "$W/build.log" >&2; rc=2; continue
  fi
  (cd "$HERE" && VERIF_ROOT="$ROOT" cargo +nightly fuzz run -s none "$T" "$W/corpus" -- \
      -artifact_prefix="$W/artifacts/" -runs="$RUNS" -max_total_time="$MAXT" -seed="$SEED" \
      -len_control=0 -max_len="$MAXLEN" -timeout=60 -rss_limit_mb=4096 -print_final_stats=1) >"$W/run.log" 2>&1
  frc=$?
  execs="$(grep -o 'stat::number_of_executed_units: [0-9]*' "$W/run.log" | grep -o '[0-9]*$')"
  cov="$(grep -o 'cov: [0-9]*' "$W/run.log" | tail -1 | grep -o '[0-9]*$')"
  ncorp="$(ls "$W/corpus" | wc -l)"
  echo "[fuzz] $ID $T: execs=${execs:-?} cov=${cov:-?} corpus=$ncorp exit=$frc" >&2
  viol=""
  for a in "$W"/artifacts/crash-*; do
    [ -f "$a" ] || continue
    out="$ROOT/.work/found/$ID"; mkdir -p "$out"
    rp="$out/fuzz-$T-$(basename "$a").json"
    python3 - "$a" "$rp" "$ID" "$PART" "$W/run.log" <<'PY'
import sys, json, binascii, re
a, rp, pid, part, log = sys.argv[1:6]
msg = ""
for line in open(log, errors="replace"):
    if "FUZZ-VIOLATION" in line: msg = line.strip()
json.dump({"property": pid, "part": part, "tape_hex": binascii.hexlify(open(a,'rb').read()).decode(),
           "signature": (re.search(r"signature=\[(.*?)\]", msg) or [None, ""])[1], "message": msg, "found_by": "libFuzzer"}, open(rp, "w"), indent=1)
PY
    echo "VIOLATION property=$ID replay=$rp"; viol=1
  done
  python3 - "$ROOT/evidence/$ID.json" "$T" "${execs:-0}" "${cov:-0}" "$ncorp" "$frc" <<'PY'
import sys, json
p, t, execs, cov, ncorp, frc = sys.argv[1:7]
try:
    e = json.load(open(p))
    e["coverage"].setdefault("libfuzzer", []).append({"target": t, "executions": int(execs), "edge_coverage": int(cov), "final_corpus": int(ncorp), "exit": int(frc)})
    e["coverage"]["evaluations"] += int(execs)
    json.dump(e, open(p, "w"), indent=2)
except Exception as ex:
    print("[fuzz] could not update evidence:", ex, file=sys.stderr)
PY
  if [ -n "$viol" ]; then rc=1; break; fi
  if [ $frc -ne 0 ]; then
    echo "[fuzz] $T ended with status $frc without a crash artifact (timeout/oom/infrastructure): inconclusive" >&2
    [ $rc -eq 0 ] && rc=2
  fi
done
exit $rc
