//! vf-eng-a: engine-level checks C01 (deterministic execution) and C02 (failed / rejected / aborted
//! transactions change nothing but fees), plus the reusable typed manifest generator `mgen` (R7).
pub mod c01;
pub mod c02;
pub mod exec;
pub mod mgen;

pub fn checks() -> Vec<vf_core::Check> {
    vec![c01::check(), c02::check()]
}
