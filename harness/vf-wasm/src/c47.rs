//! C47 Host memory access from WASM is always bounds-checked.
//!
//! Four driver packages (linear memory of 1–4 pages filled by a data segment with a
//! position-dependent ASCII pattern) are published once per world. Every exported function first
//! consumes its argument buffer at a fixed address, optionally grows the memory, optionally fetches
//! the package address to a given place and applies up to five small "pokes" (all chosen in range
//! by the harness), then makes exactly one host call with generated pointers and lengths:
//! sys_log, sys_panic, actor_emit_event, crypto_utils_blake2b_256_hash / keccak256_hash,
//! blueprint_call (to `echo`, which returns its argument), buffer_consume(id, dst), or returns the
//! generated slice itself. The harness keeps a byte-exact model of the memory.

use blake2::digest::consts::U32;
use blake2::{Blake2b, Digest};
use radix_blueprint_schema_init::{BlueprintEventSchemaInit, TypeRef};
use radix_common::prelude::*;
use radix_engine::errors::{ApplicationError, RuntimeError, VmError};
use radix_engine::transaction::TransactionOutcome;
use radix_engine_interface::blueprints::package::PackageDefinition;
use radix_engine_interface::blueprints::transaction_processor::InstructionOutput;
use radix_engine::vm::wasm::WasmRuntimeError;
use radix_engine_interface::prelude::*;
use radix_transactions::prelude::*;
use std::sync::OnceLock;
use vf_core::{ensure, Check, Gen, Outcome, Part};
use vf_world::{no_genesis, with_world, World};

const PAGE: u64 = 65536;
const ARGS_AT: u32 = 1024;
const RET_AT: u32 = 3072;
const NF: usize = 30;
const NP: usize = 5;
const MAX_PAGES: u64 = 64;

// field indices
const F_GROW: usize = 0;
const F_PKG_AT: usize = 1;
const F_POKES: usize = 2;
const F_A: usize = 17;
const F_DST: usize = 25;
const F_MODE: usize = 26;
const F_ID: usize = 27;
const F_DST2: usize = 28;
const F_SRC: usize = 29;

const ALPHABET: &[u8; 64] = b"ABCDEFGHIJKLMNOPQRSTUVWXYZabcdefghijklmnopqrstuvwxyz0123456789+/";

pub fn pattern(i: usize) -> u8 {
    ALPHABET[(i + (i >> 6) * 5 + (i >> 12) * 11 + (i >> 16) * 17) % 64]
}

fn driver_wat(pages: u32) -> String {
    let mut data = String::with_capacity(pages as usize * PAGE as usize);
    for i in 0..(pages as usize * PAGE as usize) {
        data.push(pattern(i) as char);
    }
    let arg = |i: usize| format!("(call $arg (i32.const {}))", i);
    let a = |i: usize| format!("(call $arg (i32.const {}))", F_A + i);
    let mut w = String::new();
    w.push_str("(module\n");
    w.push_str(
        r#"(import "env" "buffer_consume" (func $buffer_consume (param i32 i32)))
(import "env" "actor_get_package_address" (func $pkg (result i64)))
(import "env" "sys_log" (func $sys_log (param i32 i32 i32 i32)))
(import "env" "sys_panic" (func $sys_panic (param i32 i32)))
(import "env" "actor_emit_event" (func $emit (param i32 i32 i32 i32 i32)))
(import "env" "crypto_utils_blake2b_256_hash" (func $blake (param i32 i32) (result i64)))
(import "env" "crypto_utils_keccak256_hash" (func $keccak (param i32 i32) (result i64)))
(import "env" "blueprint_call" (func $bcall (param i32 i32 i32 i32 i32 i32 i32 i32) (result i64)))
"#,
    );
    w.push_str(&format!("(memory $mem {})\n(export \"memory\" (memory $mem))\n", pages));
    w.push_str(&format!("(data (i32.const 0) \"{}\")\n", data));
    // argument i (u32) of the SBOR tuple consumed at ARGS_AT: 3 header bytes, then 1 kind byte + 4 value bytes each
    w.push_str(&format!("(func $arg (param i32) (result i32) (i32.load offset={} align=1 (i32.mul (local.get 0) (i32.const 5))))\n", ARGS_AT + 4));
    // prologue
    w.push_str(&format!(
        r#"(func $prologue (param $buf i64) (local $j i32) (local $k i32) (local $p i32)
(call $buffer_consume (i32.wrap_i64 (i64.shr_u (local.get $buf) (i64.const 32))) (i32.const {args_at}))
(if (call $arg (i32.const {grow})) (then (drop (memory.grow (call $arg (i32.const {grow}))))))
(if (i32.ne (call $arg (i32.const {pkg_at})) (i32.const -1)) (then
  (call $buffer_consume (i32.wrap_i64 (i64.shr_u (call $pkg) (i64.const 32))) (call $arg (i32.const {pkg_at})))))
(block $done (loop $next
  (br_if $done (i32.ge_u (local.get $j) (i32.const {np})))
  (local.set $p (i32.add (i32.const {pokes}) (i32.mul (local.get $j) (i32.const 3))))
  (local.set $k (i32.const 0))
  (block $d2 (loop $n2
    (br_if $d2 (i32.ge_u (local.get $k) (call $arg (i32.add (local.get $p) (i32.const 2)))))
    (i32.store8 (i32.add (call $arg (local.get $p)) (local.get $k))
      (i32.shr_u (call $arg (i32.add (local.get $p) (i32.const 1))) (i32.mul (local.get $k) (i32.const 8))))
    (local.set $k (i32.add (local.get $k) (i32.const 1)))
    (br $n2)))
  (local.set $j (i32.add (local.get $j) (i32.const 1)))
  (br $next))))
"#,
        args_at = ARGS_AT,
        grow = F_GROW,
        pkg_at = F_PKG_AT,
        np = NP,
        pokes = F_POKES
    ));
    // return helpers: SBOR unit; SBOR byte array header + consumed buffer (length < 128)
    w.push_str(&format!(
        r#"(func $ret_unit (result i64)
(i32.store8 (i32.const {r}) (i32.const 92)) (i32.store8 (i32.const {r1}) (i32.const 33)) (i32.store8 (i32.const {r2}) (i32.const 0))
(i64.const {unit}))
(func $ret_buffer (param $buf i64) (result i64)
(i32.store8 (i32.const {r}) (i32.const 92)) (i32.store8 (i32.const {r1}) (i32.const 32)) (i32.store8 (i32.const {r2}) (i32.const 7))
(i32.store8 (i32.const {r3}) (i32.wrap_i64 (local.get $buf)))
(call $buffer_consume (i32.wrap_i64 (i64.shr_u (local.get $buf) (i64.const 32))) (i32.const {r4}))
(i64.or (i64.const {base}) (i64.add (i64.and (local.get $buf) (i64.const 0xffffffff)) (i64.const 4))))
(func $ret_digest (result i64)
(call $ret_buffer (call $blake (i32.const 0) (i32.mul (memory.size) (i32.const 65536)))))
"#,
        r = RET_AT,
        r1 = RET_AT + 1,
        r2 = RET_AT + 2,
        r3 = RET_AT + 3,
        r4 = RET_AT + 4,
        unit = ((RET_AT as u64) << 32) | 3,
        base = (RET_AT as u64) << 32
    ));
    w.push_str(&format!(
        "(func $Test_log (param i64) (result i64) (call $prologue (local.get 0)) (call $sys_log {} {} {} {}) (call $ret_unit))\n",
        a(0),
        a(1),
        a(2),
        a(3)
    ));
    w.push_str(&format!("(func $Test_panic (param i64) (result i64) (call $prologue (local.get 0)) (call $sys_panic {} {}) (call $ret_unit))\n", a(0), a(1)));
    w.push_str(&format!(
        "(func $Test_event (param i64) (result i64) (call $prologue (local.get 0)) (call $emit {} {} {} {} {}) (call $ret_unit))\n",
        a(0),
        a(1),
        a(2),
        a(3),
        a(4)
    ));
    w.push_str(&format!("(func $Test_blake (param i64) (result i64) (call $prologue (local.get 0)) (call $ret_buffer (call $blake {} {})))\n", a(0), a(1)));
    w.push_str(&format!("(func $Test_keccak (param i64) (result i64) (call $prologue (local.get 0)) (call $ret_buffer (call $keccak {} {})))\n", a(0), a(1)));
    let bcall = format!("(call $bcall {} {} {} {} {} {} {} {})", a(0), a(1), a(2), a(3), a(4), a(5), a(6), a(7));
    // write: obtain a buffer (digest of a range, or the echo of a range), consume it at dst
    w.push_str(&format!(
        r#"(func $Test_write (param i64) (result i64) (local $buf i64) (local $id i32)
(call $prologue (local.get 0))
(if (call $arg (i32.const {src})) (then (local.set $buf {bcall})) (else (local.set $buf (call $blake {a0} {a1}))))
(local.set $id (i32.wrap_i64 (i64.shr_u (local.get $buf) (i64.const 32))))
(if (i32.eq (call $arg (i32.const {mode})) (i32.const 2)) (then (local.set $id (call $arg (i32.const {id})))))
(call $buffer_consume (local.get $id) (call $arg (i32.const {dst})))
(if (i32.eq (call $arg (i32.const {mode})) (i32.const 1)) (then (call $buffer_consume (local.get $id) (call $arg (i32.const {dst2})))))
(call $ret_digest))
"#,
        src = F_SRC,
        bcall = bcall,
        a0 = a(0),
        a1 = a(1),
        mode = F_MODE,
        id = F_ID,
        dst = F_DST,
        dst2 = F_DST2
    ));
    // ret: the generated slice is the return value
    w.push_str(&format!(
        "(func $Test_ret (param i64) (result i64) (call $prologue (local.get 0)) (i64.or (i64.shl (i64.extend_i32_u {}) (i64.const 32)) (i64.extend_i32_u {})))\n",
        a(0),
        a(1)
    ));
    // echo: returns its argument buffer
    w.push_str(
        "(func $Test_echo (param i64) (result i64) (call $buffer_consume (i32.wrap_i64 (i64.shr_u (local.get 0) (i64.const 32))) (i32.const 0)) (i64.and (local.get 0) (i64.const 0xffffffff)))\n",
    );
    for f in FUNCTIONS {
        w.push_str(&format!("(export \"Test_{}\" (func $Test_{}))\n", f, f));
    }
    let _ = arg;
    w.push_str(")\n");
    w
}

const FUNCTIONS: &[&str] = &["log", "panic", "event", "blake", "keccak", "write", "ret", "echo"];

fn definition() -> PackageDefinition {
    let exports: Vec<String> = FUNCTIONS.iter().map(|f| format!("Test_{}", f)).collect();
    let functions: Vec<(&str, &str, bool)> = FUNCTIONS.iter().zip(exports.iter()).map(|(f, e)| (*f, e.as_str(), false)).collect();
    let mut d = PackageDefinition::new_functions_only_test_definition("Test", functions);
    let bp = d.blueprints.get_mut("Test").unwrap();
    // one event: struct Evnt { data: Vec<u8> } (events must be named structs or enums)
    let (type_id, schema) = generate_full_schema_from_single_type::<Evnt, ScryptoCustomSchema>();
    bp.schema.schema = schema;
    bp.schema.events = BlueprintEventSchemaInit { event_schema: indexmap!("Evnt".to_string() => TypeRef::Static(type_id)) };
    d
}

#[derive(ScryptoSbor, Debug, PartialEq, Eq)]
struct Evnt {
    data: Vec<u8>,
}

/// SBOR header of `Evnt { data }` for a payload of `total` bytes in all: 5c 21 01 20 07 LEB128(n).
fn event_header(total: usize) -> Option<Vec<u8>> {
    for hl in 6..=9 {
        if total < hl {
            return None;
        }
        let mut h = vec![0x5c, 0x21, 0x01];
        h.extend_from_slice(&bytes_header(total - hl)[1..]);
        if h.len() == hl {
            return Some(h);
        }
    }
    None
}

fn initial_memory(pages: u64) -> &'static Vec<u8> {
    static M: OnceLock<Vec<Vec<u8>>> = OnceLock::new();
    &M.get_or_init(|| (1..=4usize).map(|p| (0..p * PAGE as usize).map(pattern).collect()).collect())[pages as usize - 1]
}

fn drivers() -> &'static Vec<Vec<u8>> {
    static D: OnceLock<Vec<Vec<u8>>> = OnceLock::new();
    D.get_or_init(|| (1..=4).map(|p| wat::parse_str(driver_wat(p)).expect("driver WAT assembles")).collect())
}

struct Packages(Vec<PackageAddress>);

fn build(w: &mut World) {
    let mut v = vec![];
    for code in drivers() {
        let manifest = ManifestBuilder::new().lock_fee_from_faucet().publish_package_advanced(None, code.clone(), definition(), MetadataInit::default(), OwnerRole::None).build();
        let run = w.run(manifest, vec![]);
        assert!(run.is_success(), "publishing the C47 driver package failed: {}", run.outcome_string());
        v.push(run.commit().unwrap().new_package_addresses()[0]);
    }
    w.set_ext(Packages(v));
}

// ------------------------------------------------------------------------------------------------

#[derive(Clone, Copy, Debug, PartialEq, Eq)]
enum Op {
    LogMsg,
    LogLevel,
    Panic,
    EventName,
    EventData,
    Blake,
    Keccak,
    BcallArgs,
    BcallIdent,
    WriteDigest,
    WriteEcho,
    WriteStale,
    WriteNeverIssued,
    Ret,
}
const OPS: &[Op] = &[
    Op::LogMsg,
    Op::Blake,
    Op::WriteDigest,
    Op::Panic,
    Op::Ret,
    Op::LogLevel,
    Op::EventName,
    Op::EventData,
    Op::Keccak,
    Op::BcallArgs,
    Op::BcallIdent,
    Op::WriteEcho,
    Op::WriteStale,
    Op::WriteNeverIssued,
];

impl Op {
    fn label(self) -> &'static str {
        match self {
            Op::LogMsg => "op:sys_log(message)",
            Op::LogLevel => "op:sys_log(level)",
            Op::Panic => "op:sys_panic",
            Op::EventName => "op:actor_emit_event(name)",
            Op::EventData => "op:actor_emit_event(data)",
            Op::Blake => "op:blake2b_256_hash",
            Op::Keccak => "op:keccak256_hash",
            Op::BcallArgs => "op:blueprint_call(args)",
            Op::BcallIdent => "op:blueprint_call(ident)",
            Op::WriteDigest => "op:buffer_consume(digest,dst)",
            Op::WriteEcho => "op:buffer_consume(echo,dst)",
            Op::WriteStale => "op:buffer_consume(stale id)",
            Op::WriteNeverIssued => "op:buffer_consume(never issued id)",
            Op::Ret => "op:return slice",
        }
    }
    fn ok_label(self) -> &'static str {
        match self {
            Op::LogMsg => "ok:sys_log(message)",
            Op::LogLevel => "ok:sys_log(level)",
            Op::Panic => "ok:sys_panic",
            Op::EventName => "ok:actor_emit_event(name)",
            Op::EventData => "ok:actor_emit_event(data)",
            Op::Blake => "ok:blake2b_256_hash",
            Op::Keccak => "ok:keccak256_hash",
            Op::BcallArgs => "ok:blueprint_call(args)",
            Op::BcallIdent => "ok:blueprint_call(ident)",
            Op::WriteDigest => "ok:buffer_consume(digest,dst)",
            Op::WriteEcho => "ok:buffer_consume(echo,dst)",
            Op::WriteStale => "ok:buffer_consume(stale id)",
            Op::WriteNeverIssued => "ok:buffer_consume(never issued id)",
            Op::Ret => "ok:return slice",
        }
    }
    fn function(self) -> &'static str {
        match self {
            Op::LogMsg | Op::LogLevel => "log",
            Op::Panic => "panic",
            Op::EventName | Op::EventData => "event",
            Op::Blake => "blake",
            Op::Keccak => "keccak",
            Op::BcallArgs | Op::BcallIdent | Op::WriteDigest | Op::WriteEcho | Op::WriteStale | Op::WriteNeverIssued => "write",
            Op::Ret => "ret",
        }
    }
}

/// A (ptr, len) pair relative to a memory of `size` bytes, with its class.
fn range(g: &mut Gen, size: u64, max_len: u64, prefer_len: Option<u64>) -> (u32, u32, &'static str) {
    let s = size as u32;
    // ops whose window must have one exact length to be accepted use it two times out of three
    let max_len = match prefer_len {
        Some(n) if g.chance(2, 3) => return range_with_len(g, size, n),
        _ => max_len,
    };
    match g.weighted(&[5, 2, 2, 2, 2, 1, 1, 1, 1, 1, 1, 1]) {
        0 => {
            // well inside
            let len = g.below(max_len.min(size) + 1);
            let ptr = g.below(size - len + 1);
            (ptr as u32, len as u32, "range:inside")
        }
        1 => {
            // ends exactly at the last byte
            let len = 1 + g.below(max_len.min(size));
            (s - len as u32, len as u32, "range:touches_last_byte")
        }
        2 => {
            // crosses the end by one byte
            let len = 1 + g.below(max_len.min(size));
            (s - len as u32 + 1, len as u32, "range:crosses_end_by_one")
        }
        3 => (s, 0, "range:empty_at_end"),
        4 => (s, 1 + g.below(4) as u32, "range:starts_at_end"),
        5 => (s + 1, 0, "range:empty_past_end"),
        6 => {
            // ends one byte before the end
            let len = 1 + g.below(max_len.min(size - 1));
            (s - 1 - len as u32, len as u32, "range:ends_one_before_end")
        }
        7 => {
            // ptr + len overflows u32
            let len = 1 + g.below(max_len) as u32;
            (u32::MAX - g.below(len as u64) as u32, len, "range:sum_overflows_u32")
        }
        8 => (u32::MAX, u32::MAX, "range:both_u32_max"),
        9 => (g.below(size) as u32, u32::MAX - g.below(3) as u32, "range:len_u32_max"),
        10 => (0, s, "range:whole_memory"),
        _ => (0, s + 1, "range:whole_memory_plus_one"),
    }
}

fn range_with_len(g: &mut Gen, size: u64, n: u64) -> (u32, u32, &'static str) {
    let s = size as u32;
    let n32 = n as u32;
    match g.weighted(&[4, 3, 3, 1, 1, 1]) {
        0 => (g.below(size - n + 1) as u32, n32, "range:inside"),
        1 => (s - n32, n32, "range:touches_last_byte"),
        2 => (s - n32 + 1, n32, "range:crosses_end_by_one"),
        3 => (s, n32, "range:starts_at_end"),
        4 => (s - n32 - 1, n32, "range:ends_one_before_end"),
        _ => (u32::MAX - g.below(n) as u32, n32, "range:sum_overflows_u32"),
    }
}

fn in_range(ptr: u32, len: u32, size: u64) -> bool {
    ptr as u64 + len as u64 <= size
}

fn blake(data: &[u8]) -> Vec<u8> {
    let mut h = Blake2b::<U32>::new();
    h.update(data);
    h.finalize().to_vec()
}

/// SBOR `Vec<u8>` header for `n` payload bytes: 5c 20 07 LEB128(n).
fn bytes_header(n: usize) -> Vec<u8> {
    let mut h = vec![0x5c, 0x20, 0x07];
    let mut v = n;
    loop {
        let mut b = (v & 0x7f) as u8;
        v >>= 7;
        if v != 0 {
            b |= 0x80;
        }
        h.push(b);
        if v == 0 {
            break;
        }
    }
    h
}

/// SBOR byte-array header for a value of `total` bytes in all (None when no length fits).
fn bytes_header_for_total(total: usize) -> Option<Vec<u8>> {
    for hl in 4..=8 {
        if total < hl {
            return None;
        }
        let h = bytes_header(total - hl);
        if h.len() == hl {
            return Some(h);
        }
    }
    None
}

#[derive(Debug)]
enum Expected {
    /// the call fails with VmError::Wasm(MemoryAccessError)
    MemoryAccessError,
    /// the call fails with VmError::Wasm(BufferNotFound(id))
    BufferNotFound(Option<u32>),
    /// fails, but not with a memory access error (content of an in-range window is not acceptable)
    OtherFailure(&'static str),
    Log(Level, String),
    PanicMessage(String),
    Event(Vec<u8>),
    /// function output = SBOR bytes of this payload
    OutputBytes(Vec<u8>),
    /// function output is exactly this
    OutputRaw(Vec<u8>),
    /// function output = SBOR bytes of blake2b(final memory)
    MemoryDigest,
    /// payload above 1 MB: success or a size-limit failure, but never a memory access error
    NotAMemoryError,
}

struct Plan {
    fields: [u32; NF],
    pokes: Vec<(u32, Vec<u8>)>,
}

impl Plan {
    fn poke(&mut self, addr: u32, bytes: &[u8]) {
        for (k, chunk) in bytes.chunks(4).enumerate() {
            self.pokes.push((addr + 4 * k as u32, chunk.to_vec()));
        }
    }
}

fn case(g: &mut Gen) -> Outcome {
    let pages = 1 + g.index(4) as u64;
    let op = OPS[g.index(OPS.len())];
    g.label(op.label());
    // memory growth before the call
    let grow: u64 = match g.weighted(&[6, 3, 1, 1]) {
        0 => 0,
        1 => 1 + g.below(3),
        2 => MAX_PAGES - pages,
        _ => MAX_PAGES - pages + 1 + g.below(3), // refused by the injected maximum: size unchanged
    };
    let size_pages = if pages + grow <= MAX_PAGES { pages + grow } else { pages };
    let size = size_pages * PAGE;
    if grow > 0 {
        g.label(if size_pages != pages { "memory:grown" } else { "memory:grow_refused" });
    }

    let mut plan = Plan { fields: [0; NF], pokes: vec![] };
    plan.fields[F_GROW] = grow as u32;
    plan.fields[F_PKG_AT] = u32::MAX;
    let a = |plan: &mut Plan, i: usize, v: u32| plan.fields[F_A + i] = v;

    // a scratch area for planted values, away from the argument and return records and from the end
    let scratch = 4096 + 64 * g.below(16) as u32;
    let max_len = match g.weighted(&[6, 3, 1]) {
        0 => 48,
        1 => 600,
        _ => 70_000,
    };
    let prefer_len = match op {
        Op::LogLevel | Op::EventName | Op::BcallIdent => Some(4),
        _ => None,
    };
    let (ptr, len, class) = range(g, size, max_len, prefer_len);
    let uses_range = !matches!(op, Op::WriteDigest | Op::WriteEcho | Op::WriteStale | Op::WriteNeverIssued);
    if uses_range {
        g.label(class);
    }
    let ok = in_range(ptr, len, size);
    g.set_nontrivial(uses_range && matches!(class, "range:touches_last_byte" | "range:crosses_end_by_one" | "range:sum_overflows_u32" | "range:both_u32_max" | "range:len_u32_max" | "range:whole_memory" | "range:whole_memory_plus_one" | "range:empty_at_end" | "range:starts_at_end"));

    // ---- plan the call (fields + pokes); the expectation is computed after the model is built ----
    let level_bytes = |l: u8| vec![0x5c, 0x22, l, 0x00];
    let mut level_choice = 0u8;
    let mut never_id = 0u32;
    let mut echo_len = 0usize;
    match op {
        Op::LogMsg => {
            level_choice = g.below(5) as u8;
            plan.poke(scratch, &level_bytes(level_choice));
            a(&mut plan, 0, scratch);
            a(&mut plan, 1, 4);
            a(&mut plan, 2, ptr);
            a(&mut plan, 3, len);
        }
        Op::LogLevel => {
            // the level pair is the generated one; a level is planted there when it fits
            level_choice = g.below(5) as u8;
            if len == 4 && ok {
                plan.poke(ptr, &level_bytes(level_choice));
            }
            a(&mut plan, 0, ptr);
            a(&mut plan, 1, len);
            a(&mut plan, 2, scratch);
            a(&mut plan, 3, 10);
        }
        Op::Panic | Op::Blake | Op::Keccak => {
            a(&mut plan, 0, ptr);
            a(&mut plan, 1, len);
        }
        Op::EventName => {
            if len == 4 && ok {
                plan.poke(ptr, b"Evnt");
            }
            // data: header + 8 pattern bytes, planted in the scratch area
            plan.poke(scratch, &event_header(14).unwrap());
            a(&mut plan, 0, ptr);
            a(&mut plan, 1, len);
            a(&mut plan, 2, scratch);
            a(&mut plan, 3, 14);
            a(&mut plan, 4, if g.chance(1, 10) { 1 + g.below(3) as u32 } else { 0 });
        }
        Op::EventData => {
            plan.poke(scratch, b"Evnt");
            if ok && g.chance(7, 8) {
                if let Some(h) = event_header(len as usize) {
                    plan.poke(ptr, &h);
                }
            }
            a(&mut plan, 0, scratch);
            a(&mut plan, 1, 4);
            a(&mut plan, 2, ptr);
            a(&mut plan, 3, len);
            a(&mut plan, 4, 0);
        }
        Op::BcallArgs | Op::BcallIdent | Op::WriteEcho => {
            // package address (30 bytes) fetched to scratch+64, "Test" and "echo" planted
            plan.fields[F_PKG_AT] = scratch + 64;
            plan.poke(scratch, b"Test");
            plan.poke(scratch + 8, b"echo");
            plan.fields[F_SRC] = 1;
            a(&mut plan, 0, scratch + 64);
            a(&mut plan, 1, 30);
            a(&mut plan, 2, scratch);
            a(&mut plan, 3, 4);
            match op {
                Op::BcallArgs => {
                    // args pair generated; a byte-array header is planted when it fits
                    if ok {
                        if let Some(h) = bytes_header_for_total(len as usize) {
                            plan.poke(ptr, &h);
                        }
                    }
                    a(&mut plan, 4, scratch + 8);
                    a(&mut plan, 5, 4);
                    a(&mut plan, 6, ptr);
                    a(&mut plan, 7, len);
                    plan.fields[F_DST] = 8192;
                }
                Op::BcallIdent => {
                    if ok && len == 4 {
                        plan.poke(ptr, b"echo");
                    }
                    plan.poke(scratch + 16, &bytes_header(8));
                    a(&mut plan, 4, ptr);
                    a(&mut plan, 5, len);
                    a(&mut plan, 6, scratch + 16);
                    a(&mut plan, 7, 12);
                    plan.fields[F_DST] = 8192;
                }
                _ => {
                    // echo of an in-range source of generated length; the destination is generated
                    echo_len = match g.weighted(&[5, 3, 1]) {
                        0 => 4 + g.index(60),
                        1 => 4 + g.index(3000),
                        _ => 60_000 + g.index(12_000),
                    }
                    .min((pages * PAGE) as usize / 2);
                    let header = loop {
                        match bytes_header_for_total(echo_len) {
                            Some(h) => break h,
                            None => echo_len += 1,
                        }
                    };
                    let src_at = 16384u32.min((size - echo_len as u64) as u32);
                    plan.poke(src_at, &header);
                    a(&mut plan, 4, scratch + 8);
                    a(&mut plan, 5, 4);
                    a(&mut plan, 6, src_at);
                    a(&mut plan, 7, echo_len as u32);
                    // destination: boundary relative to the buffer length
                    plan.fields[F_DST] = dst_for(g, size, echo_len as u64);
                }
            }
        }
        Op::WriteDigest | Op::WriteStale | Op::WriteNeverIssued => {
            // source of the digest: a small in-range window
            let sl = g.below(64) as u32;
            let sp = g.below(size - sl as u64 + 1) as u32;
            a(&mut plan, 0, sp);
            a(&mut plan, 1, sl);
            plan.fields[F_SRC] = 0;
            match op {
                Op::WriteDigest => plan.fields[F_DST] = dst_for(g, size, 32),
                Op::WriteStale => {
                    // (destinations away from the argument record, which is read again after the write)
                    plan.fields[F_MODE] = 1;
                    plan.fields[F_DST] = 8192 + g.below(size - 32 - 8192 + 1) as u32;
                    plan.fields[F_DST2] = 8192 + g.below(size - 32 - 8192 + 1) as u32;
                }
                _ => {
                    plan.fields[F_MODE] = 2;
                    never_id = *g.pick(&[2u32, 3, 7, 1000, u32::MAX, 0x8000_0000]);
                    plan.fields[F_ID] = never_id;
                    plan.fields[F_DST] = 8192 + g.below(size - 32 - 8192 + 1) as u32;
                }
            }
        }
        Op::Ret => {
            if ok && g.chance(7, 8) {
                if let Some(h) = bytes_header_for_total(len as usize) {
                    plan.poke(ptr, &h);
                }
            }
            a(&mut plan, 0, ptr);
            a(&mut plan, 1, len);
        }
    }
    if plan.pokes.len() > NP {
        return Outcome::Discard;
    }
    // the argument record is read throughout the call: nothing may be planted over it
    let over_args = |at: u32, n: usize| (at as u64) < ARGS_AT as u64 + 3 + 5 * NF as u64 && at as u64 + n as u64 > ARGS_AT as u64;
    if plan.pokes.iter().any(|(at, b)| over_args(*at, b.len())) || (plan.fields[F_PKG_AT] != u32::MAX && over_args(plan.fields[F_PKG_AT], 30)) {
        return Outcome::Discard;
    }
    for (j, (addr, bytes)) in plan.pokes.iter().enumerate() {
        let mut v = 0u32;
        for (k, b) in bytes.iter().enumerate() {
            v |= (*b as u32) << (8 * k);
        }
        plan.fields[F_POKES + 3 * j] = *addr;
        plan.fields[F_POKES + 3 * j + 1] = v;
        plan.fields[F_POKES + 3 * j + 2] = bytes.len() as u32;
    }

    // ---- the manifest ------------------------------------------------------------------------
    let args = ManifestValue::Tuple { fields: plan.fields.iter().map(|v| ManifestValue::U32 { value: *v }).collect() };
    let arg_bytes = {
        let fields: Vec<ScryptoValue> = plan.fields.iter().map(|v| ScryptoValue::U32 { value: *v }).collect();
        scrypto_encode(&ScryptoValue::Tuple { fields }).unwrap()
    };
    debug_assert_eq!(arg_bytes.len(), 3 + 5 * NF);

    let fields = plan.fields;
    let describe = move || {
        format!(
            "memory {} pages, grow {} -> {} bytes; function {}; {:?}; range ({:#x}, {:#x}) {}; a = {:x?}; dst {:#x} mode {} id {:#x} dst2 {:#x} src {}; pokes {:x?}",
            pages,
            grow,
            size,
            op.function(),
            op,
            ptr,
            len,
            class,
            &fields[F_A..F_A + 8],
            fields[F_DST],
            fields[F_MODE],
            fields[F_ID],
            fields[F_DST2],
            fields[F_SRC],
            &fields[F_POKES..F_POKES + 3 * NP]
        )
    };
    g.sample(&describe);

    with_world("c47", no_genesis, build, |w| {
        let package = w.ext::<Packages>().0[pages as usize - 1];
        // ---- model of the memory up to the host call ---------------------------------------
        let mut mem: Vec<u8> = initial_memory(pages).clone();
        mem[ARGS_AT as usize..ARGS_AT as usize + arg_bytes.len()].copy_from_slice(&arg_bytes);
        mem.resize(size as usize, 0);
        if plan.fields[F_PKG_AT] != u32::MAX {
            let at = plan.fields[F_PKG_AT] as usize;
            mem[at..at + 30].copy_from_slice(&package.to_vec());
        }
        for (addr, bytes) in &plan.pokes {
            let at = *addr as usize;
            if at + bytes.len() > mem.len() {
                return Outcome::fail("harness: poke outside memory", describe());
            }
            mem[at..at + bytes.len()].copy_from_slice(bytes);
        }
        let window = |p: u32, l: u32| -> Option<Vec<u8>> {
            if in_range(p, l, size) {
                Some(mem[p as usize..p as usize + l as usize].to_vec())
            } else {
                None
            }
        };
        let valid_sbor = |b: &[u8]| scrypto_decode::<ScryptoValue>(b).is_ok();

        // ---- expectation -------------------------------------------------------------------------
        let f = &plan.fields;
        let av = |i: usize| f[F_A + i];
        let mut final_mem: Option<Vec<u8>> = None;
        let expected = match op {
            Op::LogMsg | Op::LogLevel => match (window(av(0), av(1)), window(av(2), av(3))) {
                (Some(l), Some(m)) => match (scrypto_decode::<Level>(&l), String::from_utf8(m)) {
                    (Err(_), _) => Expected::OtherFailure("level bytes do not decode"),
                    (_, Err(_)) => Expected::OtherFailure("message is not UTF-8"),
                    (Ok(_), Ok(m)) if m.len() > 32 * 1024 => Expected::OtherFailure("message above the log size limit"),
                    (Ok(l), Ok(m)) => Expected::Log(l, m),
                },
                _ => Expected::MemoryAccessError,
            },
            Op::Panic => match window(av(0), av(1)) {
                None => Expected::MemoryAccessError,
                Some(m) => match String::from_utf8(m) {
                    Err(_) => Expected::OtherFailure("message is not UTF-8"),
                    Ok(m) if m.len() > 32 * 1024 => Expected::OtherFailure("message above the panic size limit"),
                    Ok(m) => Expected::PanicMessage(m),
                },
            },
            Op::EventName | Op::EventData => match (window(av(0), av(1)), window(av(2), av(3))) {
                (Some(n), Some(d)) => {
                    if av(4) != 0 {
                        Expected::OtherFailure("event flags not allowed")
                    } else if n != b"Evnt" {
                        Expected::OtherFailure("no such event")
                    } else if scrypto_decode::<Evnt>(&d).is_err() {
                        Expected::OtherFailure("event data does not match the event's schema")
                    } else if d.len() > 32 * 1024 {
                        Expected::OtherFailure("event above the size limit")
                    } else {
                        Expected::Event(d)
                    }
                }
                _ => Expected::MemoryAccessError,
            },
            Op::Blake => match window(av(0), av(1)) {
                None => Expected::MemoryAccessError,
                Some(d) => Expected::OutputBytes(blake(&d)),
            },
            Op::Keccak => match window(av(0), av(1)) {
                None => Expected::MemoryAccessError,
                Some(d) => Expected::OutputBytes(keccak256_hash(&d).to_vec()),
            },
            Op::BcallArgs | Op::BcallIdent | Op::WriteEcho => {
                let (pkg, bp, ident, args) = (window(av(0), av(1)), window(av(2), av(3)), window(av(4), av(5)), window(av(6), av(7)));
                match (pkg, bp, ident, args) {
                    (Some(pkg_w), Some(bp), Some(ident), Some(args)) => {
                        if pkg_w != package.to_vec() || bp != b"Test" {
                            Expected::OtherFailure("no such blueprint")
                        } else if ident != b"echo" {
                            Expected::OtherFailure("no such function")
                        } else if !valid_sbor(&args) {
                            Expected::OtherFailure("arguments are not SBOR")
                        } else if args.len() > 1000 * 1000 {
                            // around the 1 MB invoke payload limit: a size-limit failure
                            Expected::NotAMemoryError
                        } else if args.len() as u64 > PAGE * pages {
                            // echo consumes its argument at 0 of a fresh instance of `pages` pages
                            Expected::MemoryAccessError
                        } else {
                            let dst = f[F_DST];
                            if in_range(dst, args.len() as u32, size) {
                                let mut m2 = mem.clone();
                                m2[dst as usize..dst as usize + args.len()].copy_from_slice(&args);
                                final_mem = Some(m2);
                                Expected::MemoryDigest
                            } else {
                                Expected::MemoryAccessError
                            }
                        }
                    }
                    _ => Expected::MemoryAccessError,
                }
            }
            Op::WriteDigest | Op::WriteStale | Op::WriteNeverIssued => {
                let d = blake(&window(av(0), av(1)).expect("source chosen in range"));
                match op {
                    Op::WriteNeverIssued => Expected::BufferNotFound(Some(never_id)),
                    Op::WriteStale => Expected::BufferNotFound(None),
                    _ => {
                        let dst = f[F_DST];
                        if in_range(dst, 32, size) {
                            let mut m2 = mem.clone();
                            m2[dst as usize..dst as usize + 32].copy_from_slice(&d);
                            final_mem = Some(m2);
                            Expected::MemoryDigest
                        } else {
                            Expected::MemoryAccessError
                        }
                    }
                }
            }
            Op::Ret => match window(av(0), av(1)) {
                None => Expected::MemoryAccessError,
                Some(d) => {
                    if d.len() > 1000 * 1000 {
                        Expected::NotAMemoryError
                    } else if valid_sbor(&d) {
                        Expected::OutputRaw(d)
                    } else {
                        Expected::OtherFailure("returned bytes are not SBOR")
                    }
                }
            },
        };
        let _ = (level_choice, echo_len);
        match &expected {
            Expected::MemoryAccessError => g.label("expect:memory_access_error"),
            Expected::BufferNotFound(_) => g.label("expect:buffer_not_found"),
            Expected::OtherFailure(_) => g.label("expect:content_rejected"),
            Expected::NotAMemoryError => g.label("expect:huge_payload"),
            _ => {
                g.label("expect:success_with_payload");
                g.label(op.ok_label());
            }
        }

        // ---- run ----------------------------------------------------------------------------------
        let manifest = ManifestBuilder::new().lock_fee_from_faucet().call_function_raw(package, "Test", op.function(), args).build();
        let run = w.run(manifest, vec![]);
        if let Some(p) = &run.panic {
            return Outcome::fail("host panics on a WASM host call with generated pointers", format!("{}\n{}", p, describe()));
        }
        let commit = match run.commit() {
            Some(c) => c,
            None => return Outcome::fail("transaction with a WASM host call is not committed", format!("{}\n{}", run.outcome_string(), describe())),
        };
        let failure = run.failure();
        let is_mem_err = matches!(failure, Some(RuntimeError::VmError(VmError::Wasm(WasmRuntimeError::MemoryAccessError))));
        let got = run.outcome_string();
        let got_short: String = got.chars().take(400).collect();
        let output: Option<Vec<u8>> = match &commit.outcome {
            TransactionOutcome::Success(outs) => match outs.get(1) {
                Some(InstructionOutput::CallReturn(b)) => Some(b.clone()),
                _ => None,
            },
            _ => None,
        };
        let sbor_bytes = |payload: &[u8]| {
            let mut v = bytes_header(payload.len());
            v.extend_from_slice(payload);
            v
        };
        match expected {
            Expected::MemoryAccessError => {
                ensure!(is_mem_err, "host call with a range outside the memory does not fail with MemoryAccessError", "got {}\n{}", got_short, describe());
            }
            Expected::BufferNotFound(id) => {
                let ok = match failure {
                    Some(RuntimeError::VmError(VmError::Wasm(WasmRuntimeError::BufferNotFound(got_id)))) => id.map(|i| i == *got_id).unwrap_or(true),
                    _ => false,
                };
                ensure!(ok, "buffer_consume of a stale or never issued id does not fail with BufferNotFound", "expected id {:?}, got {}\n{}", id, got_short, describe());
            }
            Expected::OtherFailure(why) => {
                ensure!(failure.is_some(), "host call succeeds on an unacceptable in-range window", "expected a failure ({}), got {}\n{}", why, got_short, describe());
                ensure!(!is_mem_err, "host call with a range inside the memory fails with MemoryAccessError", "expected another failure ({}), got {}\n{}", why, got_short, describe());
            }
            Expected::NotAMemoryError => {
                ensure!(!is_mem_err, "host call with a range inside the memory fails with MemoryAccessError", "got {}\n{}", got_short, describe());
            }
            Expected::Log(level, msg) => {
                ensure!(failure.is_none(), "host call with a range inside the memory fails", "got {}\n{}", got_short, describe());
                let logs = &commit.application_logs;
                ensure!(
                    logs.len() == 1 && logs[0].0 == level && logs[0].1 == msg,
                    "sys_log records something else than the bytes of the given range",
                    "expected ({:?}, {:?}), got {:?}\n{}",
                    level,
                    short(&msg),
                    logs.iter().map(|(l, m)| (l, short(m))).collect::<Vec<_>>(),
                    describe()
                );
            }
            Expected::PanicMessage(msg) => {
                let ok = matches!(failure, Some(RuntimeError::ApplicationError(ApplicationError::PanicMessage(m))) if *m == msg);
                ensure!(ok, "sys_panic reports something else than the bytes of the given range", "expected PanicMessage({:?}), got {}\n{}", short(&msg), got_short, describe());
            }
            Expected::Event(data) => {
                ensure!(failure.is_none(), "host call with a range inside the memory fails", "got {}\n{}", got_short, describe());
                let evs: Vec<&Vec<u8>> = commit.application_events.iter().filter(|(id, _)| id.1 == "Evnt").map(|(_, d)| d).collect();
                ensure!(evs.len() == 1 && *evs[0] == data, "actor_emit_event records something else than the bytes of the given range", "expected {}, got {:?}\n{}", hex::encode(&data), evs.iter().map(hex::encode).collect::<Vec<_>>(), describe());
            }
            Expected::OutputBytes(payload) => {
                ensure!(failure.is_none(), "host call with a range inside the memory fails", "got {}\n{}", got_short, describe());
                ensure!(output.as_deref() == Some(&sbor_bytes(&payload)[..]), "digest is not the digest of the bytes of the given range", "expected {}, got {:?}\n{}", hex::encode(&payload), output.as_ref().map(hex::encode), describe());
            }
            Expected::OutputRaw(bytes) => {
                ensure!(failure.is_none(), "returning a slice inside the memory fails", "got {}\n{}", got_short, describe());
                ensure!(output.as_deref() == Some(&bytes[..]), "function output is not the bytes of the returned slice", "expected {}, got {:?}\n{}", short_hex(&bytes), output.as_ref().map(|b| short_hex(b)), describe());
            }
            Expected::MemoryDigest => {
                ensure!(failure.is_none(), "buffer_consume with a destination inside the memory fails", "got {}\n{}", got_short, describe());
                let d = blake(final_mem.as_ref().unwrap());
                ensure!(
                    output.as_deref() == Some(&sbor_bytes(&d)[..]),
                    "memory after buffer_consume is not the old memory with the buffer at dst",
                    "digest of the whole memory: expected {}, got {:?} (unchanged memory would give {})\n{}",
                    hex::encode(&d),
                    output.as_ref().map(hex::encode),
                    hex::encode(blake(&mem)),
                    describe()
                );
            }
        }
        Outcome::Pass
    })
}

/// Destination for a buffer of `n` bytes in a memory of `size` bytes.
fn dst_for(g: &mut Gen, size: u64, n: u64) -> u32 {
    let s = size as u32;
    let n32 = n as u32;
    let d = match g.weighted(&[4, 3, 3, 1, 1, 1, 1]) {
        0 => {
            g.label("dst:inside");
            8192 + g.below(size - n - 8192 + 1) as u32
        }
        1 => {
            g.label("dst:ends_at_last_byte");
            g.nontrivial();
            s - n32
        }
        2 => {
            g.label("dst:crosses_end_by_one");
            g.nontrivial();
            s - n32 + 1
        }
        3 => {
            g.label("dst:at_end");
            g.nontrivial();
            s
        }
        4 => {
            g.label("dst:past_end");
            s + 1 + g.below(100) as u32
        }
        5 => {
            g.label("dst:sum_overflows_u32");
            g.nontrivial();
            u32::MAX - g.below(n) as u32
        }
        _ => {
            g.label("dst:last_byte_inside");
            g.nontrivial();
            s - 1
        }
    };
    d
}

fn short(s: &str) -> String {
    if s.len() > 80 {
        format!("{}… ({} bytes)", s.chars().take(80).collect::<String>(), s.len())
    } else {
        s.to_string()
    }
}
fn short_hex(b: &[u8]) -> String {
    if b.len() > 64 {
        format!("{}… ({} bytes)", hex::encode(&b[..64]), b.len())
    } else {
        hex::encode(b)
    }
}

pub fn check() -> Check {
    Check::new(
        "C47",
        "Host memory access from WASM is always bounds-checked",
        "Four WAT driver packages (memory of 1-4 pages filled with a position-dependent ASCII pattern, maximum 64 injected) published once per world; a case is one transaction calling one driver function with 30 u32 arguments: pages to grow first (0, 1-3, up to exactly 64, beyond 64 = refused), up to five 1-4 byte pokes and the package address planted at harness-chosen in-range places, then one host call with a generated (ptr, len): sys_log message / level, sys_panic, actor_emit_event name / data, crypto_utils_blake2b_256_hash, keccak256_hash, blueprint_call ident / args (to `echo`), buffer_consume(id, dst) of a 32-byte digest or of an echoed buffer of 4..72000 bytes with valid / stale / never issued ids, and the function's own returned slice. Ranges: inside, touching the last byte, ending one before it, crossing the end by one, empty at / past the end, starting at the end, whole memory (+1), ptr+len overflowing u32, u32::MAX, after memory.grow. Oracle (byte-exact model of the memory): a receipt always comes back (no host panic); a range not inside the memory fails with VmError::Wasm(MemoryAccessError); a range inside never does; on success the observable equals exactly the bytes of the range: log (level, text), panic message, event payload, digest compared with the harness's blake2b (blake2 crate) / keccak, function output; after buffer_consume the blake2b digest of the *whole* memory (computed by the program through the host) equals the digest of the model with the buffer at dst and nothing else changed; stale and never issued buffer ids fail with BufferNotFound. Non-trivial = range or destination touching the last byte, crossing the end, starting at the end, spanning the whole memory or overflowing u32.",
    )
    .assume("fixed driver programs parameterised through their arguments instead of one generated program per case (the domain — host function x pointer x length x memory size — is the same, a case is one transaction instead of a publish + a call)")
    .assume("keccak256 of the expected bytes is computed with radix_common::crypto::keccak256_hash (no independent keccak implementation is available offline); SBOR validity of a window is predicted with scrypto_decode")
    .part(Part::new("calls", 40_000, 2_000_000, 120, case))
    .min_nontrivial_pct(20.0)
}
