//! R1 for this crate: a `Decimal` is its integer number of attos (10^-18) as a `BigInt`; every
//! oracle computation is done on those integers (products and cross-multiplications, never
//! divisions that lose anything). Independent of `bnum` and of the repository's arithmetic.

use num_bigint::BigInt;
use num_integer::Integer;
use num_traits::{Signed, Zero};
use radix_common::math::{Decimal, RoundingMode};

pub fn big(d: Decimal) -> BigInt {
    BigInt::from_signed_bytes_le(&d.attos().to_le_bytes())
}

/// Back to a `Decimal`; `None` when the value does not fit 192 bits.
pub fn dec(b: &BigInt) -> Option<Decimal> {
    let bytes = b.to_signed_bytes_le();
    if bytes.len() > 24 {
        return None;
    }
    let fill = if b.is_negative() { 0xffu8 } else { 0u8 };
    let mut a = [fill; 24];
    a[..bytes.len()].copy_from_slice(&bytes);
    Some(Decimal::from_attos(radix_common::math::I192::from_le_bytes(&a)))
}

pub fn pow10(n: u32) -> BigInt {
    BigInt::from(10u8).pow(n)
}

/// One unit of a resource of the given divisibility, in attos.
pub fn unit(divisibility: u8) -> BigInt {
    pow10(18 - divisibility as u32)
}

/// Largest multiple of the resource's unit that is <= `attos` (floor, also for negatives).
pub fn floor_to(attos: &BigInt, divisibility: u8) -> BigInt {
    let u = unit(divisibility);
    attos.div_floor(&u) * u
}

pub fn on_grid(attos: &BigInt, divisibility: u8) -> bool {
    attos.mod_floor(&unit(divisibility)).is_zero()
}

/// floor(a * b / c) for c > 0.
pub fn mul_div_floor(a: &BigInt, b: &BigInt, c: &BigInt) -> BigInt {
    (a * b).div_floor(c)
}

/// Reference rounding of a non-negative or negative atto amount to a divisibility.
pub fn round_to(attos: &BigInt, divisibility: u8, mode: RoundingMode) -> BigInt {
    let u = unit(divisibility);
    let lo = attos.div_floor(&u) * &u; // toward -inf
    if &lo == attos {
        return lo;
    }
    let hi = &lo + &u;
    let neg = attos.is_negative();
    let twice_rem = (attos - &lo) * 2; // compared with u
    match mode {
        RoundingMode::ToPositiveInfinity => hi,
        RoundingMode::ToNegativeInfinity => lo,
        RoundingMode::ToZero => {
            if neg {
                hi
            } else {
                lo
            }
        }
        RoundingMode::AwayFromZero => {
            if neg {
                lo
            } else {
                hi
            }
        }
        _ => {
            if twice_rem < u {
                lo
            } else if twice_rem > u {
                hi
            } else {
                match mode {
                    RoundingMode::ToNearestMidpointTowardZero => {
                        if neg {
                            hi
                        } else {
                            lo
                        }
                    }
                    RoundingMode::ToNearestMidpointAwayFromZero => {
                        if neg {
                            lo
                        } else {
                            hi
                        }
                    }
                    _ => {
                        // to even multiple of the unit
                        if (lo.div_floor(&u)).is_even() {
                            lo
                        } else {
                            hi
                        }
                    }
                }
            }
        }
    }
}

/// Human rendering of an atto amount ("12.5", "0.000000000000000001").
pub fn show(attos: &BigInt) -> String {
    let neg = attos.is_negative();
    let a = attos.abs();
    let one = pow10(18);
    let (i, f) = a.div_rem(&one);
    let mut s = if f.is_zero() {
        i.to_string()
    } else {
        let frac = format!("{:0>18}", f.to_string());
        format!("{}.{}", i, frac.trim_end_matches('0'))
    };
    if neg {
        s.insert(0, '-');
    }
    s
}
