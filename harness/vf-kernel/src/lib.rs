//! vf-kernel: checks that drive internal engine components directly (no transactions):
//! the fee reserve (C06 part a), the transaction tracker ring (C07 part a), Track (C12) and
//! SubstateLocks (C13).

pub mod dec;
pub mod c06;
pub mod c07;
pub mod c12;
pub mod c13;

pub use c06::c06_reserve_part;
pub use c07::c07_ring_part;

pub fn checks() -> Vec<vf_core::Check> {
    vec![c06::check(), c07::check(), c12::check(), c13::check()]
}
