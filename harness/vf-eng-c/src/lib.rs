//! vf-eng-c: engine-level checks C05 (stored ledger well-formed), C50 (objects encapsulated by
//! their blueprint), C51 (locked state stays locked).

pub mod c05;
pub mod c50;
pub mod c51;
pub mod env;
pub mod pup;
pub mod scan;

pub fn checks() -> Vec<vf_core::Check> {
    vec![c05::check(), c50::check(), c51::check()]
}
