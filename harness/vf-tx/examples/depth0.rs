// one-off demonstration: signed partial transaction validated under a configuration with max_subintent_depth = 0
use radix_transactions::prelude::*;
use radix_transactions::validation::*;
use vf_core::Gen;
fn main() {
    let tape = [0u8; 0];
    let mut g = Gen::new(&tape);
    let b = vf_tx::txgen::gen_partial(&mut g, &vf_tx::txgen::Opts::default());
    let prepared = b.tx.prepare(&PreparationSettings::latest()).unwrap();
    for (name, cfg) in [("babylon", TransactionValidationConfig::babylon()), ("latest with max_subintent_depth=0", TransactionValidationConfig { max_subintent_depth: 0, ..TransactionValidationConfig::latest() })] {
        let v = TransactionValidator::new_with_static_config(cfg, vf_tx::txgen::NETWORK);
        let p = prepared.clone();
        let r = std::panic::catch_unwind(move || p.validate(&v).map(|_| ()));
        println!("{}: {:?}", name, r.map_err(|e| e.downcast_ref::<&str>().map(|s| s.to_string()).or(e.downcast_ref::<String>().cloned())));
    }
}
