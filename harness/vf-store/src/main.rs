fn main() {
    let args: Vec<String> = std::env::args().collect();
    if args.len() >= 2 && args[1] == "__c19_child" {
        // helper process of C19: commits and stops at a crash point without running destructors
        vf_store::c19::child_main(&args[2..]);
    }
    vf_core::main_with(vf_store::checks());
}
