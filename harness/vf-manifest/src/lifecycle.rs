//! Reference model of the manifest object lifecycle (C36), written from the instruction
//! documentation in `manifest_instructions.rs` and the property statement — not from
//! `StaticManifestInterpreter`, `BasicManifestValidator` or `ManifestInstruction::effect()`.
//!
//! It walks the instruction list once, matching on the instruction variants and walking argument
//! value trees itself, and reports *every* lifecycle fault it sees:
//! an object id that was never created / declared, an object used after it was consumed (which
//! covers "consumed twice"), a bucket consumed while a named proof made from it is alive, and a
//! manifest that does not end the way its kind requires.

use radix_common::prelude::*;
use radix_transactions::manifest::*;
use radix_transactions::prelude::*;
use std::collections::BTreeSet;

#[derive(Clone, Copy, Debug, PartialEq, Eq, PartialOrd, Ord)]
pub enum FaultClass {
    BucketNotCreated,
    BucketAlreadyConsumed,
    BucketLockedByProof,
    ProofNotCreated,
    ProofAlreadyConsumed,
    ReservationNotCreated,
    ReservationAlreadyConsumed,
    NamedAddressNotCreated,
    BlobNotDeclared,
    ChildNotDeclared,
    DanglingBucket,
    DanglingReservation,
    SubintentWithoutFinalYield,
    ParentInstructionInTransactionIntent,
}

impl FaultClass {
    pub fn name(&self) -> &'static str {
        match self {
            FaultClass::BucketNotCreated => "bucket used before creation",
            FaultClass::BucketAlreadyConsumed => "bucket used after it was consumed",
            FaultClass::BucketLockedByProof => "bucket consumed while a proof of it is alive",
            FaultClass::ProofNotCreated => "proof used before creation",
            FaultClass::ProofAlreadyConsumed => "proof used after it was consumed",
            FaultClass::ReservationNotCreated => "address reservation used before creation",
            FaultClass::ReservationAlreadyConsumed => "address reservation used after it was consumed",
            FaultClass::NamedAddressNotCreated => "named address used before creation",
            FaultClass::BlobNotDeclared => "undeclared blob",
            FaultClass::ChildNotDeclared => "undeclared child intent",
            FaultClass::DanglingBucket => "bucket left over at the end",
            FaultClass::DanglingReservation => "address reservation left over at the end",
            FaultClass::SubintentWithoutFinalYield => "subintent does not end with YIELD_TO_PARENT",
            FaultClass::ParentInstructionInTransactionIntent => "YIELD_TO_PARENT / VERIFY_PARENT outside a subintent",
        }
    }
    /// Checked by every ruleset, including the legacy Babylon id validator (which documents that it
    /// does not look at blobs, left-over objects or addresses in the command part).
    pub fn is_core_id_fault(&self) -> bool {
        matches!(
            self,
            FaultClass::BucketNotCreated
                | FaultClass::BucketAlreadyConsumed
                | FaultClass::BucketLockedByProof
                | FaultClass::ProofNotCreated
                | FaultClass::ProofAlreadyConsumed
                | FaultClass::ReservationNotCreated
                | FaultClass::ReservationAlreadyConsumed
        )
    }
}

#[derive(Clone, Debug)]
pub struct Fault {
    pub class: FaultClass,
    /// Instruction index (None = preamble / end of manifest).
    pub at: Option<usize>,
    pub detail: String,
    /// Named address fault located in the *argument* part of a call (the legacy validator checks
    /// these, but not the ones in the command part).
    pub in_args: bool,
}

#[derive(Clone, Debug, Default)]
pub struct ModelReport {
    pub faults: Vec<Fault>,
    pub buckets_created: usize,
    pub buckets_consumed: usize,
    pub proofs_created: usize,
    pub proofs_consumed: usize,
    pub reservations_created: usize,
    pub named_addresses_created: usize,
    pub invocations: usize,
    /// Proof passed in a YIELD (not a lifecycle fault in the property's sense; validation rejects it).
    pub proof_in_yield: bool,
}

impl ModelReport {
    pub fn has_fault(&self) -> bool {
        !self.faults.is_empty()
    }
    pub fn classes(&self) -> BTreeSet<FaultClass> {
        self.faults.iter().map(|f| f.class).collect()
    }
}

/// Kind-independent view of a manifest.
#[derive(Clone, Debug)]
pub struct ManifestView {
    pub kind_name: &'static str,
    pub is_subintent: bool,
    pub instructions: Vec<InstructionV2>,
    pub blobs: BTreeSet<[u8; 32]>,
    pub children: usize,
    pub preallocated: usize,
}

pub fn view(m: &AnyManifest) -> ManifestView {
    match m {
        AnyManifest::V1(m) => ManifestView {
            kind_name: "V1",
            is_subintent: false,
            instructions: m.instructions.iter().cloned().map(Into::into).collect(),
            blobs: m.blobs.keys().map(|h| h.0).collect(),
            children: 0,
            preallocated: 0,
        },
        AnyManifest::SystemV1(m) => ManifestView {
            kind_name: "SystemV1",
            is_subintent: false,
            instructions: m.instructions.iter().cloned().map(Into::into).collect(),
            blobs: m.blobs.keys().map(|h| h.0).collect(),
            children: 0,
            preallocated: m.preallocated_addresses.len(),
        },
        AnyManifest::V2(m) => ManifestView {
            kind_name: "V2",
            is_subintent: false,
            instructions: m.instructions.clone(),
            blobs: m.blobs.keys().map(|h| h.0).collect(),
            children: m.children.len(),
            preallocated: 0,
        },
        AnyManifest::SubintentV2(m) => ManifestView {
            kind_name: "SubintentV2",
            is_subintent: true,
            instructions: m.instructions.clone(),
            blobs: m.blobs.keys().map(|h| h.0).collect(),
            children: m.children.len(),
            preallocated: 0,
        },
    }
}

#[derive(Clone, Copy, PartialEq, Eq)]
enum Obj {
    Live,
    Consumed,
}

struct Model<'a> {
    v: &'a ManifestView,
    buckets: Vec<(Obj, u32)>,         // state, named proofs alive
    proofs: Vec<(Obj, Option<usize>)>, // state, backing bucket
    reservations: Vec<Obj>,
    named: usize,
    at: Option<usize>,
    r: ModelReport,
}

impl<'a> Model<'a> {
    fn fault(&mut self, class: FaultClass, detail: String, in_args: bool) {
        self.r.faults.push(Fault { class, at: self.at, detail, in_args });
    }

    fn new_bucket(&mut self) {
        self.buckets.push((Obj::Live, 0));
        self.r.buckets_created += 1;
    }

    /// A bucket is read (proof creation, content assertion): it must exist and be unconsumed.
    fn use_bucket(&mut self, b: ManifestBucket) -> Option<usize> {
        let i = b.0 as usize;
        match self.buckets.get(i) {
            None => {
                self.fault(FaultClass::BucketNotCreated, format!("bucket {} (only {} created so far)", i, self.buckets.len()), true);
                None
            }
            Some((Obj::Consumed, _)) => {
                self.fault(FaultClass::BucketAlreadyConsumed, format!("bucket {}", i), true);
                None
            }
            Some((Obj::Live, _)) => Some(i),
        }
    }

    fn consume_bucket(&mut self, b: ManifestBucket) {
        if let Some(i) = self.use_bucket(b) {
            if self.buckets[i].1 > 0 {
                self.fault(FaultClass::BucketLockedByProof, format!("bucket {} has {} live named proof(s)", i, self.buckets[i].1), true);
            }
            self.buckets[i].0 = Obj::Consumed;
            self.r.buckets_consumed += 1;
        }
    }

    fn new_proof(&mut self, backing: Option<usize>) {
        if let Some(b) = backing {
            self.buckets[b].1 += 1;
        }
        self.proofs.push((Obj::Live, backing));
        self.r.proofs_created += 1;
    }

    fn use_proof(&mut self, p: ManifestProof) -> Option<usize> {
        let i = p.0 as usize;
        match self.proofs.get(i) {
            None => {
                self.fault(FaultClass::ProofNotCreated, format!("proof {} (only {} created so far)", i, self.proofs.len()), true);
                None
            }
            Some((Obj::Consumed, _)) => {
                self.fault(FaultClass::ProofAlreadyConsumed, format!("proof {}", i), true);
                None
            }
            Some((Obj::Live, _)) => Some(i),
        }
    }

    fn consume_proof(&mut self, p: ManifestProof) {
        if let Some(i) = self.use_proof(p) {
            self.kill_proof(i);
        }
    }

    fn kill_proof(&mut self, i: usize) {
        self.proofs[i].0 = Obj::Consumed;
        self.r.proofs_consumed += 1;
        if let Some(b) = self.proofs[i].1 {
            if self.buckets[b].1 > 0 {
                self.buckets[b].1 -= 1;
            }
        }
    }

    fn drop_all_named_proofs(&mut self) {
        for i in 0..self.proofs.len() {
            if self.proofs[i].0 == Obj::Live {
                self.kill_proof(i);
            }
        }
    }

    fn consume_reservation(&mut self, r: ManifestAddressReservation) {
        let i = r.0 as usize;
        match self.reservations.get(i) {
            None => self.fault(FaultClass::ReservationNotCreated, format!("reservation {} (only {} created so far)", i, self.reservations.len()), true),
            Some(Obj::Consumed) => self.fault(FaultClass::ReservationAlreadyConsumed, format!("reservation {}", i), true),
            Some(Obj::Live) => self.reservations[i] = Obj::Consumed,
        }
    }

    fn use_named_address(&mut self, a: ManifestNamedAddress, in_args: bool) {
        if a.0 as usize >= self.named {
            self.fault(FaultClass::NamedAddressNotCreated, format!("named address {} (only {} created so far)", a.0, self.named), in_args);
        }
    }

    /// Objects passed to an invocation, in argument order.
    fn pass_args(&mut self, v: &ManifestValue, is_yield: bool) {
        match v {
            Value::Tuple { fields } | Value::Enum { fields, .. } => {
                for f in fields {
                    self.pass_args(f, is_yield);
                }
            }
            Value::Array { elements, .. } => {
                for e in elements {
                    self.pass_args(e, is_yield);
                }
            }
            Value::Map { entries, .. } => {
                for (k, x) in entries {
                    self.pass_args(k, is_yield);
                    self.pass_args(x, is_yield);
                }
            }
            Value::Custom { value } => match value {
                ManifestCustomValue::Bucket(b) => self.consume_bucket(*b),
                ManifestCustomValue::Proof(p) => {
                    if is_yield {
                        self.r.proof_in_yield = true;
                    }
                    self.consume_proof(*p)
                }
                ManifestCustomValue::AddressReservation(r) => self.consume_reservation(*r),
                ManifestCustomValue::Address(ManifestAddress::Named(a)) => self.use_named_address(*a, true),
                ManifestCustomValue::Blob(b) => {
                    if !self.v.blobs.contains(&b.0) {
                        self.fault(FaultClass::BlobNotDeclared, format!("blob {}", hex::encode(b.0)), true);
                    }
                }
                ManifestCustomValue::Address(ManifestAddress::Static(_))
                | ManifestCustomValue::Expression(_)
                | ManifestCustomValue::Decimal(_)
                | ManifestCustomValue::PreciseDecimal(_)
                | ManifestCustomValue::NonFungibleLocalId(_) => {}
            },
            _ => {}
        }
    }

    fn step(&mut self, ins: &InstructionV2) {
        match ins {
            InstructionV2::TakeFromWorktop(_) | InstructionV2::TakeNonFungiblesFromWorktop(_) | InstructionV2::TakeAllFromWorktop(_) => self.new_bucket(),
            InstructionV2::ReturnToWorktop(x) => self.consume_bucket(x.bucket_id),
            InstructionV2::BurnResource(x) => self.consume_bucket(x.bucket_id),
            InstructionV2::AssertWorktopContainsAny(_)
            | InstructionV2::AssertWorktopContains(_)
            | InstructionV2::AssertWorktopContainsNonFungibles(_)
            | InstructionV2::AssertWorktopResourcesOnly(_)
            | InstructionV2::AssertWorktopResourcesInclude(_)
            | InstructionV2::AssertNextCallReturnsOnly(_)
            | InstructionV2::AssertNextCallReturnsInclude(_) => {}
            InstructionV2::AssertBucketContents(x) => {
                self.use_bucket(x.bucket_id);
            }
            InstructionV2::CreateProofFromBucketOfAmount(CreateProofFromBucketOfAmount { bucket_id, .. })
            | InstructionV2::CreateProofFromBucketOfNonFungibles(CreateProofFromBucketOfNonFungibles { bucket_id, .. })
            | InstructionV2::CreateProofFromBucketOfAll(CreateProofFromBucketOfAll { bucket_id }) => {
                // the new proof id is allocated only when the instruction is well-formed
                if let Some(b) = self.use_bucket(*bucket_id) {
                    self.new_proof(Some(b));
                }
            }
            InstructionV2::CreateProofFromAuthZoneOfAmount(_)
            | InstructionV2::CreateProofFromAuthZoneOfNonFungibles(_)
            | InstructionV2::CreateProofFromAuthZoneOfAll(_)
            | InstructionV2::PopFromAuthZone(_) => self.new_proof(None),
            InstructionV2::CloneProof(x) => {
                if let Some(p) = self.use_proof(x.proof_id) {
                    let backing = self.proofs[p].1;
                    self.new_proof(backing);
                }
            }
            InstructionV2::DropProof(x) => self.consume_proof(x.proof_id),
            InstructionV2::PushToAuthZone(x) => self.consume_proof(x.proof_id),
            InstructionV2::DropAuthZoneProofs(_) | InstructionV2::DropAuthZoneRegularProofs(_) | InstructionV2::DropAuthZoneSignatureProofs(_) => {}
            InstructionV2::DropNamedProofs(_) | InstructionV2::DropAllProofs(_) => self.drop_all_named_proofs(),
            InstructionV2::CallFunction(x) => {
                self.r.invocations += 1;
                if let ManifestPackageAddress::Named(a) = x.package_address {
                    self.use_named_address(a, false);
                }
                self.pass_args(&x.args, false);
            }
            InstructionV2::CallMethod(CallMethod { address, args, .. })
            | InstructionV2::CallRoyaltyMethod(CallRoyaltyMethod { address, args, .. })
            | InstructionV2::CallMetadataMethod(CallMetadataMethod { address, args, .. })
            | InstructionV2::CallRoleAssignmentMethod(CallRoleAssignmentMethod { address, args, .. }) => {
                self.r.invocations += 1;
                if let ManifestGlobalAddress::Named(a) = address {
                    self.use_named_address(*a, false);
                }
                self.pass_args(args, false);
            }
            InstructionV2::CallDirectVaultMethod(x) => {
                self.r.invocations += 1;
                self.pass_args(&x.args, false);
            }
            InstructionV2::AllocateGlobalAddress(_) => {
                self.reservations.push(Obj::Live);
                self.r.reservations_created += 1;
                self.named += 1;
                self.r.named_addresses_created += 1;
            }
            InstructionV2::YieldToParent(x) => {
                self.r.invocations += 1;
                if !self.v.is_subintent {
                    self.fault(FaultClass::ParentInstructionInTransactionIntent, "YIELD_TO_PARENT".into(), false);
                }
                self.pass_args(&x.args, true);
            }
            InstructionV2::YieldToChild(x) => {
                self.r.invocations += 1;
                if x.child_index.0 as usize >= self.v.children {
                    self.fault(FaultClass::ChildNotDeclared, format!("child {} of {} declared", x.child_index.0, self.v.children), false);
                }
                self.pass_args(&x.args, true);
            }
            InstructionV2::VerifyParent(_) => {
                if !self.v.is_subintent {
                    self.fault(FaultClass::ParentInstructionInTransactionIntent, "VERIFY_PARENT".into(), false);
                }
            }
        }
    }
}

pub fn run_model(v: &ManifestView) -> ModelReport {
    let mut m = Model {
        v,
        buckets: Vec::new(),
        proofs: Vec::new(),
        reservations: vec![Obj::Live; v.preallocated],
        named: 0,
        at: None,
        r: ModelReport::default(),
    };
    m.r.reservations_created = v.preallocated;
    for (i, ins) in v.instructions.iter().enumerate() {
        m.at = Some(i);
        m.step(ins);
    }
    m.at = None;
    for i in 0..m.buckets.len() {
        if m.buckets[i].0 == Obj::Live {
            m.fault(FaultClass::DanglingBucket, format!("bucket {}", i), false);
        }
    }
    for i in 0..m.reservations.len() {
        if m.reservations[i] == Obj::Live {
            m.fault(FaultClass::DanglingReservation, format!("reservation {}", i), false);
        }
    }
    if v.is_subintent && !matches!(v.instructions.last(), Some(InstructionV2::YieldToParent(_))) {
        m.fault(FaultClass::SubintentWithoutFinalYield, format!("last instruction of {}", v.instructions.len()), false);
    }
    m.r
}
