pub mod refdec;
pub mod c27;

pub fn checks() -> Vec<vf_core::Check> {
    vec![c27::check()]
}
