//! Development probe (not a check): mgen prediction quality and timings.
use scrypto_test::prelude::*;
use std::time::Instant;
use vf_core::Gen;
use vf_eng_a::exec::*;
use vf_eng_a::mgen::*;
use vf_world::*;

fn tape(seed: u64, n: usize) -> Vec<u8> {
    let mut x = seed.wrapping_mul(0x9E3779B97F4A7C15) ^ 0xdeadbeef;
    (0..n)
        .map(|_| {
            x ^= x << 13;
            x ^= x >> 7;
            x ^= x << 17;
            (x >> 24) as u8
        })
        .collect()
}

fn main() {
    let n: u64 = std::env::args().nth(1).and_then(|s| s.parse().ok()).unwrap_or(200);
    let t0 = Instant::now();
    with_world("dev", no_genesis, build_world, |w| {
        eprintln!("world built in {:?}; ext {:?}", t0.elapsed(), w.ext::<Ext>());
    });
    let mut mis = 0;
    let mut counts = std::collections::BTreeMap::<String, u64>::new();
    let mut labels = std::collections::BTreeMap::<&'static str, (u64, u64)>::new();
    let t1 = Instant::now();
    let mut txs = 0;
    for case in 0..n {
        let t = tape(case, 4000);
        let mut g = Gen::new(&t);
        with_world("dev", no_genesis, build_world, |w| {
            let mut model = Model::new(w);
            let opts = if case % 2 == 0 { Opts::history() } else { Opts::failing_mix() };
            for _ in 0..6 {
                let plan = gen_plan(&mut g, w, &model, &opts);
                let manifest = plan.render(w);
                let run = w.run(manifest, plan.proofs(w));
                txs += 1;
                if let Some(p) = &run.panic {
                    eprintln!("PANIC {} :: {}", p, plan.describe(w));
                    continue;
                }
                let r = run.receipt();
                let o = outcome_string(r);
                let key: String = o.chars().take(60).collect();
                *counts.entry(format!("{:?} -> {}", std::mem::discriminant(&plan.expect), key.split('(').next().unwrap())).or_default() += 1;
                for l in &plan.labels {
                    let e = labels.entry(l).or_default();
                    e.0 += 1;
                    if r.is_commit_success() {
                        e.1 += 1;
                    }
                }
                if let Err(e) = plan.check_expect(r) {
                    mis += 1;
                    eprintln!("MISPREDICT {} :: {}", e, plan.describe(w));
                }
                if r.is_commit_success() {
                    model = plan.commit_success(r);
                }
            }
            let probs = Totals::scan(w.db()).supply_problems();
            if !probs.is_empty() {
                eprintln!("SUPPLY {:?}", probs);
            }
        });
    }
    eprintln!("{} txs in {:?}; mispredictions {}", txs, t1.elapsed(), mis);
    for (k, v) in counts {
        eprintln!("  {:>6}  {}", v, k);
    }
    for (k, (n, s)) in labels {
        eprintln!("  {:>6} {:>6}  {}", n, s, k);
    }

    // timings
    for seed in [7u64, 8, 9, 10, 11, 12, 13, 14] {
    with_world("dev", no_genesis, build_world, |w| {
        let model = Model::new(w);
        let t = tape(seed, 4000);
        let mut g = Gen::new(&t);
        let plan = gen_plan(&mut g, w, &model, &Opts::history());
        eprintln!("timing plan: {}", plan.describe(w));
        let nonce = w.sim.next_transaction_nonce();
        let exe = executable(w, plan.render(w), nonce, &plan.proofs(w)).unwrap();
        let cold = new_modules();
        for (name, kt, cb, et, di) in [
            ("plain", false, false, None, false),
            ("plain again", false, false, None, false),
            ("exec trace max", false, false, Some(MAX_EXECUTION_TRACE_DEPTH), false),
            ("debug info", false, false, None, true),
            ("kernel trace", true, false, None, false),
        ] {
            let mut cfg = ExecutionConfig::for_test_transaction();
            cfg.enable_kernel_trace = kt;
            cfg.enable_cost_breakdown = cb;
            cfg.execution_trace = et;
            cfg.enable_debug_information = di;
            let t = Instant::now();
            let r = exec(w.db(), &cold, &cfg, &exe).unwrap();
            eprintln!("{:>16}: {:?} {}", name, t.elapsed(), outcome_string(&r).chars().take(40).collect::<String>());
        }
        // injection K
        let snap = w.sim.create_snapshot();
        let mut k = 64u64;
        loop {
            let r = w.sim.execute_manifest_with_injected_error(plan.render(w), plan.proofs(w), k);
            w.sim.restore_snapshot(snap.clone());
            if r.is_commit_success() || k > 1 << 20 { break; }
            k *= 2;
        }
        eprintln!("K <= {}", k);
    });
    }
}
