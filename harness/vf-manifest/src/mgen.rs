//! Typed manifest generator (DESIGN R7, static part): manifests of the four kinds built from every
//! instruction variant of `InstructionV1` / `InstructionV2`, with call arguments from `vgen`, and
//! bucket / proof / address-reservation / named-address / blob / child ids allocated consistently
//! so that static validation accepts — unless the caller asks for an injected lifecycle fault, in
//! which case exactly one is planted (when the history offers a place for it).

use crate::cgen;
use crate::vgen::{self, *};
use radix_common::prelude::*;
use radix_engine_interface::blueprints::access_controller::*;
use radix_engine_interface::blueprints::account::*;
use radix_engine_interface::blueprints::consensus_manager::*;
use radix_engine_interface::blueprints::identity::*;
use radix_engine_interface::blueprints::package::*;
use radix_engine_interface::blueprints::resource::*;
use radix_engine_interface::object_modules::metadata::*;
use radix_engine_interface::object_modules::role_assignment::*;
use radix_engine_interface::object_modules::royalty::*;
use radix_transactions::manifest::*;
use radix_transactions::prelude::*;
use std::collections::BTreeSet;
use vf_core::Gen;

#[derive(Clone, Copy, Debug, PartialEq, Eq)]
pub enum Kind {
    V1,
    SystemV1,
    V2,
    SubintentV2,
}

impl Kind {
    pub const ALL: [Kind; 4] = [Kind::V1, Kind::SystemV1, Kind::V2, Kind::SubintentV2];
    pub fn name(&self) -> &'static str {
        match self {
            Kind::V1 => "TransactionManifestV1",
            Kind::SystemV1 => "SystemTransactionManifestV1",
            Kind::V2 => "TransactionManifestV2",
            Kind::SubintentV2 => "SubintentManifestV2",
        }
    }
    pub fn is_v2(&self) -> bool {
        matches!(self, Kind::V2 | Kind::SubintentV2)
    }
    pub fn is_subintent(&self) -> bool {
        matches!(self, Kind::SubintentV2)
    }
    pub fn manifest_kind(&self) -> ManifestKind {
        match self {
            Kind::V1 => ManifestKind::V1,
            Kind::SystemV1 => ManifestKind::SystemV1,
            Kind::V2 => ManifestKind::V2,
            Kind::SubintentV2 => ManifestKind::SubintentV2,
        }
    }
    pub fn of(m: &AnyManifest) -> Kind {
        match m {
            AnyManifest::V1(_) => Kind::V1,
            AnyManifest::SystemV1(_) => Kind::SystemV1,
            AnyManifest::V2(_) => Kind::V2,
            AnyManifest::SubintentV2(_) => Kind::SubintentV2,
        }
    }
}

/// The single lifecycle fault the generator may plant.
#[derive(Clone, Copy, Debug, PartialEq, Eq)]
pub enum Fault {
    StaleBucket,
    FutureBucket,
    SameBucketTwiceInCall,
    LockedBucket,
    StaleProof,
    FutureProof,
    StaleReservation,
    FutureReservation,
    FutureNamedAddressInArgs,
    FutureNamedAddressInCommand,
    UndeclaredBlob,
    UndeclaredChild,
    DanglingBucket,
    DanglingReservation,
    NoFinalYield,
    InstructionAfterFinalYield,
    ParentInstructionInTransaction,
}

impl Fault {
    pub const ALL: [Fault; 17] = [
        Fault::StaleBucket,
        Fault::FutureBucket,
        Fault::SameBucketTwiceInCall,
        Fault::LockedBucket,
        Fault::StaleProof,
        Fault::FutureProof,
        Fault::StaleReservation,
        Fault::FutureReservation,
        Fault::FutureNamedAddressInArgs,
        Fault::FutureNamedAddressInCommand,
        Fault::UndeclaredBlob,
        Fault::UndeclaredChild,
        Fault::DanglingBucket,
        Fault::DanglingReservation,
        Fault::NoFinalYield,
        Fault::InstructionAfterFinalYield,
        Fault::ParentInstructionInTransaction,
    ];
    pub fn name(&self) -> &'static str {
        match self {
            Fault::StaleBucket => "injected: bucket used after consumption",
            Fault::FutureBucket => "injected: bucket used before creation",
            Fault::SameBucketTwiceInCall => "injected: same bucket twice in one call",
            Fault::LockedBucket => "injected: bucket consumed while proof alive",
            Fault::StaleProof => "injected: proof used after consumption",
            Fault::FutureProof => "injected: proof used before creation",
            Fault::StaleReservation => "injected: reservation used after consumption",
            Fault::FutureReservation => "injected: reservation used before creation",
            Fault::FutureNamedAddressInArgs => "injected: unknown named address in arguments",
            Fault::FutureNamedAddressInCommand => "injected: unknown named address as call target",
            Fault::UndeclaredBlob => "injected: undeclared blob",
            Fault::UndeclaredChild => "injected: undeclared child",
            Fault::DanglingBucket => "injected: dangling bucket",
            Fault::DanglingReservation => "injected: dangling reservation",
            Fault::NoFinalYield => "injected: subintent without final yield",
            Fault::InstructionAfterFinalYield => "injected: instruction after the final yield",
            Fault::ParentInstructionInTransaction => "injected: parent-only instruction in a transaction manifest",
        }
    }
    fn at_end(&self) -> bool {
        matches!(self, Fault::DanglingBucket | Fault::DanglingReservation | Fault::NoFinalYield | Fault::InstructionAfterFinalYield)
    }
    /// A stale id that only a single id-consuming use can show.
    pub fn is_single_stale_id(&self) -> bool {
        matches!(self, Fault::StaleBucket | Fault::StaleProof | Fault::StaleReservation)
    }
}

#[derive(Clone, Debug)]
pub struct Options {
    pub kind: Option<Kind>,
    /// Plant exactly one lifecycle fault about half of the time.
    pub inject_fault: bool,
    /// Upper bound on the number of freely chosen instructions (the clean-up tail is extra).
    pub max_steps: usize,
    /// Maximal nesting of filler values.
    pub value_depth: usize,
    /// Allow object names that contain characters needing escapes in a string literal.
    pub names_with_escapes: bool,
    /// Occasionally add one argument nested close to the SBOR depth limit.
    pub deep_values: bool,
}

impl Default for Options {
    fn default() -> Self {
        Options { kind: None, inject_fault: false, max_steps: 14, value_depth: 4, names_with_escapes: true, deep_values: true }
    }
}

#[derive(Clone, Debug, Default)]
pub struct Stats {
    pub values: ValueStats,
    pub max_arg_depth: usize,
    pub calls: usize,
    pub buckets: usize,
    pub proofs: usize,
    pub reservations: usize,
    pub named_addresses: usize,
    pub blobs: usize,
    pub blob_refs: usize,
    pub children: usize,
    pub preallocated: usize,
    pub variants: BTreeSet<&'static str>,
    pub aliases: usize,
    pub names: &'static str,
}

pub struct Generated {
    pub kind: Kind,
    pub manifest: AnyManifest,
    /// The fault that was actually planted (None = valid by construction).
    pub fault: Option<Fault>,
    /// A fault was planned but the history offered no place for it.
    pub fault_not_applicable: bool,
    pub stats: Stats,
}

struct BucketInfo {
    live: bool,
    locks: u32,
    resource: ResourceAddress,
}
struct ProofInfo {
    live: bool,
    bucket: Option<usize>,
}

struct St {
    kind: Kind,
    opts: Options,
    ins: Vec<InstructionV2>,
    buckets: Vec<BucketInfo>,
    proofs: Vec<ProofInfo>,
    reservations: Vec<bool>,
    named: u32,
    blobs: Vec<[u8; 32]>,
    children: u32,
    stats: Stats,
    plan: Option<Fault>,
    planted: bool,
}

fn ident<T: ManifestInstruction>(_: &T) -> &'static str {
    T::IDENT
}

macro_rules! push {
    ($st:expr, $x:expr) => {{
        let x = $x;
        $st.stats.variants.insert(ident(&x));
        $st.ins.push(x.into());
    }};
}

/// `(package, blueprint, function)` triples the decompiler prints as alias instructions.
fn alias_functions() -> Vec<(PackageAddress, &'static str, &'static str)> {
    vec![
        (PACKAGE_PACKAGE, PACKAGE_BLUEPRINT, PACKAGE_PUBLISH_WASM_IDENT),
        (PACKAGE_PACKAGE, PACKAGE_BLUEPRINT, PACKAGE_PUBLISH_WASM_ADVANCED_IDENT),
        (ACCOUNT_PACKAGE, ACCOUNT_BLUEPRINT, ACCOUNT_CREATE_ADVANCED_IDENT),
        (ACCOUNT_PACKAGE, ACCOUNT_BLUEPRINT, ACCOUNT_CREATE_IDENT),
        (IDENTITY_PACKAGE, IDENTITY_BLUEPRINT, IDENTITY_CREATE_ADVANCED_IDENT),
        (IDENTITY_PACKAGE, IDENTITY_BLUEPRINT, IDENTITY_CREATE_IDENT),
        (ACCESS_CONTROLLER_PACKAGE, ACCESS_CONTROLLER_BLUEPRINT, ACCESS_CONTROLLER_CREATE_IDENT),
        (RESOURCE_PACKAGE, FUNGIBLE_RESOURCE_MANAGER_BLUEPRINT, FUNGIBLE_RESOURCE_MANAGER_CREATE_IDENT),
        (RESOURCE_PACKAGE, FUNGIBLE_RESOURCE_MANAGER_BLUEPRINT, FUNGIBLE_RESOURCE_MANAGER_CREATE_WITH_INITIAL_SUPPLY_IDENT),
        (RESOURCE_PACKAGE, NON_FUNGIBLE_RESOURCE_MANAGER_BLUEPRINT, NON_FUNGIBLE_RESOURCE_MANAGER_CREATE_IDENT),
        (RESOURCE_PACKAGE, NON_FUNGIBLE_RESOURCE_MANAGER_BLUEPRINT, NON_FUNGIBLE_RESOURCE_MANAGER_CREATE_WITH_INITIAL_SUPPLY_IDENT),
    ]
}

const MAIN_ALIAS_METHODS: &[&str] = &[
    PACKAGE_CLAIM_ROYALTIES_IDENT,
    FUNGIBLE_RESOURCE_MANAGER_MINT_IDENT,
    NON_FUNGIBLE_RESOURCE_MANAGER_MINT_IDENT,
    NON_FUNGIBLE_RESOURCE_MANAGER_MINT_RUID_IDENT,
    CONSENSUS_MANAGER_CREATE_VALIDATOR_IDENT,
];
const ROYALTY_ALIAS_METHODS: &[&str] = &[COMPONENT_ROYALTY_SET_ROYALTY_IDENT, COMPONENT_ROYALTY_LOCK_ROYALTY_IDENT, COMPONENT_ROYALTY_CLAIM_ROYALTIES_IDENT];
const METADATA_ALIAS_METHODS: &[&str] = &[METADATA_SET_IDENT, METADATA_REMOVE_IDENT, METADATA_LOCK_IDENT];
const ROLE_ALIAS_METHODS: &[&str] = &[ROLE_ASSIGNMENT_SET_OWNER_IDENT, ROLE_ASSIGNMENT_LOCK_OWNER_IDENT, ROLE_ASSIGNMENT_SET_IDENT];
const VAULT_ALIAS_METHODS: &[&str] = &[VAULT_RECALL_IDENT, VAULT_FREEZE_IDENT, VAULT_UNFREEZE_IDENT, NON_FUNGIBLE_VAULT_RECALL_NON_FUNGIBLES_IDENT];
const PLAIN_METHODS: &[&str] = &["deposit", "deposit_batch", "withdraw", "lock_fee", "free", "f", "", "try_deposit_or_abort"];

impl St {
    fn ctx(&self) -> ValueCtx {
        ValueCtx { named_addresses: self.named, blobs: self.blobs.clone() }
    }

    fn consumable_buckets(&self) -> Vec<usize> {
        (0..self.buckets.len()).filter(|i| self.buckets[*i].live && self.buckets[*i].locks == 0).collect()
    }
    fn live_buckets(&self) -> Vec<usize> {
        (0..self.buckets.len()).filter(|i| self.buckets[*i].live).collect()
    }
    fn locked_buckets(&self) -> Vec<usize> {
        (0..self.buckets.len()).filter(|i| self.buckets[*i].live && self.buckets[*i].locks > 0).collect()
    }
    fn dead_buckets(&self) -> Vec<usize> {
        (0..self.buckets.len()).filter(|i| !self.buckets[*i].live).collect()
    }
    fn live_proofs(&self) -> Vec<usize> {
        (0..self.proofs.len()).filter(|i| self.proofs[*i].live).collect()
    }
    fn dead_proofs(&self) -> Vec<usize> {
        (0..self.proofs.len()).filter(|i| !self.proofs[*i].live).collect()
    }
    fn live_reservations(&self) -> Vec<usize> {
        (0..self.reservations.len()).filter(|i| self.reservations[*i]).collect()
    }
    fn dead_reservations(&self) -> Vec<usize> {
        (0..self.reservations.len()).filter(|i| !self.reservations[*i]).collect()
    }

    fn mark_bucket_consumed(&mut self, i: usize) {
        self.buckets[i].live = false;
    }
    fn mark_proof_consumed(&mut self, i: usize) {
        if self.proofs[i].live {
            self.proofs[i].live = false;
            if let Some(b) = self.proofs[i].bucket {
                self.buckets[b].locks -= 1;
            }
        }
    }
    fn mark_all_proofs_consumed(&mut self) {
        for i in 0..self.proofs.len() {
            self.mark_proof_consumed(i);
        }
    }
    fn new_bucket(&mut self, resource: ResourceAddress) {
        self.buckets.push(BucketInfo { live: true, locks: 0, resource });
        self.stats.buckets += 1;
    }
    fn new_proof(&mut self, bucket: Option<usize>) {
        if let Some(b) = bucket {
            self.buckets[b].locks += 1;
        }
        self.proofs.push(ProofInfo { live: true, bucket });
        self.stats.proofs += 1;
    }

    // ---- argument building ---------------------------------------------------------------------

    fn filler(&mut self, g: &mut Gen) -> ManifestValue {
        let ctx = self.ctx();
        let depth = g.range_usize(0, self.opts.value_depth);
        let v = if g.chance(1, 12) { vgen::gen_global_id_tuple(g) } else { vgen::gen_value(g, depth, &ctx, &mut self.stats.values) };
        count_blob_refs(&v, &mut self.stats.blob_refs);
        v
    }

    /// Arguments of a call: the given lifecycle leaves, wrapped and mixed with filler values.
    fn build_args(&mut self, g: &mut Gen, leaves: Vec<ManifestCustomValue>) -> ManifestValue {
        let mut fields: Vec<ManifestValue> = Vec::new();
        // group leaves of one kind into an array / map now and then
        let mut rest: Vec<ManifestCustomValue> = Vec::new();
        let mut by_kind: Vec<(ManifestValueKind, Vec<ManifestValue>)> = Vec::new();
        for l in leaves {
            let v = vgen::custom(l.clone());
            if g.chance(1, 3) {
                let k = vgen::kind_of(&v);
                match by_kind.iter_mut().find(|(kk, _)| *kk == k) {
                    Some((_, vs)) => vs.push(v),
                    None => by_kind.push((k, vec![v])),
                }
            } else {
                rest.push(l);
            }
        }
        for (k, vs) in by_kind {
            if g.bool() {
                fields.push(Value::Array { element_value_kind: k, elements: vs });
            } else {
                let entries = vs.into_iter().enumerate().map(|(i, v)| (Value::String { value: format!("k{}", i) }, v)).collect();
                fields.push(Value::Map { key_value_kind: ValueKind::String, value_value_kind: k, entries });
            }
        }
        for l in rest {
            let levels = g.weighted(&[6, 3, 2, 1]);
            let v = vgen::nest(g, vgen::custom(l), levels);
            fields.push(v);
        }
        let n_fill = g.len(3);
        for _ in 0..n_fill {
            let v = self.filler(g);
            let pos = g.index(fields.len() + 1);
            fields.insert(pos, v);
        }
        if self.opts.deep_values && g.chance(1, 40) {
            // close to the SBOR depth limit (the whole manifest may or may not still encode)
            let levels = g.range_usize(12, 19);
            let inner = self.filler(g);
            let v = vgen::nest(g, inner, levels);
            fields.push(v);
        }
        // shuffle a little: swap two fields
        if fields.len() >= 2 && g.bool() {
            let a = g.index(fields.len());
            let b = g.index(fields.len());
            fields.swap(a, b);
        }
        let args = Value::Tuple { fields };
        let d = vgen::depth_of(&args);
        self.stats.max_arg_depth = self.stats.max_arg_depth.max(d);
        args
    }

    /// Choose objects to pass to a call and mark them consumed. `cross_intent` = YIELD (no proofs).
    fn pick_leaves(&mut self, g: &mut Gen, cross_intent: bool, want_bucket: bool) -> Vec<ManifestCustomValue> {
        let mut leaves = Vec::new();
        let mut first = want_bucket;
        for b in self.consumable_buckets() {
            if first || g.chance(1, 3) {
                leaves.push(ManifestCustomValue::Bucket(ManifestBucket(b as u32)));
                self.mark_bucket_consumed(b);
            }
            first = false;
        }
        if !cross_intent {
            for p in self.live_proofs() {
                if g.chance(1, 4) {
                    leaves.push(ManifestCustomValue::Proof(ManifestProof(p as u32)));
                    self.mark_proof_consumed(p);
                }
            }
        }
        for r in self.live_reservations() {
            if g.chance(1, 3) {
                leaves.push(ManifestCustomValue::AddressReservation(ManifestAddressReservation(r as u32)));
                self.reservations[r] = false;
            }
        }
        if self.named > 0 && g.chance(1, 3) {
            leaves.push(ManifestCustomValue::Address(ManifestAddress::Named(ManifestNamedAddress(g.below(self.named as u64) as u32))));
        }
        if !self.blobs.is_empty() && g.chance(1, 3) {
            self.stats.blob_refs += 1;
            leaves.push(ManifestCustomValue::Blob(ManifestBlobRef(*g.pick(&self.blobs))));
        }
        if g.chance(1, 6) {
            leaves.push(ManifestCustomValue::Expression(if g.bool() { ManifestExpression::EntireWorktop } else { ManifestExpression::EntireAuthZone }));
        }
        leaves
    }

    fn global_target(&mut self, g: &mut Gen) -> ManifestGlobalAddress {
        if self.named > 0 && g.chance(1, 4) {
            ManifestGlobalAddress::Named(ManifestNamedAddress(g.below(self.named as u64) as u32))
        } else {
            ManifestGlobalAddress::Static(vgen::gen_global_address(g))
        }
    }

    fn method_name(&mut self, g: &mut Gen, aliases: &[&str]) -> String {
        match g.weighted(&[4, 4, 2]) {
            0 => g.pick(PLAIN_METHODS).to_string(),
            1 => {
                self.stats.aliases += 1;
                g.pick(aliases).to_string()
            }
            _ => vgen::gen_string(g, &mut self.stats.values),
        }
    }

    /// Emit one invocation instruction carrying `leaves`.
    fn emit_call(&mut self, g: &mut Gen, leaves: Vec<ManifestCustomValue>) {
        let args = self.build_args(g, leaves);
        self.stats.calls += 1;
        match g.weighted(&[5, 3, 1, 1, 1, 1]) {
            0 => {
                let address = self.global_target(g);
                // make the method aliases reachable: they depend on the entity type of a static address
                let address = if g.chance(1, 3) {
                    let et = *g.pick(&[
                        EntityType::GlobalPackage,
                        EntityType::GlobalFungibleResourceManager,
                        EntityType::GlobalNonFungibleResourceManager,
                        EntityType::GlobalConsensusManager,
                    ]);
                    ManifestGlobalAddress::Static(GlobalAddress::new_or_panic(vgen::gen_node_bytes(g, et)))
                } else {
                    address
                };
                let method_name = self.method_name(g, MAIN_ALIAS_METHODS);
                push!(self, CallMethod { address, method_name, args });
            }
            1 => {
                let (package_address, blueprint_name, function_name) = if g.chance(1, 3) {
                    self.stats.aliases += 1;
                    let f = alias_functions();
                    let (p, b, f) = g.pick(&f).clone();
                    (ManifestPackageAddress::Static(p), b.to_string(), f.to_string())
                } else {
                    let p = if self.named > 0 && g.chance(1, 4) {
                        ManifestPackageAddress::Named(ManifestNamedAddress(g.below(self.named as u64) as u32))
                    } else {
                        ManifestPackageAddress::Static(vgen::gen_package_address(g))
                    };
                    (p, vgen::gen_string(g, &mut self.stats.values), vgen::gen_string(g, &mut self.stats.values))
                };
                push!(self, CallFunction { package_address, blueprint_name, function_name, args });
            }
            2 => {
                let address = self.global_target(g);
                let method_name = self.method_name(g, ROYALTY_ALIAS_METHODS);
                push!(self, CallRoyaltyMethod { address, method_name, args });
            }
            3 => {
                let address = self.global_target(g);
                let method_name = self.method_name(g, METADATA_ALIAS_METHODS);
                push!(self, CallMetadataMethod { address, method_name, args });
            }
            4 => {
                let address = self.global_target(g);
                let method_name = self.method_name(g, ROLE_ALIAS_METHODS);
                push!(self, CallRoleAssignmentMethod { address, method_name, args });
            }
            _ => {
                let address = vgen::gen_internal_address(g);
                let method_name = self.method_name(g, VAULT_ALIAS_METHODS);
                push!(self, CallDirectVaultMethod { address, method_name, args });
            }
        }
    }

    fn emit_yield_to_child(&mut self, g: &mut Gen, child: u32, leaves: Vec<ManifestCustomValue>) {
        let args = self.build_args(g, leaves);
        self.stats.calls += 1;
        push!(self, YieldToChild { child_index: ManifestNamedIntentIndex(child), args });
    }
    fn emit_yield_to_parent(&mut self, g: &mut Gen, leaves: Vec<ManifestCustomValue>) {
        let args = self.build_args(g, leaves);
        self.stats.calls += 1;
        push!(self, YieldToParent { args });
    }

    /// Any invocation the kind allows (used after ASSERT_NEXT_CALL_RETURNS_* and as a plain step).
    fn emit_any_invocation(&mut self, g: &mut Gen) {
        let yieldable = self.kind.is_v2() && (self.children > 0 || self.kind.is_subintent());
        if yieldable && g.chance(1, 4) {
            let leaves = self.pick_leaves(g, true, false);
            if self.children > 0 && (!self.kind.is_subintent() || g.bool()) {
                let c = g.below(self.children as u64) as u32;
                self.emit_yield_to_child(g, c, leaves);
            } else {
                self.emit_yield_to_parent(g, leaves);
            }
        } else {
            let leaves = self.pick_leaves(g, false, false);
            self.emit_call(g, leaves);
        }
    }

    // ---- one valid step ------------------------------------------------------------------------

    fn gen_ids(&mut self, g: &mut Gen) -> Vec<NonFungibleLocalId> {
        let n = g.len(3);
        (0..n).map(|_| if g.chance(1, 2) { cgen::universe_id(g.index(cgen::UNIVERSE)) } else { vgen::gen_local_id(g) }).collect()
    }

    fn valid_constraints(&mut self, g: &mut Gen) -> ManifestResourceConstraints {
        let n = g.len(3);
        let mut c = ManifestResourceConstraints::new();
        let mut seen: Vec<ResourceAddress> = Vec::new();
        for _ in 0..n {
            let fungible = g.bool();
            let r = vgen::gen_resource_address(g, fungible);
            if seen.contains(&r) {
                continue;
            }
            seen.push(r);
            c = c.with_unchecked(r, cgen::gen_valid_constraint(g, fungible));
        }
        c
    }

    fn step(&mut self, g: &mut Gen) {
        let v2 = self.kind.is_v2();
        let sub = self.kind.is_subintent();
        let has_consumable = !self.consumable_buckets().is_empty();
        let has_live_bucket = !self.live_buckets().is_empty();
        let has_proof = !self.live_proofs().is_empty();
        let w = |b: bool, n: u32| if b { n } else { 0 };
        let choice = g.weighted(&[
            6,                                        // 0 take*
            w(has_consumable, 4),                     // 1 return / burn
            2,                                        // 2 worktop assertions (v1 style)
            w(has_live_bucket, 5),                    // 3 proof from bucket
            3,                                        // 4 proof from auth zone / pop
            w(has_proof, 5),                          // 5 clone / drop / push
            1,                                        // 6 drop auth zone proofs (3 kinds)
            1,                                        // 7 drop named / all proofs
            8,                                        // 8 call
            2,                                        // 9 allocate global address
            w(v2, 2),                                 // 10 assert worktop resources only/include
            w(v2, 2),                                 // 11 assert next call returns + call
            w(v2 && has_live_bucket, 2),              // 12 assert bucket contents
            w(v2 && self.children > 0, 3),            // 13 yield to child
            w(sub, 2),                                // 14 yield to parent (mid-way)
            w(sub, 1),                                // 15 verify parent
        ]);
        match choice {
            0 => {
                let fungible = g.chance(2, 3);
                let resource_address = vgen::gen_resource_address(g, fungible);
                match g.below(3) {
                    0 => push!(self, TakeFromWorktop { resource_address, amount: vgen::gen_decimal(g) }),
                    1 => {
                        let ids = self.gen_ids(g);
                        push!(self, TakeNonFungiblesFromWorktop { resource_address, ids })
                    }
                    _ => push!(self, TakeAllFromWorktop { resource_address }),
                }
                self.new_bucket(resource_address);
            }
            1 => {
                let c = self.consumable_buckets();
                let b = *g.pick(&c);
                let bucket_id = ManifestBucket(b as u32);
                if g.bool() {
                    push!(self, ReturnToWorktop { bucket_id });
                } else {
                    push!(self, BurnResource { bucket_id });
                }
                self.mark_bucket_consumed(b);
            }
            2 => match g.below(3) {
                0 => {
                    let f = g.bool();
                    push!(self, AssertWorktopContainsAny { resource_address: vgen::gen_resource_address(g, f) })
                }
                1 => {
                    let fungible = g.bool();
                    let amount = vf_math::refdec::big_to_dec(&cgen::gen_amount(g, !fungible));
                    push!(self, AssertWorktopContains { resource_address: vgen::gen_resource_address(g, fungible), amount })
                }
                _ => {
                    let ids = self.gen_ids(g);
                    push!(self, AssertWorktopContainsNonFungibles { resource_address: vgen::gen_resource_address(g, false), ids })
                }
            },
            3 => {
                let l = self.live_buckets();
                let b = *g.pick(&l);
                let bucket_id = ManifestBucket(b as u32);
                match g.below(3) {
                    0 => push!(self, CreateProofFromBucketOfAmount { bucket_id, amount: vgen::gen_decimal(g) }),
                    1 => {
                        let ids = self.gen_ids(g);
                        push!(self, CreateProofFromBucketOfNonFungibles { bucket_id, ids })
                    }
                    _ => push!(self, CreateProofFromBucketOfAll { bucket_id }),
                }
                self.new_proof(Some(b));
            }
            4 => {
                let fungible = g.bool();
                let resource_address = vgen::gen_resource_address(g, fungible);
                match g.below(4) {
                    0 => push!(self, CreateProofFromAuthZoneOfAmount { resource_address, amount: vgen::gen_decimal(g) }),
                    1 => {
                        let ids = self.gen_ids(g);
                        push!(self, CreateProofFromAuthZoneOfNonFungibles { resource_address, ids })
                    }
                    2 => push!(self, CreateProofFromAuthZoneOfAll { resource_address }),
                    _ => push!(self, PopFromAuthZone),
                }
                self.new_proof(None);
            }
            5 => {
                let l = self.live_proofs();
                let p = *g.pick(&l);
                let proof_id = ManifestProof(p as u32);
                match g.below(3) {
                    0 => {
                        push!(self, CloneProof { proof_id });
                        let backing = self.proofs[p].bucket;
                        self.new_proof(backing);
                    }
                    1 => {
                        push!(self, DropProof { proof_id });
                        self.mark_proof_consumed(p);
                    }
                    _ => {
                        push!(self, PushToAuthZone { proof_id });
                        self.mark_proof_consumed(p);
                    }
                }
            }
            6 => match g.below(3) {
                0 => push!(self, DropAuthZoneProofs),
                1 => push!(self, DropAuthZoneRegularProofs),
                _ => push!(self, DropAuthZoneSignatureProofs),
            },
            7 => {
                if g.bool() {
                    push!(self, DropNamedProofs);
                } else {
                    push!(self, DropAllProofs);
                }
                self.mark_all_proofs_consumed();
            }
            8 => {
                let leaves = self.pick_leaves(g, false, false);
                self.emit_call(g, leaves);
            }
            9 => {
                let package_address = vgen::gen_package_address(g);
                let blueprint_name = vgen::gen_string(g, &mut self.stats.values);
                push!(self, AllocateGlobalAddress { package_address, blueprint_name });
                self.reservations.push(true);
                self.named += 1;
                self.stats.reservations += 1;
                self.stats.named_addresses += 1;
            }
            10 => {
                let constraints = self.valid_constraints(g);
                if g.bool() {
                    push!(self, AssertWorktopResourcesOnly { constraints });
                } else {
                    push!(self, AssertWorktopResourcesInclude { constraints });
                }
            }
            11 => {
                let constraints = self.valid_constraints(g);
                if g.bool() {
                    push!(self, AssertNextCallReturnsOnly { constraints });
                } else {
                    push!(self, AssertNextCallReturnsInclude { constraints });
                }
                self.emit_any_invocation(g);
            }
            12 => {
                let l = self.live_buckets();
                let b = *g.pick(&l);
                let fungible = self.buckets[b].resource.is_fungible();
                let constraint = cgen::gen_valid_constraint(g, fungible);
                push!(self, AssertBucketContents { bucket_id: ManifestBucket(b as u32), constraint });
            }
            13 => {
                let leaves = self.pick_leaves(g, true, false);
                let c = g.below(self.children as u64) as u32;
                self.emit_yield_to_child(g, c, leaves);
            }
            14 => {
                let leaves = self.pick_leaves(g, true, false);
                self.emit_yield_to_parent(g, leaves);
            }
            _ => {
                let access_rule = gen_access_rule(g);
                push!(self, VerifyParent { access_rule });
            }
        }
    }

    // ---- fault planting ------------------------------------------------------------------------

    /// Use bucket id `b` (stale or not yet created) in some bucket-taking position.
    fn use_bucket_somewhere(&mut self, g: &mut Gen, b: u32) {
        let bucket_id = ManifestBucket(b);
        let n = if self.kind.is_v2() { 7 } else { 6 };
        match g.below(n) {
            0 => push!(self, ReturnToWorktop { bucket_id }),
            1 => push!(self, BurnResource { bucket_id }),
            2 => push!(self, CreateProofFromBucketOfAll { bucket_id }),
            3 => push!(self, CreateProofFromBucketOfAmount { bucket_id, amount: Decimal::ONE }),
            4 => push!(self, CreateProofFromBucketOfNonFungibles { bucket_id, ids: vec![] }),
            5 => {
                let leaves = vec![ManifestCustomValue::Bucket(bucket_id)];
                self.emit_call(g, leaves);
            }
            _ => push!(self, AssertBucketContents { bucket_id, constraint: ManifestResourceConstraint::NonZeroAmount }),
        }
    }
    fn use_proof_somewhere(&mut self, g: &mut Gen, p: u32) {
        let proof_id = ManifestProof(p);
        match g.below(4) {
            0 => push!(self, DropProof { proof_id }),
            1 => push!(self, CloneProof { proof_id }),
            2 => push!(self, PushToAuthZone { proof_id }),
            _ => {
                let leaves = vec![ManifestCustomValue::Proof(proof_id)];
                self.emit_call(g, leaves);
            }
        }
    }

    fn make_bucket(&mut self, g: &mut Gen) -> usize {
        let fungible = g.bool();
        let resource_address = vgen::gen_resource_address(g, fungible);
        push!(self, TakeAllFromWorktop { resource_address });
        self.new_bucket(resource_address);
        self.buckets.len() - 1
    }

    /// Try to plant the planned fault now; true when done.
    fn try_plant(&mut self, g: &mut Gen) -> bool {
        let Some(f) = self.plan else { return false };
        match f {
            Fault::StaleBucket => {
                let mut dead = self.dead_buckets();
                if dead.is_empty() {
                    let mut c = self.consumable_buckets();
                    if c.is_empty() {
                        c = vec![self.make_bucket(g)];
                    }
                    let b = *g.pick(&c);
                    match g.below(3) {
                        0 => push!(self, ReturnToWorktop { bucket_id: ManifestBucket(b as u32) }),
                        1 => push!(self, BurnResource { bucket_id: ManifestBucket(b as u32) }),
                        _ => {
                            let leaves = vec![ManifestCustomValue::Bucket(ManifestBucket(b as u32))];
                            self.emit_call(g, leaves);
                        }
                    }
                    self.mark_bucket_consumed(b);
                    dead = vec![b];
                }
                let b = *g.pick(&dead);
                self.use_bucket_somewhere(g, b as u32);
            }
            Fault::FutureBucket => {
                let b = self.buckets.len() as u32 + g.below(3) as u32;
                self.use_bucket_somewhere(g, b);
            }
            Fault::SameBucketTwiceInCall => {
                let mut c = self.consumable_buckets();
                if c.is_empty() {
                    c = vec![self.make_bucket(g)];
                }
                let b = *g.pick(&c);
                let leaf = ManifestCustomValue::Bucket(ManifestBucket(b as u32));
                self.mark_bucket_consumed(b);
                self.emit_call(g, vec![leaf.clone(), leaf]);
            }
            Fault::LockedBucket => {
                let mut l = self.locked_buckets();
                if l.is_empty() {
                    let mut live = self.live_buckets();
                    if live.is_empty() {
                        live = vec![self.make_bucket(g)];
                    }
                    let b = *g.pick(&live);
                    push!(self, CreateProofFromBucketOfAll { bucket_id: ManifestBucket(b as u32) });
                    self.new_proof(Some(b));
                    l = vec![b];
                }
                let b = *g.pick(&l);
                let bucket_id = ManifestBucket(b as u32);
                match g.below(3) {
                    0 => push!(self, ReturnToWorktop { bucket_id }),
                    1 => push!(self, BurnResource { bucket_id }),
                    _ => {
                        let leaves = vec![ManifestCustomValue::Bucket(bucket_id)];
                        self.emit_call(g, leaves);
                    }
                }
                self.mark_bucket_consumed(b);
            }
            Fault::StaleProof => {
                let mut dead = self.dead_proofs();
                if dead.is_empty() {
                    let mut live = self.live_proofs();
                    if live.is_empty() {
                        push!(self, PopFromAuthZone);
                        self.new_proof(None);
                        live = self.live_proofs();
                    }
                    let p = *g.pick(&live);
                    match g.below(5) {
                        0 => {
                            push!(self, DropAllProofs);
                            self.mark_all_proofs_consumed();
                        }
                        1 => {
                            push!(self, DropNamedProofs);
                            self.mark_all_proofs_consumed();
                        }
                        2 => {
                            push!(self, DropProof { proof_id: ManifestProof(p as u32) });
                            self.mark_proof_consumed(p);
                        }
                        3 => {
                            push!(self, PushToAuthZone { proof_id: ManifestProof(p as u32) });
                            self.mark_proof_consumed(p);
                        }
                        _ => {
                            let leaves = vec![ManifestCustomValue::Proof(ManifestProof(p as u32))];
                            self.emit_call(g, leaves);
                            self.mark_proof_consumed(p);
                        }
                    }
                    dead = vec![p];
                }
                let p = *g.pick(&dead);
                self.use_proof_somewhere(g, p as u32);
            }
            Fault::FutureProof => {
                let p = self.proofs.len() as u32 + g.below(3) as u32;
                self.use_proof_somewhere(g, p);
            }
            Fault::StaleReservation => {
                let mut dead = self.dead_reservations();
                if dead.is_empty() {
                    let mut live = self.live_reservations();
                    if live.is_empty() {
                        push!(self, AllocateGlobalAddress { package_address: vgen::gen_package_address(g), blueprint_name: "B".to_string() });
                        self.reservations.push(true);
                        self.named += 1;
                        self.stats.reservations += 1;
                        self.stats.named_addresses += 1;
                        live = self.live_reservations();
                    }
                    let r = *g.pick(&live);
                    let leaves = vec![ManifestCustomValue::AddressReservation(ManifestAddressReservation(r as u32))];
                    self.emit_call(g, leaves);
                    self.reservations[r] = false;
                    dead = vec![r];
                }
                let r = *g.pick(&dead);
                let leaves = vec![ManifestCustomValue::AddressReservation(ManifestAddressReservation(r as u32))];
                self.emit_call(g, leaves);
            }
            Fault::FutureReservation => {
                let r = self.reservations.len() as u32 + g.below(3) as u32;
                let leaves = vec![ManifestCustomValue::AddressReservation(ManifestAddressReservation(r))];
                self.emit_call(g, leaves);
            }
            Fault::FutureNamedAddressInArgs => {
                let a = self.named + g.below(3) as u32;
                let leaves = vec![ManifestCustomValue::Address(ManifestAddress::Named(ManifestNamedAddress(a)))];
                self.emit_call(g, leaves);
            }
            Fault::FutureNamedAddressInCommand => {
                let a = ManifestNamedAddress(self.named + g.below(3) as u32);
                let args = self.build_args(g, vec![]);
                self.stats.calls += 1;
                match g.below(5) {
                    0 => push!(self, CallMethod { address: ManifestGlobalAddress::Named(a), method_name: "m".into(), args }),
                    1 => push!(self, CallFunction { package_address: ManifestPackageAddress::Named(a), blueprint_name: "B".into(), function_name: "f".into(), args }),
                    2 => push!(self, CallRoyaltyMethod { address: ManifestGlobalAddress::Named(a), method_name: "m".into(), args }),
                    3 => push!(self, CallMetadataMethod { address: ManifestGlobalAddress::Named(a), method_name: "m".into(), args }),
                    _ => push!(self, CallRoleAssignmentMethod { address: ManifestGlobalAddress::Named(a), method_name: "m".into(), args }),
                }
            }
            Fault::UndeclaredBlob => {
                let mut h: [u8; 32] = g.array();
                while self.blobs.contains(&h) {
                    h[0] = h[0].wrapping_add(1);
                }
                let leaves = vec![ManifestCustomValue::Blob(ManifestBlobRef(h))];
                self.emit_call(g, leaves);
            }
            Fault::UndeclaredChild => {
                if !self.kind.is_v2() {
                    return false;
                }
                let c = self.children + g.below(3) as u32;
                self.emit_yield_to_child(g, c, vec![]);
            }
            Fault::ParentInstructionInTransaction => {
                if self.kind != Kind::V2 {
                    return false;
                }
                if g.bool() {
                    self.emit_yield_to_parent(g, vec![]);
                } else {
                    push!(self, VerifyParent { access_rule: AccessRule::AllowAll });
                }
            }
            Fault::DanglingBucket | Fault::DanglingReservation | Fault::NoFinalYield | Fault::InstructionAfterFinalYield => return false,
        }
        true
    }

    // ---- clean-up tail: consume what is left so that validation accepts -------------------------

    fn finish(&mut self, g: &mut Gen) {
        let end_fault = self.plan.filter(|f| f.at_end() && !self.planted);
        // the object to leave dangling must exist
        let mut skip_bucket: Option<usize> = None;
        let mut skip_reservation: Option<usize> = None;
        match end_fault {
            Some(Fault::DanglingBucket) => {
                if self.live_buckets().is_empty() {
                    push!(self, TakeAllFromWorktop { resource_address: XRD });
                    self.new_bucket(XRD);
                }
                let l = self.live_buckets();
                skip_bucket = Some(*g.pick(&l));
                self.planted = true;
            }
            Some(Fault::DanglingReservation) => {
                if self.live_reservations().is_empty() {
                    push!(self, AllocateGlobalAddress { package_address: ACCOUNT_PACKAGE, blueprint_name: ACCOUNT_BLUEPRINT.to_string() });
                    self.reservations.push(true);
                    self.named += 1;
                    self.stats.reservations += 1;
                    self.stats.named_addresses += 1;
                }
                let l = self.live_reservations();
                skip_reservation = Some(*g.pick(&l));
                self.planted = true;
            }
            _ => {}
        }

        // unlock buckets
        let locked: Vec<usize> = self.locked_buckets().into_iter().filter(|b| Some(*b) != skip_bucket).collect();
        if !locked.is_empty() {
            match g.below(3) {
                0 => {
                    push!(self, DropAllProofs);
                    self.mark_all_proofs_consumed();
                }
                1 => {
                    push!(self, DropNamedProofs);
                    self.mark_all_proofs_consumed();
                }
                _ => {
                    for p in self.live_proofs() {
                        if self.proofs[p].bucket.is_some() {
                            if g.bool() {
                                push!(self, DropProof { proof_id: ManifestProof(p as u32) });
                            } else {
                                push!(self, PushToAuthZone { proof_id: ManifestProof(p as u32) });
                            }
                            self.mark_proof_consumed(p);
                        }
                    }
                }
            }
        }
        // when leaving a locked bucket dangling its proofs may stay, too
        let final_yield_takes_buckets = self.kind.is_subintent() && g.bool();
        let mut for_yield: Vec<ManifestCustomValue> = Vec::new();
        let mut batch: Vec<ManifestCustomValue> = Vec::new();
        for b in self.live_buckets() {
            if Some(b) == skip_bucket || self.buckets[b].locks > 0 {
                continue;
            }
            let bucket_id = ManifestBucket(b as u32);
            if final_yield_takes_buckets && g.bool() {
                for_yield.push(ManifestCustomValue::Bucket(bucket_id));
            } else {
                match g.below(4) {
                    0 => push!(self, ReturnToWorktop { bucket_id }),
                    1 => push!(self, BurnResource { bucket_id }),
                    _ => batch.push(ManifestCustomValue::Bucket(bucket_id)),
                }
            }
            self.mark_bucket_consumed(b);
        }
        for r in self.live_reservations() {
            if Some(r) == skip_reservation {
                continue;
            }
            batch.push(ManifestCustomValue::AddressReservation(ManifestAddressReservation(r as u32)));
            self.reservations[r] = false;
        }
        if !batch.is_empty() {
            if batch.len() > 1 && g.bool() {
                let second = batch.split_off(batch.len() / 2);
                self.emit_call(g, batch);
                self.emit_call(g, second);
            } else {
                self.emit_call(g, batch);
            }
        }
        if self.kind.is_subintent() {
            match end_fault {
                Some(Fault::NoFinalYield) => {
                    // either nothing at the end, or the last yield replaced by something else
                    if g.bool() {
                        // leave the end as it is, unless it accidentally is a yield
                        while matches!(self.ins.last(), Some(InstructionV2::YieldToParent(_))) {
                            push!(self, DropAuthZoneProofs);
                        }
                    } else {
                        push!(self, DropAllProofs);
                    }
                    // buckets meant for the yield must still go somewhere
                    if !for_yield.is_empty() {
                        self.emit_call(g, for_yield);
                    }
                    self.planted = true;
                }
                Some(Fault::InstructionAfterFinalYield) => {
                    self.emit_yield_to_parent(g, for_yield);
                    match g.below(3) {
                        0 => push!(self, DropAuthZoneProofs),
                        1 => push!(self, AssertWorktopContainsAny { resource_address: XRD }),
                        _ => {
                            self.emit_call(g, vec![]);
                        }
                    }
                    self.planted = true;
                }
                _ => self.emit_yield_to_parent(g, for_yield),
            }
        }
    }
}

fn count_blob_refs(v: &ManifestValue, n: &mut usize) {
    match v {
        Value::Tuple { fields } | Value::Enum { fields, .. } => fields.iter().for_each(|f| count_blob_refs(f, n)),
        Value::Array { elements, .. } => elements.iter().for_each(|f| count_blob_refs(f, n)),
        Value::Map { entries, .. } => entries.iter().for_each(|(k, x)| {
            count_blob_refs(k, n);
            count_blob_refs(x, n)
        }),
        Value::Custom { value: ManifestCustomValue::Blob(_) } => *n += 1,
        _ => {}
    }
}

fn gen_resource_or_nf(g: &mut Gen) -> ResourceOrNonFungible {
    if g.bool() {
        let f = g.bool();
        ResourceOrNonFungible::Resource(vgen::gen_resource_address(g, f))
    } else {
        ResourceOrNonFungible::NonFungible(NonFungibleGlobalId::new(vgen::gen_resource_address(g, false), vgen::gen_local_id(g)))
    }
}

fn gen_composite(g: &mut Gen, depth: usize) -> CompositeRequirement {
    let leaf = depth == 0 || g.chance(1, 2);
    if leaf {
        CompositeRequirement::BasicRequirement(match g.below(5) {
            0 => BasicRequirement::Require(gen_resource_or_nf(g)),
            1 => BasicRequirement::AmountOf(vgen::gen_decimal(g), vgen::gen_resource_address(g, true)),
            2 => {
                let n = g.len(3);
                BasicRequirement::CountOf(g.u8(), (0..n).map(|_| gen_resource_or_nf(g)).collect())
            }
            3 => {
                let n = g.len(3);
                BasicRequirement::AllOf((0..n).map(|_| gen_resource_or_nf(g)).collect())
            }
            _ => {
                let n = g.len(3);
                BasicRequirement::AnyOf((0..n).map(|_| gen_resource_or_nf(g)).collect())
            }
        })
    } else {
        let n = g.len(3);
        let v = (0..n).map(|_| gen_composite(g, depth - 1)).collect();
        if g.bool() {
            CompositeRequirement::AnyOf(v)
        } else {
            CompositeRequirement::AllOf(v)
        }
    }
}

pub fn gen_access_rule(g: &mut Gen) -> AccessRule {
    match g.weighted(&[1, 1, 4]) {
        0 => AccessRule::AllowAll,
        1 => AccessRule::DenyAll,
        _ => AccessRule::Protected(gen_composite(g, 3)),
    }
}

const NAME_POOL: &[&str] = &["a", "xrd_bucket", "B", "my bucket", "ünï", "😀", "", "x y\tz", "tab\there", "line\nbreak", "#hash", "semi;colon", "paren(", "1", "u8", "\u{202e}rtl", "é\u{301}"];
const ESCAPE_NAME_POOL: &[&str] = &["quote\"inside", "back\\slash", "\\", "\"", "a\\nb", "end\\"];

fn gen_names(g: &mut Gen, count: usize, opts: &Options, partial: bool) -> IndexMap<u32, String> {
    let mut used: BTreeSet<String> = BTreeSet::new();
    let mut out: IndexMap<u32, String> = Default::default();
    for i in 0..count {
        if partial && g.bool() {
            continue;
        }
        let base: &str = if opts.names_with_escapes && g.chance(1, 12) { *g.pick(ESCAPE_NAME_POOL) } else { *g.pick(NAME_POOL) };
        let mut name = base.to_string();
        if used.contains(&name) {
            name = format!("{}_{}", base, i);
        }
        used.insert(name.clone());
        out.insert(i as u32, name);
    }
    out
}

fn gen_object_names(g: &mut Gen, st: &mut St) -> ManifestObjectNames {
    let mode = g.weighted(&[3, 4, 2]);
    st.stats.names = match mode {
        0 => "names unknown",
        1 => "names known (all)",
        _ => "names known (some)",
    };
    if mode == 0 {
        return ManifestObjectNames::Unknown;
    }
    let partial = mode == 2;
    let opts = st.opts.clone();
    KnownManifestObjectNames {
        bucket_names: gen_names(g, st.buckets.len(), &opts, partial).into_iter().map(|(k, v)| (ManifestBucket(k), v)).collect(),
        proof_names: gen_names(g, st.proofs.len(), &opts, partial).into_iter().map(|(k, v)| (ManifestProof(k), v)).collect(),
        address_reservation_names: gen_names(g, st.reservations.len(), &opts, partial).into_iter().map(|(k, v)| (ManifestAddressReservation(k), v)).collect(),
        address_names: gen_names(g, st.named as usize, &opts, partial).into_iter().map(|(k, v)| (ManifestNamedAddress(k), v)).collect(),
        intent_names: gen_names(g, st.children as usize, &opts, partial).into_iter().map(|(k, v)| (ManifestNamedIntent(k), v)).collect(),
    }
    .into()
}

/// Generate one manifest.
pub fn generate(g: &mut Gen, opts: &Options) -> Generated {
    let kind = opts.kind.unwrap_or_else(|| *g.pick(&Kind::ALL));
    let mut st = St {
        kind,
        opts: opts.clone(),
        ins: Vec::new(),
        buckets: Vec::new(),
        proofs: Vec::new(),
        reservations: Vec::new(),
        named: 0,
        blobs: Vec::new(),
        children: 0,
        stats: Stats::default(),
        plan: None,
        planted: false,
    };

    // preamble: blobs, children, preallocated addresses
    let mut blobs: IndexMap<Hash, Vec<u8>> = IndexMap::default();
    let n_blobs = g.weighted(&[5, 3, 2]);
    for _ in 0..n_blobs {
        let content = g.blob(24);
        let h = hash(&content);
        if blobs.insert(h, content).is_none() {
            st.blobs.push(h.0);
        }
    }
    st.stats.blobs = st.blobs.len();
    let mut children: IndexSet<ChildSubintentSpecifier> = IndexSet::default();
    if kind.is_v2() {
        let n = g.weighted(&[4, 3, 2, 1]);
        for _ in 0..n {
            let h: [u8; 32] = match g.below(3) {
                0 => [0u8; 32],
                1 => [0xff; 32],
                _ => g.array(),
            };
            children.insert(ChildSubintentSpecifier { hash: SubintentHash::from_hash(Hash(h)) });
        }
        st.children = children.len() as u32;
        st.stats.children = children.len();
    }
    let mut preallocated: Vec<PreAllocatedAddress> = Vec::new();
    if kind == Kind::SystemV1 {
        let n = g.weighted(&[3, 4, 2]);
        for _ in 0..n {
            preallocated.push(PreAllocatedAddress {
                blueprint_id: BlueprintId { package_address: vgen::gen_package_address(g), blueprint_name: vgen::gen_string(g, &mut st.stats.values) },
                address: vgen::gen_global_address(g),
            });
            st.reservations.push(true);
            st.stats.reservations += 1;
        }
        st.stats.preallocated = n;
    }

    // fault plan
    if opts.inject_fault && g.chance(1, 2) {
        let applicable: Vec<Fault> = Fault::ALL
            .iter()
            .copied()
            .filter(|f| match f {
                Fault::UndeclaredChild => kind.is_v2(),
                Fault::ParentInstructionInTransaction => kind == Kind::V2,
                Fault::NoFinalYield | Fault::InstructionAfterFinalYield => kind.is_subintent(),
                _ => true,
            })
            .collect();
        st.plan = Some(*g.pick(&applicable));
    }
    let steps = g.range_usize(0, opts.max_steps);
    let plant_at = if steps == 0 { 0 } else { g.index(steps + 1) };
    for i in 0..steps {
        if st.plan.is_some() && !st.planted && i >= plant_at {
            st.planted = st.try_plant(g);
        }
        st.step(g);
    }
    if st.plan.is_some() && !st.planted {
        st.planted = st.try_plant(g);
    }
    st.finish(g);

    let fault = if st.planted { st.plan } else { None };
    let fault_not_applicable = st.plan.is_some() && !st.planted;
    let object_names = gen_object_names(g, &mut st);

    let manifest: AnyManifest = match kind {
        Kind::V1 => TransactionManifestV1 { instructions: to_v1(&st.ins), blobs, object_names }.into(),
        Kind::SystemV1 => SystemTransactionManifestV1 { instructions: to_v1(&st.ins), blobs, preallocated_addresses: preallocated, object_names }.into(),
        Kind::V2 => TransactionManifestV2 { instructions: st.ins.clone(), blobs, children, object_names }.into(),
        Kind::SubintentV2 => SubintentManifestV2 { instructions: st.ins.clone(), blobs, children, object_names }.into(),
    };
    Generated { kind, manifest, fault, fault_not_applicable, stats: st.stats }
}

fn to_v1(ins: &[InstructionV2]) -> Vec<InstructionV1> {
    ins.iter().map(|i| InstructionV1::try_from(i.clone()).expect("generator emitted a V2-only instruction for a V1 manifest")).collect()
}
