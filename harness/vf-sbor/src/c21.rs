//! C21 SBOR decoding is total, bounded and depth-consistent.

use crate::alloc_hook;
use crate::c20::{corpus, pick_flavour};
use crate::conv::*;
use crate::valgen::*;
use crate::wire::*;
use vf_core::{catch, ensure, Check, Gen, Outcome, Part};

/// Bytes of one decoded `Value` (the largest of the three flavours), used in the allocation bound.
fn value_size() -> usize {
    std::mem::size_of::<sbor::BasicValue>()
        .max(std::mem::size_of::<radix_common::data::scrypto::ScryptoValue>())
        .max(std::mem::size_of::<radix_common::data::manifest::ManifestValue>())
}

/// Upper bound on the bytes one decode may hold at any time: linear in the input length (every
/// decoded node or string byte consumes at least one input byte; vectors grow by doubling and
/// reallocation briefly holds old and new block), plus the documented pre-allocation of at most
/// 1024 elements per open container (at most `limit` containers are open), plus slack. It does
/// not depend on any announced size.
pub fn alloc_bound(input_len: usize, limit: usize) -> usize {
    let v = value_size();
    64 * 1024 + 8 * v * input_len + limit * 1024 * 2 * v
}

fn depth_limit(g: &mut Gen, fl: Flavour) -> usize {
    match g.weighted(&[4, 3, 3]) {
        0 => fl.default_depth(),
        1 => 1 + g.index(8),
        _ => 1 + g.index(70),
    }
}

fn payload_near_limit(g: &mut Gen, fl: Flavour, limit: usize) -> (Vec<u8>, Vec<Site>) {
    // depth limit-1 ..= limit+2 (at least 1)
    let d = (limit + g.index(4)).saturating_sub(1).max(1);
    let node = {
        let mut vg = ValGen::new(g, fl, 12);
        vg.spine(d)
    };
    print_payload_sites(fl, &node)
}

/// A short input announcing sizes far beyond what follows, nested through every container kind
/// (so that a decoder descends and pre-allocates at every level).
fn announce_huge(g: &mut Gen, fl: Flavour) -> Vec<u8> {
    let mut b = vec![fl.prefix()];
    let levels = 1 + g.index(70);
    let huge: &[&[u8]] = &[&[0xff, 0xff, 0xff, 0x7f], &[0x80, 0x80, 0x80, 0x40], &[0xff, 0xff, 0x7f], &[0x81, 0x08], &[0x7f]];
    const CONTAINERS: &[u8] = &[K_TUPLE, K_ARRAY, K_MAP, K_ENUM];
    // kind of the next value when its container fixes it (array element / map key), else None
    let mut implicit: Option<u8> = None;
    for _ in 0..levels {
        let k = match implicit {
            Some(k) => k,
            None => {
                let k = *g.pick(CONTAINERS);
                b.push(k);
                k
            }
        };
        let child = if g.chance(1, 8) { *g.pick(&[K_U8, K_STRING, K_U64, K_BOOL]) } else { *g.pick(CONTAINERS) };
        match k {
            K_TUPLE => {
                { let sz: &&[u8] = g.pick(huge); b.extend_from_slice(sz); }
                implicit = None;
            }
            K_ENUM => {
                b.push(g.u8());
                { let sz: &&[u8] = g.pick(huge); b.extend_from_slice(sz); }
                implicit = None;
            }
            K_ARRAY => {
                b.push(child);
                { let sz: &&[u8] = g.pick(huge); b.extend_from_slice(sz); }
                implicit = Some(child);
            }
            K_MAP => {
                b.push(child);
                b.push(*g.pick(CONTAINERS));
                { let sz: &&[u8] = g.pick(huge); b.extend_from_slice(sz); }
                implicit = Some(child);
            }
            _ => break,
        }
    }
    let tail = g.blob(6);
    b.extend(tail);
    b
}

pub fn case(g: &mut Gen) -> Outcome {
    let fl_choice = pick_flavour(g);
    let limit = depth_limit(g, fl_choice);
    if limit == fl_choice.default_depth() {
        g.label("default depth limit");
    }
    let source = g.weighted(&[6, 3, 3, 2, 2, 2]);
    let (fl, payload): (Flavour, Vec<u8>) = match source {
        0 => {
            g.label("spine around the limit");
            (fl_choice, payload_near_limit(g, fl_choice, limit).0)
        }
        1 => {
            let (mut b, sites) = payload_near_limit(g, fl_choice, limit);
            let l = if g.bool() { mutate_site(g, fl_choice, &mut b, &sites) } else { mutate_bytes(g, &mut b) };
            g.label(l);
            (fl_choice, b)
        }
        2 => {
            g.label("huge sizes over short input");
            (fl_choice, announce_huge(g, fl_choice))
        }
        3 => {
            let node = {
                let mut vg = ValGen::new(g, fl_choice, 40);
                if vg.g.chance(1, 10) {
                    vg.big()
                } else {
                    let d = 1 + vg.g.index(8);
                    vg.value(d)
                }
            };
            let (mut b, sites) = print_payload_sites(fl_choice, &node);
            if g.chance(2, 3) {
                let l = if g.bool() { mutate_site(g, fl_choice, &mut b, &sites) } else { mutate_bytes(g, &mut b) };
                g.label(l);
            } else {
                g.label("printed tree");
            }
            (fl_choice, b)
        }
        4 => {
            let c = corpus();
            if c.is_empty() {
                return Outcome::Discard;
            }
            let (fl, b) = &c[g.index(c.len())];
            let mut b = b.clone();
            if g.chance(3, 4) {
                let l = mutate_bytes(g, &mut b);
                g.label(l);
            }
            g.label("corpus");
            (*fl, b)
        }
        _ => {
            let mut b = g.blob(64);
            if g.chance(3, 4) {
                b.insert(0, fl_choice.prefix());
            }
            g.label("raw bytes");
            (fl_choice, b)
        }
    };
    g.label(fl.name());
    g.sample(|| format!("{} limit {} payload ({} bytes): {}", fl.name(), limit, payload.len(), hexs(&payload[..payload.len().min(160)])));
    let show = |b: &[u8]| hexs(&b[..b.len().min(300)]);

    // 1. decode: total and bounded
    let (dec, peak) = {
        let b = payload.clone();
        let (r, peak) = alloc_hook::measure(|| catch(move || decode_any(fl, &b, limit)));
        match r {
            Ok(r) => (r, peak),
            Err(p) => return Outcome::fail(format!("{} decode panics", fl.name()), format!("limit {} payload {}: {}", limit, show(&payload), p)),
        }
    };
    let bound = alloc_bound(payload.len(), limit);
    match peak {
        Some(peak) => {
            g.count("decodes with measured allocation", 1);
            ensure!(
                peak <= bound,
                format!("{} decode over-allocates", fl.name()),
                "limit {} payload of {} bytes {}: peak {} bytes allocated, bound {}",
                limit,
                payload.len(),
                show(&payload),
                peak,
                bound
            );
        }
        None => g.label("allocation not measured (no counting allocator installed)"),
    }

    // 2. traverser: total, bounded, agrees
    let (trav, tpeak) = {
        let b = payload.clone();
        let (r, peak) = alloc_hook::measure(|| catch(move || traverse_any(fl, &b, limit)));
        match r {
            Ok(r) => (r, peak),
            Err(p) => return Outcome::fail(format!("{} traverser panics", fl.name()), format!("limit {} payload {}: {}", limit, show(&payload), p)),
        }
    };
    if let Some(tpeak) = tpeak {
        ensure!(
            tpeak <= bound,
            format!("{} traverser over-allocates", fl.name()),
            "limit {} payload of {} bytes {}: peak {} bytes allocated, bound {}",
            limit,
            payload.len(),
            show(&payload),
            tpeak,
            bound
        );
    }
    ensure!(
        dec.is_ok() == trav.result.is_ok(),
        format!("{} decoder and traverser disagree on acceptance", fl.name()),
        "limit {} payload {}: decode {:?} / traverser {:?}",
        limit,
        show(&payload),
        dec.as_ref().map(|_| "accepted"),
        trav.result
    );

    // 3. the wire reference: well-formed payload of depth d is accepted <=> d <= limit, and a
    //    rejection of a well-formed payload is a depth rejection by every party
    let reference = parse_payload(fl, &payload);
    let announced_beyond_input = matches!(reference, Err(WireError::Eof));
    match &reference {
        Err(e) => {
            g.label("malformed");
            if announced_beyond_input {
                g.nontrivial();
            }
            ensure!(
                dec.is_err(),
                format!("{} decode accepts a malformed payload", fl.name()),
                "limit {} payload {} is malformed ({:?}) but was accepted",
                limit,
                show(&payload),
                e
            );
            Outcome::Pass
        }
        Ok(p) => {
            let d = p.depth;
            if d + 1 >= limit && d <= limit + 1 {
                g.label("depth within +-1 of the limit");
                g.nontrivial();
            }
            if d <= limit {
                g.label("well-formed, within the limit");
                ensure!(
                    dec.is_ok(),
                    format!("{} decode rejects a well-formed payload within the depth limit", fl.name()),
                    "limit {} payload {} has depth {} but decode returned {:?} (traverser {:?})",
                    limit,
                    show(&payload),
                    d,
                    dec.as_ref().err(),
                    trav.result
                );
                ensure!(
                    trav.max_depth == d,
                    format!("{} traverser reports another nesting depth than the payload has", fl.name()),
                    "limit {} payload {} has depth {} but the traverser's deepest location is {}",
                    limit,
                    show(&payload),
                    d,
                    trav.max_depth
                );
            } else {
                g.label("well-formed, beyond the limit");
                ensure!(
                    dec.is_err(),
                    format!("{} decode accepts a payload deeper than the depth limit", fl.name()),
                    "limit {} payload {} has depth {} but was accepted",
                    limit,
                    show(&payload),
                    d
                );
                ensure!(
                    dec.as_ref().err().map(is_depth_decode_error).unwrap_or(false),
                    format!("{} decode rejects an over-deep well-formed payload with a non-depth error", fl.name()),
                    "limit {} payload {} (depth {}): {:?}",
                    limit,
                    show(&payload),
                    d,
                    dec.as_ref().err()
                );
                ensure!(
                    trav.result.as_ref().err().map(is_depth_decode_error).unwrap_or(false),
                    format!("{} traverser rejects an over-deep well-formed payload with a non-depth error", fl.name()),
                    "limit {} payload {} (depth {}): {:?}",
                    limit,
                    show(&payload),
                    d,
                    trav.result
                );
            }
            // 4. encoder with the same limit agrees (value obtained under a generous limit)
            let value = match &dec {
                Ok(v) => v.clone(),
                Err(_) => {
                    let b = payload.clone();
                    match catch(move || decode_any(fl, &b, HARD_DEPTH_CAP)) {
                        Ok(Ok(v)) => v,
                        Ok(Err(e)) => {
                            return Outcome::fail(
                                format!("{} decode rejects a well-formed payload under a generous depth limit", fl.name()),
                                format!("payload {} (depth {}) with limit {}: {:?}", show(&payload), d, HARD_DEPTH_CAP, e),
                            )
                        }
                        Err(p) => return Outcome::fail(format!("{} decode panics", fl.name()), format!("payload {}: {}", show(&payload), p)),
                    }
                }
            };
            let enc = {
                let v = value.clone();
                match catch(move || encode_any(&v, limit)) {
                    Ok(r) => r,
                    Err(p) => return Outcome::fail(format!("{} encode panics", fl.name()), format!("limit {} value of payload {}: {}", limit, show(&payload), p)),
                }
            };
            match enc {
                Ok(b) => {
                    ensure!(
                        d <= limit,
                        format!("{} encode accepts a value deeper than the depth limit", fl.name()),
                        "limit {}: value of depth {} (payload {}) was encoded",
                        limit,
                        d,
                        show(&payload)
                    );
                    ensure!(
                        b == payload,
                        format!("{} encode of a decoded value differs from the payload", fl.name()),
                        "payload {} re-encoded as {}",
                        show(&payload),
                        show(&b)
                    );
                }
                Err(e) => {
                    ensure!(
                        d > limit,
                        format!("{} encode refuses a value within the depth limit", fl.name()),
                        "limit {}: value of depth {} (payload {}) refused: {:?}",
                        limit,
                        d,
                        show(&payload),
                        e
                    );
                    ensure!(
                        is_depth_encode_error(&e),
                        format!("{} encode refuses an over-deep value with a non-depth error", fl.name()),
                        "limit {}: value of depth {} (payload {}) refused: {:?}",
                        limit,
                        d,
                        show(&payload),
                        e
                    );
                }
            }
            Outcome::Pass
        }
    }
}

pub fn check() -> Check {
    Check::new(
        "C21",
        "SBOR decoding is total, bounded and depth-consistent",
        "Inputs: payloads built as a spine of containers of every kind (array elements, tuple/enum fields, map keys and values, byte arrays, empty containers) whose depth is limit-1..limit+2, the same with one site/byte mutation, short inputs announcing up to 2^28-1 elements at every nesting level, mutated random trees, mutated corpus payloads and raw bytes; depth limit 1..=70 (40% the flavour default). Oracle: value decoder and untyped traverser never panic, each allocates at most 64 KiB + 8*sizeof(Value)*len + limit*1024*2*sizeof(Value) bytes (counting allocator, per thread), they agree on accept/reject; for payloads the independent wire recogniser finds well-formed with depth d: accepted <=> d <= limit by decoder, traverser and encoder, every rejection is MaxDepthExceeded, the traverser's deepest location equals d and re-encoding gives the payload; malformed payloads are rejected. Non-trivial = well-formed payload with depth within +-1 of the limit, or input truncated below an announced size.",
    )
    .assume("is-depth is compared only on payloads whose sole possible fault is depth (a truncated and over-deep payload may be reported either way: the decoder reads a child's kind byte before the depth check, the traverser after)")
    .assume("depth limit 0 is not exercised (the traverser cannot reject a terminal root)")
    .part(Part::new("decode", 400_000, 24_000_000, 768, case))
    .min_nontrivial_pct(20.0)
}
