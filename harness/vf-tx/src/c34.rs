//! C34 Transaction validation enforces exactly the configured limits.
//!
//! A transaction is described by a *shape* (explicit numbers for every limited dimension); the
//! shape is first drawn inside the generated configuration's limits and then 0-2 dimensions are
//! moved to limit-1 / limit / limit+1. The oracle is a direct transcription of the property
//! statement over the shape (`violations`): validation accepts iff no condition is violated, a
//! single violated condition is reported with an error of that condition's family, and the
//! returned overall validity range is the harness's own intersection.

use crate::refhash;
use crate::txgen::{component, keys, TreePlan, BIG_POOL, NETWORK};
use radix_common::prelude::*;
use radix_transactions::errors::*;
use radix_transactions::manifest::*;
use radix_transactions::prelude::*;
use radix_transactions::validation::*;
use vf_core::{catch, ensure, Check, Gen, Outcome, Part};

// ---- shapes ---------------------------------------------------------------------------------

#[derive(Clone, Debug, PartialEq)]
enum Msg {
    None,
    /// `mime` / `body` are lengths in *bytes* (what the configuration limits); `wide` builds the
    /// strings from 1-4-byte UTF-8 characters so that the character count is smaller than the byte length
    Plain { mime: usize, body: usize, bytes: bool, wide: bool },
    Enc { payload: usize, ed: Option<usize>, secp: Option<usize>, mismatch: bool },
}

#[derive(Clone, Debug)]
struct IShape {
    network_id: u8,
    start: u64,
    end: u64,
    min_ts: Option<i64>,
    max_ts: Option<i64>,
    /// instructions beyond the mandatory yields
    extra_instructions: usize,
    n_refs: usize,
    n_blobs: usize,
    msg: Msg,
    n_sigs: usize,
}

#[derive(Clone, Copy, Debug, PartialEq, Eq, PartialOrd, Ord)]
enum Dim {
    V2Allowed,
    Network,
    EpochRange,
    TimestampRange,
    Tip,
    Mime,
    Plaintext,
    Encrypted,
    Decryptors,
    MessageShape,
    Instructions,
    RefsPerIntent,
    RefsTotal,
    Blobs,
    SigsPerIntent,
    SigsTotal,
    Depth,
    OverallEpoch,
    OverallTimestamp,
}

impl Dim {
    fn group(&self) -> &'static str {
        match self {
            Dim::V2Allowed => "v2 not allowed",
            Dim::Network => "network",
            Dim::EpochRange => "epoch range",
            Dim::TimestampRange => "timestamp range",
            Dim::Tip => "tip",
            Dim::Mime | Dim::Plaintext | Dim::Encrypted | Dim::Decryptors | Dim::MessageShape => "message",
            Dim::Instructions => "instruction count",
            Dim::RefsPerIntent | Dim::RefsTotal => "references",
            Dim::Blobs => "blobs",
            Dim::SigsPerIntent | Dim::SigsTotal => "signature count",
            Dim::Depth => "subintent depth",
            Dim::OverallEpoch => "overall epoch range",
            Dim::OverallTimestamp => "overall timestamp range",
        }
    }
    fn label(&self) -> &'static str {
        match self {
            Dim::V2Allowed => "violates: v2 allowed",
            Dim::Network => "violates: network",
            Dim::EpochRange => "violates: epoch range",
            Dim::TimestampRange => "violates: timestamp range",
            Dim::Tip => "violates: tip",
            Dim::Mime => "violates: mime length",
            Dim::Plaintext => "violates: plaintext length",
            Dim::Encrypted => "violates: encrypted length",
            Dim::Decryptors => "violates: decryptor count",
            Dim::MessageShape => "violates: message shape",
            Dim::Instructions => "violates: instruction count",
            Dim::RefsPerIntent => "violates: references per intent",
            Dim::RefsTotal => "violates: total references",
            Dim::Blobs => "violates: blob count",
            Dim::SigsPerIntent => "violates: signatures per intent",
            Dim::SigsTotal => "violates: total signature validations",
            Dim::Depth => "violates: subintent depth",
            Dim::OverallEpoch => "violates: overall epoch range",
            Dim::OverallTimestamp => "violates: overall timestamp range",
        }
    }
}

fn classify(e: &TransactionValidationError) -> &'static str {
    use TransactionValidationError as E;
    match e {
        E::TransactionVersionNotPermitted(_) => "v2 not allowed",
        E::PrepareError(PrepareError::TransactionTypeNotSupported) => "v2 not allowed",
        E::PrepareError(PrepareError::TooManyValues { value_type: ValueType::Blob, .. }) => "blobs",
        E::PrepareError(_) => "prepare error",
        E::TransactionTooLarge => "too large",
        E::EncodeError(_) => "encode error",
        E::SubintentStructureError(_, SubintentStructureError::SubintentExceedsMaxDepth) => "subintent depth",
        E::SubintentStructureError(_, _) => "structure",
        E::IntentValidationError(_, i) => match i {
            IntentValidationError::HeaderValidationError(h) => match h {
                HeaderValidationError::InvalidEpochRange => "epoch range",
                HeaderValidationError::InvalidTimestampRange => "timestamp range",
                HeaderValidationError::InvalidNetwork => "network",
                HeaderValidationError::InvalidTip => "tip",
                HeaderValidationError::NoValidEpochRangeAcrossAllIntents => "overall epoch range",
                HeaderValidationError::NoValidTimestampRangeAcrossAllIntents => "overall timestamp range",
            },
            IntentValidationError::InvalidMessage(_) => "message",
            IntentValidationError::TooManyReferences { .. } => "references",
            IntentValidationError::ManifestValidationError(ManifestValidationError::TooManyInstructions) => "instruction count",
            IntentValidationError::ManifestValidationError(_) => "manifest",
            IntentValidationError::ManifestBasicValidatorError(_) => "manifest",
        },
        E::SignatureValidationError(_, SignatureValidationError::TooManySignatures { .. }) => "signature count",
        E::SignatureValidationError(_, _) => "signature",
    }
}

// ---- configuration --------------------------------------------------------------------------

fn gen_config(g: &mut Gen) -> TransactionValidationConfig {
    match g.weighted(&[6, 1, 2]) {
        1 => TransactionValidationConfig::babylon(),
        2 => TransactionValidationConfig::cuttlefish(),
        _ => {
            let min_tip = g.below(3) as u16;
            let min_bp = g.below(3) as u32;
            TransactionValidationConfig {
                max_signer_signatures_per_intent: g.below(5) as usize,
                max_references_per_intent: g.below(7) as usize,
                min_tip_percentage: min_tip,
                max_tip_percentage: min_tip + g.below(4) as u16,
                max_epoch_range: 1 + g.below(20),
                max_instructions: 1 + g.below(8) as usize,
                message_validation: MessageValidationConfig {
                    max_plaintext_message_length: g.below(20) as usize,
                    max_encrypted_message_length: g.below(30) as usize,
                    max_mime_type_length: g.below(12) as usize,
                    max_decryptors: g.below(6) as usize,
                },
                v1_transactions_allow_notary_to_duplicate_signer: true,
                preparation_settings: PreparationSettings { max_blobs: g.below(5) as usize, ..PreparationSettings::cuttlefish() },
                manifest_validation: if g.bool() { ManifestValidationRuleset::BabylonBasicValidator } else { ManifestValidationRuleset::Interpreter(InterpreterValidationRulesetSpecifier::Cuttlefish) },
                v2_transactions_allowed: !g.chance(1, 12),
                min_tip_basis_points: min_bp,
                max_tip_basis_points: min_bp + g.below(4) as u32,
                max_subintent_depth: g.below(5) as usize,
                max_total_signature_validations: 1 + g.below(8) as usize,
                max_total_references: g.below(10) as usize,
            }
        }
    }
}

/// One of limit-1 / limit / limit+1 (clamped at 0), or a value inside when the limit is huge.
fn around(g: &mut Gen, limit: usize, cap: usize) -> usize {
    if limit > cap {
        return g.below(cap as u64 + 1) as usize;
    }
    match g.below(3) {
        0 => limit.saturating_sub(1),
        1 => limit,
        _ => limit + 1,
    }
}

fn inside(g: &mut Gen, limit: usize, small: usize) -> usize {
    g.below(limit.min(small) as u64 + 1) as usize
}

// ---- building -------------------------------------------------------------------------------

/// A string of exactly `n` bytes; `wide` mixes 4-, 3-, 2- and 1-byte characters (so it has fewer
/// characters than bytes whenever n >= 2).
fn text(n: usize, wide: bool) -> String {
    if !wide {
        return "a".repeat(n);
    }
    const CHARS: [char; 4] = ['\u{1F600}', '\u{20AC}', '\u{e9}', 'a'];
    let mut s = String::with_capacity(n);
    let mut i = 0;
    while s.len() < n {
        let left = n - s.len();
        let mut c = CHARS[i % 4];
        i += 1;
        while c.len_utf8() > left {
            c = match c.len_utf8() {
                4 => CHARS[1],
                3 => CHARS[2],
                _ => CHARS[3],
            };
        }
        s.push(c);
    }
    debug_assert_eq!(s.len(), n);
    s
}

fn fingerprints(n: usize, salt: u8) -> Vec<PublicKeyFingerprint> {
    (0..n).map(|i| PublicKeyFingerprint([salt, 0, 0, 0, 0, 0, (i >> 8) as u8, i as u8])).collect()
}

fn msg_v1(m: &Msg) -> MessageV1 {
    match m {
        Msg::None => MessageV1::None,
        Msg::Plain { mime, body, bytes, wide } => MessageV1::Plaintext(PlaintextMessageV1 {
            mime_type: text(*mime, *wide),
            message: if *bytes { MessageContentsV1::Bytes(vec![7; *body]) } else { MessageContentsV1::String(text(*body, *wide)) },
        }),
        Msg::Enc { payload, ed, secp, mismatch } => {
            let mut map: IndexMap<CurveType, DecryptorsByCurve> = IndexMap::default();
            if let Some(n) = ed {
                let decryptors = fingerprints(*n, 1).into_iter().map(|f| (f, AesWrapped128BitKey([3; 24]))).collect();
                let value = DecryptorsByCurve::Ed25519 { dh_ephemeral_public_key: keys().ed[0].1, decryptors };
                map.insert(if *mismatch { CurveType::Secp256k1 } else { CurveType::Ed25519 }, value);
            }
            if let Some(n) = secp {
                let decryptors = fingerprints(*n, 2).into_iter().map(|f| (f, AesWrapped128BitKey([3; 24]))).collect();
                let value = DecryptorsByCurve::Secp256k1 { dh_ephemeral_public_key: keys().secp[0].1, decryptors };
                map.insert(if *mismatch { CurveType::Ed25519 } else { CurveType::Secp256k1 }, value);
            }
            MessageV1::Encrypted(EncryptedMessageV1 { encrypted: AesGcmPayload(vec![9; *payload]), decryptors_by_curve: map })
        }
    }
}

fn msg_v2(m: &Msg) -> MessageV2 {
    match m {
        Msg::None => MessageV2::None,
        Msg::Plain { mime, body, bytes, wide } => MessageV2::Plaintext(PlaintextMessageV1 {
            mime_type: text(*mime, *wide),
            message: if *bytes { MessageContentsV1::Bytes(vec![7; *body]) } else { MessageContentsV1::String(text(*body, *wide)) },
        }),
        Msg::Enc { payload, ed, secp, mismatch } => {
            let mut map: IndexMap<CurveType, DecryptorsByCurveV2> = IndexMap::default();
            if let Some(n) = ed {
                let decryptors = fingerprints(*n, 1).into_iter().map(|f| (f, AesWrapped256BitKey([3; 40]))).collect();
                let value = DecryptorsByCurveV2::Ed25519 { dh_ephemeral_public_key: keys().ed[0].1, decryptors };
                map.insert(if *mismatch { CurveType::Secp256k1 } else { CurveType::Ed25519 }, value);
            }
            if let Some(n) = secp {
                let decryptors = fingerprints(*n, 2).into_iter().map(|f| (f, AesWrapped256BitKey([3; 40]))).collect();
                let value = DecryptorsByCurveV2::Secp256k1 { dh_ephemeral_public_key: keys().secp[0].1, decryptors };
                map.insert(if *mismatch { CurveType::Ed25519 } else { CurveType::Secp256k1 }, value);
            }
            MessageV2::Encrypted(EncryptedMessageV2 { encrypted: AesGcmPayload(vec![9; *payload]), decryptors_by_curve: map })
        }
    }
}

/// `extra` filler / call instructions carrying exactly `n_refs` distinct static addresses.
/// Returns the number of instructions produced (≥ 1 when n_refs > 0).
fn body_calls(extra: usize, n_refs: usize) -> Vec<CallMethod> {
    let mut calls = Vec::new();
    if n_refs > 0 {
        let others: Vec<ComponentAddress> = (1..n_refs).map(component).collect();
        calls.push(CallMethod { address: ManifestGlobalAddress::Static(component(0).into()), method_name: "m".into(), args: to_manifest_value(&(others,)).unwrap() });
    }
    let _ = extra;
    calls
}

fn instructions_v1(s: &IShape) -> Vec<InstructionV1> {
    let mut v: Vec<InstructionV1> = body_calls(s.extra_instructions, s.n_refs).into_iter().map(InstructionV1::CallMethod).collect();
    while v.len() < s.extra_instructions {
        v.push(InstructionV1::DropAuthZoneProofs(DropAuthZoneProofs));
    }
    v
}

fn instructions_v2(s: &IShape, child_yields: usize, parent_yields: usize) -> Vec<InstructionV2> {
    let mut v: Vec<InstructionV2> = body_calls(s.extra_instructions, s.n_refs).into_iter().map(InstructionV2::CallMethod).collect();
    while v.len() < s.extra_instructions {
        v.push(InstructionV2::DropAuthZoneProofs(DropAuthZoneProofs));
    }
    for i in 0..child_yields {
        v.push(InstructionV2::YieldToChild(YieldToChild::empty(i as u32)));
    }
    for _ in 0..parent_yields {
        v.push(InstructionV2::YieldToParent(YieldToParent::empty()));
    }
    v
}

fn blobs(n: usize, salt: u8) -> BlobsV1 {
    BlobsV1 { blobs: (0..n).map(|i| BlobV1(vec![salt, (i >> 8) as u8, i as u8])).collect() }
}

/// The j-th signing key of the big pool (alternating curves).
fn sign_with(j: usize, h: &Hash) -> SignatureWithPublicKeyV1 {
    let i = (j / 2) % BIG_POOL;
    if j % 2 == 0 {
        SignatureWithPublicKeyV1::Secp256k1 { signature: keys().secp[i].0.sign(h) }
    } else {
        let (k, p) = &keys().ed[i];
        SignatureWithPublicKeyV1::Ed25519 { public_key: *p, signature: k.sign(h) }
    }
}

/// Key index reserved for the notary (never used as an intent signer here).
const NOTARY_SLOT: usize = 2 * BIG_POOL - 1;
const MAX_SIGS: usize = 2 * BIG_POOL - 2;

fn notary_key() -> PublicKey {
    PublicKey::Ed25519(keys().ed[BIG_POOL - 1].1)
}

fn notary_sign(h: &Hash) -> SignatureV1 {
    SignatureV1::Ed25519(keys().ed[BIG_POOL - 1].0.sign(h))
}

fn signatures(n: usize, h: &Hash) -> Vec<IntentSignatureV1> {
    let _ = NOTARY_SLOT;
    (0..n.min(MAX_SIGS)).map(|j| IntentSignatureV1(sign_with(j, h))).collect()
}

// ---- oracle ---------------------------------------------------------------------------------

fn msg_violations(cfg: &MessageValidationConfig, m: &Msg, out: &mut Vec<Dim>) {
    match m {
        Msg::None => {}
        Msg::Plain { mime, body, .. } => {
            if *mime > cfg.max_mime_type_length {
                out.push(Dim::Mime);
            }
            if *body > cfg.max_plaintext_message_length {
                out.push(Dim::Plaintext);
            }
        }
        Msg::Enc { payload, ed, secp, mismatch } => {
            if *payload > cfg.max_encrypted_message_length {
                out.push(Dim::Encrypted);
            }
            if (ed.is_none() && secp.is_none()) || *mismatch || *ed == Some(0) || *secp == Some(0) {
                out.push(Dim::MessageShape);
            }
            if ed.unwrap_or(0) + secp.unwrap_or(0) > cfg.max_decryptors {
                out.push(Dim::Decryptors);
            }
        }
    }
}

struct Measured {
    n_instructions: usize,
}

fn intent_violations(cfg: &TransactionValidationConfig, required_network: Option<u8>, s: &IShape, m: &Measured, v2: bool, out: &mut Vec<Dim>) {
    if let Some(n) = required_network {
        if s.network_id != n {
            out.push(Dim::Network);
        }
    }
    // non-empty window, no longer than the maximum
    if s.end <= s.start || s.end - s.start > cfg.max_epoch_range {
        out.push(Dim::EpochRange);
    }
    if v2 {
        if let (Some(a), Some(b)) = (s.min_ts, s.max_ts) {
            if a >= b {
                out.push(Dim::TimestampRange);
            }
        }
    }
    msg_violations(&cfg.message_validation, &s.msg, out);
    if m.n_instructions > cfg.max_instructions {
        out.push(Dim::Instructions);
    }
    if s.n_refs > cfg.max_references_per_intent {
        out.push(Dim::RefsPerIntent);
    }
    if s.n_blobs > cfg.preparation_settings.max_blobs {
        out.push(Dim::Blobs);
    }
    if s.n_sigs > cfg.max_signer_signatures_per_intent {
        out.push(Dim::SigsPerIntent);
    }
}

// ---- shape generation -----------------------------------------------------------------------

fn inside_msg(g: &mut Gen, c: &MessageValidationConfig) -> Msg {
    match g.weighted(&[3, 2, 2]) {
        0 => Msg::None,
        1 => Msg::Plain { mime: inside(g, c.max_mime_type_length, 6), body: inside(g, c.max_plaintext_message_length, 8), bytes: g.bool(), wide: g.bool() },
        _ => {
            if c.max_decryptors == 0 {
                return Msg::None;
            }
            let total = 1 + inside(g, c.max_decryptors - 1, 2);
            let (ed, secp) = match g.below(3) {
                0 => (Some(total), None),
                1 => (None, Some(total)),
                _ if total >= 2 => (Some(total / 2), Some(total - total / 2)),
                _ => (Some(total), None),
            };
            Msg::Enc { payload: inside(g, c.max_encrypted_message_length, 8), ed, secp, mismatch: false }
        }
    }
}

fn inside_shape(g: &mut Gen, cfg: &TransactionValidationConfig, common_epoch: u64, common_ts: i64, v2: bool) -> IShape {
    let max_range = cfg.max_epoch_range.max(1);
    let before = g.below(max_range.min(4)).min(common_epoch);
    let after = g.below((max_range - before).min(4).max(1));
    let (min_ts, max_ts) = if v2 {
        (if g.chance(1, 3) { Some(common_ts - g.below(20) as i64) } else { None }, if g.chance(1, 3) { Some(common_ts + 1 + g.below(20) as i64) } else { None })
    } else {
        (None, None)
    };
    IShape {
        network_id: NETWORK,
        start: common_epoch - before,
        end: common_epoch + 1 + after,
        min_ts,
        max_ts,
        extra_instructions: g.below(3) as usize,
        n_refs: inside(g, cfg.max_references_per_intent, 2),
        n_blobs: inside(g, cfg.preparation_settings.max_blobs, 2),
        msg: inside_msg(g, &cfg.message_validation),
        n_sigs: inside(g, cfg.max_signer_signatures_per_intent, 2),
    }
}

/// Mandatory instruction counts given the tree: yields to children (+ yield to parent).
fn mandatory(plan: &TreePlan, intent: usize) -> (usize, usize) {
    // intent 0 = root; k > 0 = subintent k-1
    let me = if intent == 0 { None } else { Some(intent - 1) };
    (plan.children_of(me).len(), if intent == 0 { 0 } else { 1 })
}

fn n_instructions(s: &IShape, child_yields: usize, parent_yields: usize) -> usize {
    s.extra_instructions.max(if s.n_refs > 0 { 1 } else { 0 }) + child_yields + parent_yields
}

/// Squeezes the drawn shapes so that the aggregate limits hold too (totals, instruction counts).
fn fit(cfg: &TransactionValidationConfig, shapes: &mut [IShape], plan: &TreePlan) {
    // instruction counts
    for (i, s) in shapes.iter_mut().enumerate() {
        let (cy, py) = mandatory(plan, i);
        while s.extra_instructions > 0 && n_instructions(s, cy, py) > cfg.max_instructions {
            s.extra_instructions -= 1;
        }
        if n_instructions(s, cy, py) > cfg.max_instructions && s.n_refs > 0 {
            s.n_refs = 0;
        }
    }
    // total references
    loop {
        let total: usize = shapes.iter().map(|s| s.n_refs).sum();
        if total <= cfg.max_total_references {
            break;
        }
        if let Some(s) = shapes.iter_mut().rev().find(|s| s.n_refs > 0) {
            s.n_refs -= 1;
        }
    }
    // total signature validations (notary counts as one)
    loop {
        let total: usize = shapes.iter().map(|s| s.n_sigs).sum::<usize>() + 1;
        if total <= cfg.max_total_signature_validations {
            break;
        }
        match shapes.iter_mut().rev().find(|s| s.n_sigs > 0) {
            Some(s) => s.n_sigs -= 1,
            None => break,
        }
    }
}

#[derive(Clone, Debug)]
struct TxShape {
    v2: bool,
    tip: u32,
    plan: TreePlan,
    /// [0] = root intent, [1..] = subintents in plan order
    intents: Vec<IShape>,
}

fn gen_plan(g: &mut Gen, max_depth: usize, max_sub: usize) -> TreePlan {
    let mut plan = TreePlan { parent: vec![], yields: vec![] };
    if max_depth == 0 {
        return plan;
    }
    let n = g.below(max_sub as u64 + 1) as usize;
    for i in 0..n {
        let mut cands: Vec<Option<usize>> = vec![None];
        for j in 0..i {
            if plan.depth(j) < max_depth {
                cands.push(Some(j));
            }
        }
        let p = if g.bool() { *cands.last().unwrap() } else { *g.pick(&cands) };
        plan.parent.push(p);
        plan.yields.push(1);
    }
    plan
}

fn probe(g: &mut Gen, cfg: &TransactionValidationConfig, t: &mut TxShape) -> &'static str {
    let n_int = t.intents.len();
    let k = g.index(n_int);
    let mv = &cfg.message_validation;
    let choice = if t.v2 { g.weighted(&[1, 3, 2, 2, 2, 2, 2, 1, 3, 3, 2, 2, 3, 2, 2, 3, 2, 3]) } else { g.weighted(&[1, 3, 2, 2, 2, 2, 2, 1, 3, 3, 2, 2, 3, 2]) };
    match choice {
        0 => {
            t.intents[k].network_id = if g.bool() { NETWORK ^ 1 } else { g.u8() };
            "probe: network id"
        }
        1 => {
            let s = &mut t.intents[k];
            let max = cfg.max_epoch_range;
            match g.below(6) {
                0 => s.end = s.start,
                1 => s.end = s.start.saturating_sub(1),
                2 => s.end = s.start + max.saturating_sub(1).max(1),
                3 => s.end = s.start + max,
                4 => s.end = s.start.saturating_add(max).saturating_add(1),
                _ => s.end = s.start + 1,
            }
            "probe: epoch window"
        }
        2 => {
            let (min, max) = if t.v2 { (cfg.min_tip_basis_points as u64, cfg.max_tip_basis_points as u64) } else { (cfg.min_tip_percentage as u64, cfg.max_tip_percentage as u64) };
            let cap = if t.v2 { u32::MAX as u64 } else { u16::MAX as u64 };
            t.tip = match g.below(4) {
                0 => min.saturating_sub(1),
                1 => min,
                2 => max,
                _ => (max + 1).min(cap),
            } as u32;
            "probe: tip"
        }
        3 => {
            t.intents[k].msg = Msg::Plain { mime: around(g, mv.max_mime_type_length, 300), body: inside(g, mv.max_plaintext_message_length, 4), bytes: g.bool(), wide: !g.chance(1, 3) };
            "probe: mime type length"
        }
        4 => {
            t.intents[k].msg = Msg::Plain { mime: inside(g, mv.max_mime_type_length, 4), body: around(g, mv.max_plaintext_message_length, 5000), bytes: g.chance(1, 3), wide: !g.chance(1, 3) };
            "probe: plaintext length"
        }
        5 => {
            let ed = if mv.max_decryptors > 0 { Some(1) } else { None };
            t.intents[k].msg = Msg::Enc { payload: around(g, mv.max_encrypted_message_length, 5000), ed, secp: None, mismatch: false };
            "probe: encrypted length"
        }
        6 => {
            let total = around(g, mv.max_decryptors, 64);
            let (ed, secp) = match g.below(3) {
                0 => (Some(total), None),
                1 => (None, Some(total)),
                _ => (Some(total / 2), Some(total - total / 2)),
            };
            t.intents[k].msg = Msg::Enc { payload: inside(g, mv.max_encrypted_message_length, 4), ed, secp, mismatch: false };
            "probe: decryptor count"
        }
        7 => {
            let payload = inside(g, mv.max_encrypted_message_length, 4);
            t.intents[k].msg = match g.below(3) {
                0 => Msg::Enc { payload, ed: None, secp: None, mismatch: false },
                1 => Msg::Enc { payload, ed: Some(0), secp: if mv.max_decryptors > 0 { Some(1) } else { None }, mismatch: false },
                _ => Msg::Enc { payload, ed: Some(1), secp: None, mismatch: true },
            };
            "probe: message shape"
        }
        8 => {
            let (cy, py) = mandatory(&t.plan, k);
            let target = around(g, cfg.max_instructions, 1100);
            let s = &mut t.intents[k];
            s.extra_instructions = target.saturating_sub(cy + py);
            if s.extra_instructions == 0 {
                s.n_refs = 0;
            }
            "probe: instruction count"
        }
        9 => {
            let s = &mut t.intents[k];
            s.n_refs = around(g, cfg.max_references_per_intent, 600);
            "probe: references per intent"
        }
        10 => {
            // total references: spread over the intents
            let target = around(g, cfg.max_total_references, 600);
            let each = target / n_int;
            for s in t.intents.iter_mut() {
                s.n_refs = each;
            }
            t.intents[k].n_refs += target - each * n_int;
            "probe: total references"
        }
        11 => {
            t.intents[k].n_blobs = around(g, cfg.preparation_settings.max_blobs, 70);
            "probe: blob count"
        }
        12 => {
            t.intents[k].n_sigs = around(g, cfg.max_signer_signatures_per_intent, MAX_SIGS).min(MAX_SIGS);
            "probe: signatures per intent"
        }
        13 => {
            // total validations = sum + 1 (notary)
            let target = around(g, cfg.max_total_signature_validations, 70).saturating_sub(1);
            let cap = cfg.max_signer_signatures_per_intent.min(MAX_SIGS);
            let mut left = target;
            for s in t.intents.iter_mut() {
                let take = left.min(cap);
                s.n_sigs = take;
                left -= take;
            }
            if left > 0 {
                // cannot reach the target within the per-intent cap: exceed the per-intent cap on one intent
                t.intents[k].n_sigs = (t.intents[k].n_sigs + left).min(MAX_SIGS);
            }
            "probe: total signature validations"
        }
        14 => {
            let s = &mut t.intents[k];
            let base = 1_700_000_000i64;
            match g.below(4) {
                0 => {
                    s.min_ts = Some(base);
                    s.max_ts = Some(base);
                }
                1 => {
                    s.min_ts = Some(base + 1);
                    s.max_ts = Some(base);
                }
                2 => {
                    s.min_ts = Some(base);
                    s.max_ts = Some(base + 1);
                }
                _ => {
                    s.min_ts = Some(i64::MIN);
                    s.max_ts = Some(i64::MAX);
                }
            }
            "probe: timestamp window"
        }
        15 => {
            // overall epoch intersection: make intent k's window end where another starts (or overlap by one)
            if n_int < 2 {
                return "probe: none";
            }
            let other = (k + 1) % n_int;
            let o_start = t.intents[other].start;
            let o_end = t.intents[other].end;
            let len = 1 + g.below(cfg.max_epoch_range.min(3).max(1));
            let s = &mut t.intents[k];
            match g.below(3) {
                0 => {
                    // touching: [.., o_start) and [o_start, ..) -> empty
                    s.end = o_start.max(1);
                    s.start = s.end.saturating_sub(len);
                }
                1 => {
                    // overlap by exactly one epoch
                    s.end = o_start + 1;
                    s.start = s.end.saturating_sub(len);
                }
                _ => {
                    // disjoint
                    s.start = o_end + g.below(3);
                    s.end = s.start + len;
                }
            }
            "probe: overall epoch range"
        }
        16 => {
            if n_int < 2 {
                return "probe: none";
            }
            let other = (k + 1) % n_int;
            let base = 1_700_000_500i64;
            let d = g.below(3) as i64 - 1;
            t.intents[other].min_ts = Some(base);
            t.intents[other].max_ts = None;
            t.intents[k].min_ts = None;
            t.intents[k].max_ts = Some(base + d + 1); // d = -1: max == min (empty), 0: one second, 1: two
            "probe: overall timestamp range"
        }
        _ => {
            // depth: a chain of max_depth-1 / max_depth / max_depth+1 subintents
            let depth = around(g, cfg.max_subintent_depth, 6).min(6);
            let template = t.intents[n_int - 1].clone();
            let root = t.intents[0].clone();
            t.plan = TreePlan { parent: (0..depth).map(|i| if i == 0 { None } else { Some(i - 1) }).collect(), yields: vec![1; depth] };
            t.intents = vec![root];
            for _ in 0..depth {
                t.intents.push(template.clone());
            }
            for s in t.intents.iter_mut() {
                s.n_sigs = s.n_sigs.min(1);
                s.n_refs = 0;
                s.extra_instructions = 0;
            }
            fit(cfg, &mut t.intents, &t.plan);
            "probe: subintent depth"
        }
    }
}

// ---- the case -------------------------------------------------------------------------------

fn render(t: &TxShape, cfg: &TransactionValidationConfig, net: Option<u8>) -> String {
    format!(
        "{} tip {} parents {:?} required network {:?}\nintents {:?}\nconfig {:?}",
        if t.v2 { "V2" } else { "V1" },
        t.tip,
        t.plan.parent,
        net,
        t.intents,
        cfg
    )
}

fn case(g: &mut Gen) -> Outcome {
    let cfg = gen_config(g);
    let v2 = g.chance(3, 5);
    let net = if g.chance(1, 8) { None } else { Some(NETWORK) };
    let validator = match net {
        Some(n) => TransactionValidator::new_with_static_config(cfg, n),
        None => TransactionValidator::new_with_static_config_network_agnostic(cfg),
    };
    let common_epoch = 50 + g.below(1000);
    let common_ts = 1_700_000_000i64 + g.below(1000) as i64;
    let plan = if v2 { gen_plan(g, cfg.max_subintent_depth, 3) } else { TreePlan { parent: vec![], yields: vec![] } };
    let mut intents: Vec<IShape> = (0..=plan.len()).map(|_| inside_shape(g, &cfg, common_epoch, common_ts, v2)).collect();
    fit(&cfg, &mut intents, &plan);
    let tip = if v2 { cfg.min_tip_basis_points + g.below((cfg.max_tip_basis_points - cfg.min_tip_basis_points) as u64 + 1).min(3) as u32 } else { cfg.min_tip_percentage as u32 + g.below((cfg.max_tip_percentage - cfg.min_tip_percentage) as u64 + 1).min(3) as u32 };
    let mut t = TxShape { v2, tip, plan, intents };
    let n_probes = g.weighted(&[1, 7, 2]);
    for _ in 0..n_probes {
        let p = probe(g, &cfg, &mut t);
        g.label(p);
    }
    g.label(if v2 { "v2" } else { "v1" });
    for sh in &t.intents {
        if let Msg::Plain { mime, body, bytes, wide: true } = &sh.msg {
            if *mime >= 2 {
                g.label("mime type with multi-byte characters (chars < bytes)");
            }
            if *body >= 2 && !*bytes {
                g.label("plaintext string with multi-byte characters (chars < bytes)");
            }
        }
    }
    if t.intents.iter().map(|s| s.n_refs).max().unwrap_or(0) > 64 || t.intents.iter().any(|s| s.extra_instructions > 200) {
        g.label("large (preset configuration boundary)");
    }

    // ---- expected ----
    let mut viol: Vec<Dim> = Vec::new();
    if v2 && (!cfg.v2_transactions_allowed || !cfg.preparation_settings.v2_transactions_permitted) {
        viol.push(Dim::V2Allowed);
    }
    let (tmin, tmax) = if v2 { (cfg.min_tip_basis_points, cfg.max_tip_basis_points) } else { (cfg.min_tip_percentage as u32, cfg.max_tip_percentage as u32) };
    if t.tip < tmin || t.tip > tmax {
        viol.push(Dim::Tip);
    }
    for (i, s) in t.intents.iter().enumerate() {
        let (cy, py) = mandatory(&t.plan, i);
        let m = Measured { n_instructions: n_instructions(s, cy, py) };
        intent_violations(&cfg, net, s, &m, v2, &mut viol);
    }
    let total_refs: usize = t.intents.iter().map(|s| s.n_refs).sum();
    if total_refs > cfg.max_total_references {
        viol.push(Dim::RefsTotal);
    }
    let total_sigs: usize = t.intents.iter().map(|s| s.n_sigs.min(MAX_SIGS)).sum::<usize>() + 1;
    if total_sigs > cfg.max_total_signature_validations {
        viol.push(Dim::SigsTotal);
    }
    // overall window = intersection of all windows
    let o_start = t.intents.iter().map(|s| s.start).max().unwrap();
    let o_end = t.intents.iter().map(|s| s.end).min().unwrap();
    let o_min_ts = t.intents.iter().filter_map(|s| s.min_ts).max();
    let o_max_ts = t.intents.iter().filter_map(|s| s.max_ts).min();
    if v2 {
        if o_start >= o_end {
            viol.push(Dim::OverallEpoch);
        }
        if let (Some(a), Some(b)) = (o_min_ts, o_max_ts) {
            if a >= b {
                viol.push(Dim::OverallTimestamp);
            }
        }
        for i in 0..t.plan.len() {
            if t.plan.depth(i) > cfg.max_subintent_depth {
                viol.push(Dim::Depth);
                break;
            }
        }
    }
    viol.sort();
    viol.dedup();
    for d in &viol {
        g.label(d.label());
    }
    g.label(if viol.is_empty() { "expected: accepted" } else { "expected: rejected" });
    if n_probes > 0 {
        g.nontrivial();
    }
    g.sample(|| format!("expected violations {:?}; {}", viol, render(&t, &cfg, net)));

    // ---- build ----
    let result: Result<Result<Option<OverallValidityRangeV2>, TransactionValidationError>, String> = if !v2 {
        let s = &t.intents[0];
        let intent = IntentV1 {
            header: TransactionHeaderV1 {
                network_id: s.network_id,
                start_epoch_inclusive: Epoch::of(s.start),
                end_epoch_exclusive: Epoch::of(s.end),
                nonce: 7,
                notary_public_key: notary_key(),
                notary_is_signatory: false,
                tip_percentage: t.tip as u16,
            },
            instructions: InstructionsV1(instructions_v1(s)),
            blobs: blobs(s.n_blobs, 0),
            message: msg_v1(&s.msg),
        };
        let ih = refhash::v1_intent(&intent);
        let signed_intent = SignedIntentV1 { intent, intent_signatures: IntentSignaturesV1 { signatures: signatures(s.n_sigs, &ih) } };
        let sh = refhash::v1_signed(&signed_intent);
        let tx = NotarizedTransactionV1 { signed_intent, notary_signature: NotarySignatureV1(notary_sign(&sh)) };
        catch(|| tx.prepare_and_validate(&validator).map(|_| None))
    } else {
        let n = t.plan.len();
        let mut hashes: Vec<Hash> = vec![Hash([0; 32]); n];
        let mut subs: Vec<Option<SubintentV2>> = vec![None; n];
        let core_of = |i: usize, hashes: &Vec<Hash>| -> IntentCoreV2 {
            let s = &t.intents[i];
            let me = if i == 0 { None } else { Some(i - 1) };
            let kids = t.plan.children_of(me);
            IntentCoreV2 {
                header: IntentHeaderV2 {
                    network_id: s.network_id,
                    start_epoch_inclusive: Epoch::of(s.start),
                    end_epoch_exclusive: Epoch::of(s.end),
                    min_proposer_timestamp_inclusive: s.min_ts.map(Instant::new),
                    max_proposer_timestamp_exclusive: s.max_ts.map(Instant::new),
                    intent_discriminator: i as u64,
                },
                blobs: blobs(s.n_blobs, i as u8),
                message: msg_v2(&s.msg),
                children: ChildSubintentSpecifiersV2 { children: kids.iter().map(|k| SubintentHash::from_hash(hashes[*k]).into()).collect() },
                instructions: InstructionsV2(instructions_v2(s, kids.len(), if i == 0 { 0 } else { 1 })),
            }
        };
        for i in (0..n).rev() {
            let s = SubintentV2 { intent_core: core_of(i + 1, &hashes) };
            hashes[i] = refhash::subintent(&s);
            subs[i] = Some(s);
        }
        let intent = TransactionIntentV2 {
            transaction_header: TransactionHeaderV2 { notary_public_key: notary_key(), notary_is_signatory: false, tip_basis_points: t.tip },
            root_intent_core: core_of(0, &hashes),
            non_root_subintents: NonRootSubintentsV2(subs.into_iter().map(|s| s.unwrap()).collect()),
        };
        let (ih, sub_hashes) = refhash::v2_intent(&intent);
        let signed = SignedTransactionIntentV2 {
            transaction_intent: intent,
            transaction_intent_signatures: IntentSignaturesV2 { signatures: signatures(t.intents[0].n_sigs, &ih) },
            non_root_subintent_signatures: NonRootSubintentSignaturesV2 {
                by_subintent: (0..n).map(|i| IntentSignaturesV2 { signatures: signatures(t.intents[i + 1].n_sigs, &sub_hashes[i]) }).collect(),
            },
        };
        let (sh, _, _) = refhash::v2_signed(&signed);
        let tx = NotarizedTransactionV2 { signed_transaction_intent: signed, notary_signature: NotarySignatureV2(notary_sign(&sh)) };
        catch(|| tx.prepare_and_validate(&validator).map(|v| Some(v.overall_validity_range)))
    };

    let result = match result {
        Ok(r) => r,
        Err(p) => return Outcome::fail("validation panics", format!("{}\n{}", p, render(&t, &cfg, net))),
    };
    match (&result, viol.is_empty()) {
        (Ok(range), true) => {
            if let Some(r) = range {
                let expected = OverallValidityRangeV2 {
                    epoch_range: EpochRange { start_epoch_inclusive: Epoch::of(o_start), end_epoch_exclusive: Epoch::of(o_end) },
                    proposer_timestamp_range: ProposerTimestampRange { start_timestamp_inclusive: o_min_ts.map(Instant::new), end_timestamp_exclusive: o_max_ts.map(Instant::new) },
                };
                ensure!(
                    r == &expected,
                    "overall_validity_range is not the intersection of the intents' windows",
                    "expected {:?}\nactual {:?}\n{}",
                    expected,
                    r,
                    render(&t, &cfg, net)
                );
                if t.intents.len() > 1 {
                    g.label("overall range checked over >= 2 intents");
                }
            }
            Outcome::Pass
        }
        (Ok(_), false) => Outcome::fail(
            format!("accepted although a stated condition is violated ({})", viol.iter().map(|d| d.group()).collect::<Vec<_>>().join(" + ")),
            format!("violated {:?}\n{}", viol, render(&t, &cfg, net)),
        ),
        (Err(e), true) => Outcome::fail(format!("rejected although every stated condition holds (error family: {})", classify(e)), format!("error {:?}\n{}", e, render(&t, &cfg, net))),
        (Err(e), false) => {
            let groups: std::collections::BTreeSet<&'static str> = viol.iter().map(|d| d.group()).collect();
            if groups.len() == 1 {
                let want = *groups.iter().next().unwrap();
                g.label("single violated condition");
                ensure!(
                    classify(e) == want,
                    format!("a single violated limit ({}) is reported as a different error family", want),
                    "error {:?} (family {})\n{}",
                    e,
                    classify(e),
                    render(&t, &cfg, net)
                );
            }
            Outcome::Pass
        }
    }
}

pub fn check() -> Check {
    Check::new(
        "C34",
        "Transaction validation enforces exactly the configured limits",
        "Configurations: generated TransactionValidationConfig with small limits (2/3 of cases), babylon, cuttlefish; validator bound to a network or network-agnostic. A V1 transaction or a V2 transaction with 0-3 (up to 6 for depth probes) subintents is drawn inside all limits, then 0-2 dimensions are moved to limit-1 / limit / limit+1: network id, epoch window (empty, reversed, max-1, max, max+1), tip percentage / basis points (min-1, min, max, max+1), mime / plaintext / encrypted lengths in bytes (strings built from 1-4-byte UTF-8 characters in most probes, so character count < byte length), decryptor count (split over curves), malformed decryptor maps, instruction count, references per intent and in total, blob count, signatures per intent and total signature validations, timestamp window, touching / one-epoch-overlap / disjoint epoch windows across intents, timestamp-only empty intersections, subintent chain depth, V2 not allowed. Oracle: a transcription of the property statement over those numbers: accepted iff no condition is violated; when exactly one family of conditions is violated the error belongs to that family; overall_validity_range equals the harness's intersection. Non-trivial = at least one dimension placed on a boundary.",
    )
    .assume("epochs stay far below u64::MAX (the code rejects windows whose start + max range overflows; the statement does not require that)")
    .part(Part::new("limits", 2_000_000, 60_000_000, 400, case))
    .min_nontrivial_pct(50.0)
}
