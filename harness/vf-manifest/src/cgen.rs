//! Resource-constraint generator and the set-theoretic reference semantics used by C37 (and by the
//! manifest generator for the `ASSERT_*` instructions).
//!
//! The semantics below is written from the doc comments of `ManifestResourceConstraint`,
//! `GeneralResourceConstraint`, `LowerBound`, `UpperBound` and `AllowedIds` only; amounts are
//! compared as bigint subunits (vf_math::refdec), id sets as `BTreeSet`s of indices into a fixed
//! universe. It shares no code with `validate_*` / `normalize`.

use num_bigint::BigInt;
use num_traits::{Signed, Zero};
use radix_common::prelude::*;
use std::collections::BTreeSet;
use vf_core::Gen;
use vf_math::refdec::{big_to_dec, dec_to_big, gen_value, DEC};

/// Universe of non-fungible ids: six ids of all four id kinds + "fresh" ids outside it.
pub const UNIVERSE: usize = 6;

pub fn universe_id(i: usize) -> NonFungibleLocalId {
    match i {
        0 => NonFungibleLocalId::integer(0),
        1 => NonFungibleLocalId::integer(1),
        2 => NonFungibleLocalId::string("a").unwrap(),
        3 => NonFungibleLocalId::string("b_B9").unwrap(),
        4 => NonFungibleLocalId::bytes(vec![0u8]).unwrap(),
        5 => NonFungibleLocalId::ruid([0x11; 32]),
        // fresh ids, never part of generated required/allowed sets
        n => NonFungibleLocalId::integer(1000 + n as u64),
    }
}

pub fn ids_of(set: &BTreeSet<usize>) -> IndexSet<NonFungibleLocalId> {
    set.iter().map(|i| universe_id(*i)).collect()
}

fn index_of(id: &NonFungibleLocalId) -> usize {
    for i in 0..UNIVERSE {
        if universe_id(i) == *id {
            return i;
        }
    }
    match id {
        NonFungibleLocalId::Integer(v) if v.value() >= 1000 => (v.value() - 1000) as usize,
        _ => panic!("id outside the harness universe: {:?}", id),
    }
}

pub fn set_of(ids: &IndexSet<NonFungibleLocalId>) -> BTreeSet<usize> {
    ids.iter().map(index_of).collect()
}

pub fn one() -> BigInt {
    DEC.one()
}

// ---------------------------------------------------------------------------------------------
// Reference semantics
// ---------------------------------------------------------------------------------------------

/// A balance of one resource.
#[derive(Clone, Debug, PartialEq, Eq)]
pub enum Balance {
    /// Fungible amount in subunits (≥ 0).
    Amount(BigInt),
    /// Non-fungible ids (indices into the universe; ≥ UNIVERSE = fresh ids).
    Ids(BTreeSet<usize>),
}

fn lower_ok(l: &LowerBound, amount: &BigInt) -> bool {
    match l {
        // "a lower bound of an infinitesimal amount above 0"
        LowerBound::NonZero => amount.is_positive(),
        LowerBound::Inclusive(d) => *amount >= dec_to_big(*d),
    }
}
fn upper_ok(u: &UpperBound, amount: &BigInt) -> bool {
    match u {
        UpperBound::Unbounded => true,
        UpperBound::Inclusive(d) => *amount <= dec_to_big(*d),
    }
}

/// Does the balance satisfy the constraint's mathematical meaning?
/// `None` = the doc comments give no meaning (id constraints against a fungible balance).
pub fn satisfies(c: &ManifestResourceConstraint, b: &Balance) -> Option<bool> {
    let (amount, ids): (BigInt, Option<&BTreeSet<usize>>) = match b {
        Balance::Amount(a) => (a.clone(), None),
        Balance::Ids(s) => (BigInt::from(s.len()) * one(), Some(s)),
    };
    Some(match c {
        ManifestResourceConstraint::NonZeroAmount => amount.is_positive(),
        ManifestResourceConstraint::ExactAmount(d) => amount == dec_to_big(*d),
        ManifestResourceConstraint::AtLeastAmount(d) => amount >= dec_to_big(*d),
        ManifestResourceConstraint::ExactNonFungibles(s) => set_of(s) == *ids?,
        ManifestResourceConstraint::AtLeastNonFungibles(s) => set_of(s).is_subset(ids?),
        ManifestResourceConstraint::General(g) => {
            let bounds = lower_ok(&g.lower_bound, &amount) && upper_ok(&g.upper_bound, &amount);
            match ids {
                Some(ids) => {
                    let req = set_of(&g.required_ids).is_subset(ids);
                    let allowed = match &g.allowed_ids {
                        AllowedIds::Any => true,
                        AllowedIds::Allowlist(a) => ids.is_subset(&set_of(a)),
                    };
                    bounds && req && allowed
                }
                None => {
                    // "Fungible resources are viewed as a specialization of non-fungible resources
                    // where we disregard ids": only defined when no id is required and ids are
                    // unrestricted (the callers below only ask in that case).
                    if !g.required_ids.is_empty() || g.allowed_ids != AllowedIds::Any {
                        return None;
                    }
                    bounds
                }
            }
        }
    })
}

// ---------------------------------------------------------------------------------------------
// Generators
// ---------------------------------------------------------------------------------------------

pub fn gen_subset(g: &mut Gen) -> BTreeSet<usize> {
    match g.weighted(&[3, 6, 1]) {
        0 => BTreeSet::new(),
        1 => {
            let mask = g.below(1 << UNIVERSE);
            (0..UNIVERSE).filter(|i| mask >> i & 1 == 1).collect()
        }
        _ => (0..UNIVERSE).collect(),
    }
}

/// Non-negative boundary-heavy decimal (subunits).
pub fn gen_amount(g: &mut Gen, integral: bool) -> BigInt {
    let v = match g.weighted(&[4, 5, 3, 2, 2]) {
        0 => BigInt::zero(),
        1 => BigInt::from(g.range(0, UNIVERSE as i128 + 2) as u64) * one(),
        2 => BigInt::from(g.range(1, 3) as u64), // a few attos
        3 => gen_value(g, DEC).abs().min(DEC.max()),
        _ => match g.below(3) {
            0 => DEC.max(),
            1 => DEC.max() - BigInt::from(1u8),
            _ => (DEC.max() / one()) * one(), // largest whole number
        },
    };
    if integral && g.chance(7, 8) {
        (&v / one()) * one()
    } else {
        v
    }
}

/// Possibly negative amount (invalid constraints).
pub fn gen_signed_amount(g: &mut Gen, integral: bool) -> BigInt {
    let v = gen_amount(g, integral);
    if g.chance(1, 8) {
        -v
    } else {
        v
    }
}

pub fn gen_lower(g: &mut Gen, integral: bool, allow_invalid: bool) -> LowerBound {
    match g.weighted(&[2, 6]) {
        0 => LowerBound::NonZero,
        _ => {
            let v = if allow_invalid { gen_signed_amount(g, integral) } else { gen_amount(g, integral) };
            LowerBound::Inclusive(big_to_dec(&v))
        }
    }
}
pub fn gen_upper(g: &mut Gen, integral: bool, allow_invalid: bool) -> UpperBound {
    match g.weighted(&[2, 6]) {
        0 => UpperBound::Unbounded,
        _ => {
            let v = if allow_invalid { gen_signed_amount(g, integral) } else { gen_amount(g, integral) };
            UpperBound::Inclusive(big_to_dec(&v))
        }
    }
}

/// A general constraint; roughly half are valid for the requested use.
pub fn gen_general(g: &mut Gen, fungible: bool) -> GeneralResourceConstraint {
    if g.chance(1, 2) {
        // constructed to be valid
        if fungible {
            let lo = gen_amount(g, false);
            let lower = if g.chance(1, 5) { LowerBound::NonZero } else { LowerBound::Inclusive(big_to_dec(&lo)) };
            let lo_eq = match lower {
                LowerBound::NonZero => BigInt::from(1u8),
                _ => lo.clone(),
            };
            let upper = match g.weighted(&[2, 3, 3]) {
                0 => UpperBound::Unbounded,
                1 => UpperBound::Inclusive(big_to_dec(&lo_eq)),
                _ => {
                    let extra = gen_amount(g, false);
                    let u = (lo_eq + extra).min(DEC.max());
                    UpperBound::Inclusive(big_to_dec(&u))
                }
            };
            let allowed_ids = if g.chance(1, 6) { AllowedIds::none() } else { AllowedIds::Any };
            let lower = if allowed_ids == AllowedIds::none() { LowerBound::zero() } else { lower };
            GeneralResourceConstraint { required_ids: Default::default(), lower_bound: lower, upper_bound: upper, allowed_ids }
        } else {
            let allow = if g.chance(2, 3) { Some(gen_subset(g)) } else { None };
            let required: BTreeSet<usize> = match &allow {
                Some(a) => {
                    let mask = g.below(1 << UNIVERSE);
                    a.iter().copied().filter(|i| mask >> i & 1 == 1).collect()
                }
                None => gen_subset(g),
            };
            let cap = allow.as_ref().map(|a| a.len()).unwrap_or(UNIVERSE + 2);
            // lower in 0..=cap, upper ≥ max(lower, |required|)
            let lo_n = g.range_usize(0, cap);
            let lower = if lo_n >= 1 && g.chance(1, 5) { LowerBound::NonZero } else { LowerBound::Inclusive(Decimal::from(lo_n as u64)) };
            let lo_eff = match lower {
                LowerBound::NonZero => 1,
                _ => lo_n,
            };
            let min_up = lo_eff.max(required.len());
            let upper = match g.weighted(&[2, 3, 3]) {
                0 => UpperBound::Unbounded,
                1 => UpperBound::Inclusive(Decimal::from(min_up as u64)),
                _ => UpperBound::Inclusive(Decimal::from((min_up + g.range_usize(0, 3)) as u64)),
            };
            GeneralResourceConstraint {
                required_ids: ids_of(&required),
                lower_bound: lower,
                upper_bound: upper,
                allowed_ids: match allow {
                    Some(a) => AllowedIds::Allowlist(ids_of(&a)),
                    None => AllowedIds::Any,
                },
            }
        }
    } else {
        // free-form: any combination (often invalid)
        let integral = !fungible || g.chance(1, 4);
        let required = if fungible && g.chance(3, 4) { BTreeSet::new() } else { gen_subset(g) };
        let allowed_ids = match g.weighted(&[3, 3, 1]) {
            0 => AllowedIds::Any,
            1 => AllowedIds::Allowlist(ids_of(&gen_subset(g))),
            _ => AllowedIds::none(),
        };
        GeneralResourceConstraint {
            required_ids: ids_of(&required),
            lower_bound: gen_lower(g, integral, true),
            upper_bound: gen_upper(g, integral, true),
            allowed_ids,
        }
    }
}

/// Any constraint shape. `fungible` only biases the shapes (callers check validity themselves).
pub fn gen_constraint(g: &mut Gen, fungible: bool) -> ManifestResourceConstraint {
    let w: [u32; 6] = if fungible { [2, 4, 4, 1, 1, 8] } else { [2, 3, 3, 4, 4, 8] };
    match g.weighted(&w) {
        0 => ManifestResourceConstraint::NonZeroAmount,
        1 => ManifestResourceConstraint::ExactAmount(big_to_dec(&gen_signed_amount(g, !fungible))),
        2 => ManifestResourceConstraint::AtLeastAmount(big_to_dec(&gen_signed_amount(g, !fungible))),
        3 => ManifestResourceConstraint::ExactNonFungibles(ids_of(&gen_subset(g))),
        4 => ManifestResourceConstraint::AtLeastNonFungibles(ids_of(&gen_subset(g))),
        _ => ManifestResourceConstraint::General(gen_general(g, fungible)),
    }
}

/// A constraint that `is_valid_for` the given kind of resource (by construction + retry; falls back
/// to `NonZeroAmount`, which is valid for both).
pub fn gen_valid_constraint(g: &mut Gen, fungible: bool) -> ManifestResourceConstraint {
    for _ in 0..4 {
        let c = gen_constraint(g, fungible);
        let ok = if fungible { c.is_valid_for_fungible_use() } else { c.is_valid_for_non_fungible_use() };
        if ok {
            return c;
        }
    }
    ManifestResourceConstraint::NonZeroAmount
}

pub fn render_constraint(c: &ManifestResourceConstraint) -> String {
    fn ids(s: &IndexSet<NonFungibleLocalId>) -> String {
        let v: Vec<String> = s.iter().map(|i| i.to_string()).collect();
        format!("{{{}}}", v.join(","))
    }
    match c {
        ManifestResourceConstraint::NonZeroAmount => "NonZeroAmount".into(),
        ManifestResourceConstraint::ExactAmount(d) => format!("ExactAmount({})", d),
        ManifestResourceConstraint::AtLeastAmount(d) => format!("AtLeastAmount({})", d),
        ManifestResourceConstraint::ExactNonFungibles(s) => format!("ExactNonFungibles{}", ids(s)),
        ManifestResourceConstraint::AtLeastNonFungibles(s) => format!("AtLeastNonFungibles{}", ids(s)),
        ManifestResourceConstraint::General(g) => render_general(g),
    }
}

pub fn render_general(g: &GeneralResourceConstraint) -> String {
    let ids = |s: &IndexSet<NonFungibleLocalId>| {
        let v: Vec<String> = s.iter().map(|i| i.to_string()).collect();
        format!("{{{}}}", v.join(","))
    };
    format!(
        "General{{required={}, lower={}, upper={}, allowed={}}}",
        ids(&g.required_ids),
        match g.lower_bound {
            LowerBound::NonZero => "NonZero".to_string(),
            LowerBound::Inclusive(d) => format!(">={}", d),
        },
        match g.upper_bound {
            UpperBound::Unbounded => "Unbounded".to_string(),
            UpperBound::Inclusive(d) => format!("<={}", d),
        },
        match &g.allowed_ids {
            AllowedIds::Any => "Any".to_string(),
            AllowedIds::Allowlist(a) => ids(a),
        }
    )
}
