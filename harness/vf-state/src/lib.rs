//! State-layer checks: C14 (overlay), C16 (key mapper), C17 (state root), C18 (pruning).
//!
//! Reusable oracles: [`model`] (R4: model database + update generator), [`smt`] (R5: sparse-Merkle
//! reference root), [`treewalk`] (reachability over the physical tree nodes).

pub mod model;
pub mod smt;
pub mod treewalk;

pub mod c14;
pub mod c16;
pub mod c17;
pub mod c18;

pub fn checks() -> Vec<vf_core::Check> {
    vec![c14::check(), c16::check(), c17::check(), c18::check()]
}
