//! C40 Access controller changes need two roles or an elapsed timer.
//!
//! Histories of calls against access controllers created once per world (fungible / non-fungible
//! controlled asset x timed-recovery delay None / 1 / 10 / 10 000 minutes). The oracle is a SAFETY
//! predicate over the history, kept in a small ledger of "who proposed what, when, and is it still
//! pending" that is updated from the calls made and their success only:
//!
//!  * the rule set (read from the role-assignment substates) may change, and the controlled asset
//!    (read from the raw vault) may leave, only through a successful confirm call;
//!  * a quick confirm of role A's proposal needs: a pending proposal made by A (A's badge was
//!    presented when it was made; not cancelled; no other change confirmed since), the same
//!    proposal passed to the confirm, and a role B != A (what the package's role template allows
//!    for that confirm) whose badge is presented with the confirm;
//!  * a timed confirm (a public method) needs: the recovery role's own pending proposal, made
//!    while the controller has a delay configured, not stopped, the same proposal passed, and
//!    minute(now) >= minute(time of proposal) + delay (the ledger clock the blueprint reads has
//!    minute precision);
//!  * after a recovery confirm the role assignment read back equals the proposal's rule set;
//!  * create_proof succeeds only while the primary role is not locked.
//! Positive side: primary proposal + quick confirm by recovery/confirmation, and recovery
//! proposal + timed confirm after the delay, must succeed when they are generated.

use crate::util::*;
use scrypto_test::prelude::*;
use std::collections::BTreeSet;
use vf_core::{catch, Check, Gen, Outcome, Part};
use vf_world::*;

const P: usize = 0;
const R: usize = 1;
const C: usize = 2;
const ROLE: [&str; 3] = ["primary", "recovery", "confirmation"];

#[derive(Clone)]
struct Ctl {
    name: String,
    address: ComponentAddress,
    vault: NodeId,
    delay: Option<u32>,
    initial: Holding,
}

#[derive(Clone)]
struct Env {
    badges: Vec<ResourceAddress>,
    /// [0] is what every controller starts with
    rule_sets: Vec<RuleSet>,
    /// proposal pool: (rule set index, proposed delay)
    proposals: Vec<(usize, Option<u32>)>,
    controllers: Vec<Ctl>,
    round0: u64,
    time0: i64,
}

fn rule_set(badges: &[ResourceAddress], p: usize, r: usize, c: usize) -> RuleSet {
    RuleSet { primary_role: rule!(require(badges[p])), recovery_role: rule!(require(badges[r])), confirmation_role: rule!(require(badges[c])) }
}

fn read_rules(w: &World, ctl: &Ctl) -> Option<RuleSet> {
    Some(RuleSet {
        primary_role: role_rule(w.db(), &ctl.address, ROLE[P])?,
        recovery_role: role_rule(w.db(), &ctl.address, ROLE[R])?,
        confirmation_role: role_rule(w.db(), &ctl.address, ROLE[C])?,
    })
}

fn read_asset(w: &World, ctl: &Ctl) -> Holding {
    match &ctl.initial {
        Holding::F(_) => Holding::F(fungible_vault_balance(w.db(), &ctl.vault).expect("asset vault exists")),
        Holding::N(_) => Holding::N(non_fungible_vault_contents(w.db(), &ctl.vault).expect("asset vault exists").1),
    }
}

fn build(w: &mut World) {
    let acc0 = w.accounts[0].address;
    let signer = w.accounts[0].badge();
    let badges: Vec<ResourceAddress> = (0..6).map(|_| w.sim.create_fungible_resource(Decimal::from(100u64), 0, acc0)).collect();
    let rule_sets = vec![rule_set(&badges, 0, 1, 2), rule_set(&badges, 3, 4, 5), rule_set(&badges, 1, 0, 2)];
    let proposals = vec![(1, None), (2, None), (1, Some(7)), (0, None)];
    let mut controllers = Vec::new();
    for nf in [false, true] {
        for delay in [None, Some(1u32), Some(10), Some(10_000)] {
            let asset = if nf { w.sim.create_non_fungible_resource(acc0) } else { w.sim.create_fungible_resource(Decimal::from(3u64), 0, acc0) };
            let manifest = ManifestBuilder::new()
                .lock_fee_from_faucet()
                .withdraw_from_account(acc0, asset, Decimal::from(3u64))
                .take_all_from_worktop(asset, "asset")
                .create_access_controller("asset", rule_sets[0].primary_role.clone(), rule_sets[0].recovery_role.clone(), rule_sets[0].confirmation_role.clone(), delay)
                .build();
            let run = w.run(manifest, vec![signer.clone()]);
            assert!(run.is_success(), "fixture: access controller creation failed: {}", run.outcome_string());
            let address = run.commit().unwrap().new_component_addresses()[0];
            let t = Totals::scan(w.db());
            let mut found: Vec<(NodeId, Holding)> = Vec::new();
            for v in vault_nodes(&t) {
                if let Some((res, h)) = holding(&t, &v) {
                    if res == asset && !h.is_empty() {
                        found.push((v, h));
                    }
                }
            }
            assert_eq!(found.len(), 1, "fixture: the controlled asset must sit in exactly one vault");
            let (vault, initial) = found.pop().unwrap();
            let name = format!("{} asset, delay {:?}", if nf { "non-fungible" } else { "fungible" }, delay);
            controllers.push(Ctl { name, address, vault, delay, initial });
        }
    }
    for ctl in &controllers {
        assert_eq!(read_rules(w, ctl).as_ref(), Some(&rule_sets[0]), "fixture: role assignment reader does not see the initial rule set");
    }
    let round0 = w.sim.get_consensus_manager_state().round.number();
    let time0 = w.sim.get_current_proposer_timestamp_ms();
    w.set_ext(Env { badges, rule_sets, proposals, controllers, round0, time0 });
}

// ---------------------------------------------------------------------------------------------
// calls
// ---------------------------------------------------------------------------------------------

#[derive(Clone, Copy, PartialEq, Eq, Debug)]
enum Call {
    InitRecovery(usize),
    InitWithdraw(usize),
    QuickRecovery(usize),
    QuickWithdraw(usize),
    Timed,
    CancelRecovery(usize),
    CancelWithdraw(usize),
    Lock,
    Unlock,
    Stop,
    CreateProof,
    Mint,
    Contribute,
    LockFee,
    WithdrawFee,
}

impl Call {
    fn method(&self) -> &'static str {
        match self {
            Call::InitRecovery(P) => ACCESS_CONTROLLER_INITIATE_RECOVERY_AS_PRIMARY_IDENT,
            Call::InitRecovery(_) => ACCESS_CONTROLLER_INITIATE_RECOVERY_AS_RECOVERY_IDENT,
            Call::InitWithdraw(P) => ACCESS_CONTROLLER_INITIATE_BADGE_WITHDRAW_ATTEMPT_AS_PRIMARY_IDENT,
            Call::InitWithdraw(_) => ACCESS_CONTROLLER_INITIATE_BADGE_WITHDRAW_ATTEMPT_AS_RECOVERY_IDENT,
            Call::QuickRecovery(P) => ACCESS_CONTROLLER_QUICK_CONFIRM_PRIMARY_ROLE_RECOVERY_PROPOSAL_IDENT,
            Call::QuickRecovery(_) => ACCESS_CONTROLLER_QUICK_CONFIRM_RECOVERY_ROLE_RECOVERY_PROPOSAL_IDENT,
            Call::QuickWithdraw(P) => ACCESS_CONTROLLER_QUICK_CONFIRM_PRIMARY_ROLE_BADGE_WITHDRAW_ATTEMPT_IDENT,
            Call::QuickWithdraw(_) => ACCESS_CONTROLLER_QUICK_CONFIRM_RECOVERY_ROLE_BADGE_WITHDRAW_ATTEMPT_IDENT,
            Call::Timed => ACCESS_CONTROLLER_TIMED_CONFIRM_RECOVERY_IDENT,
            Call::CancelRecovery(P) => ACCESS_CONTROLLER_CANCEL_PRIMARY_ROLE_RECOVERY_PROPOSAL_IDENT,
            Call::CancelRecovery(_) => ACCESS_CONTROLLER_CANCEL_RECOVERY_ROLE_RECOVERY_PROPOSAL_IDENT,
            Call::CancelWithdraw(P) => ACCESS_CONTROLLER_CANCEL_PRIMARY_ROLE_BADGE_WITHDRAW_ATTEMPT_IDENT,
            Call::CancelWithdraw(_) => ACCESS_CONTROLLER_CANCEL_RECOVERY_ROLE_BADGE_WITHDRAW_ATTEMPT_IDENT,
            Call::Lock => ACCESS_CONTROLLER_LOCK_PRIMARY_ROLE_IDENT,
            Call::Unlock => ACCESS_CONTROLLER_UNLOCK_PRIMARY_ROLE_IDENT,
            Call::Stop => ACCESS_CONTROLLER_STOP_TIMED_RECOVERY_IDENT,
            Call::CreateProof => ACCESS_CONTROLLER_CREATE_PROOF_IDENT,
            Call::Mint => ACCESS_CONTROLLER_MINT_RECOVERY_BADGES_IDENT,
            Call::Contribute => ACCESS_CONTROLLER_CONTRIBUTE_RECOVERY_FEE_IDENT,
            Call::LockFee => ACCESS_CONTROLLER_LOCK_RECOVERY_FEE_IDENT,
            Call::WithdrawFee => ACCESS_CONTROLLER_WITHDRAW_RECOVERY_FEE_IDENT,
        }
    }
    /// The roles the package's role template (v2/package.rs) lists for the method; empty = public.
    /// Used to pick the badge a well-behaved caller presents, and - for the confirms - as the set
    /// of roles allowed to confirm.
    fn template(&self) -> &'static [usize] {
        match self {
            Call::InitRecovery(P) | Call::InitWithdraw(P) | Call::CancelRecovery(P) | Call::CancelWithdraw(P) | Call::CreateProof | Call::WithdrawFee => &[P],
            Call::InitRecovery(_) | Call::InitWithdraw(_) | Call::CancelRecovery(_) | Call::CancelWithdraw(_) | Call::Lock | Call::Unlock => &[R],
            Call::QuickRecovery(P) | Call::QuickWithdraw(P) => &[R, C],
            Call::QuickRecovery(_) | Call::QuickWithdraw(_) => &[P, C],
            Call::Mint => &[P, R],
            Call::Stop | Call::LockFee => &[P, C, R],
            Call::Timed | Call::Contribute => &[],
        }
    }
    fn takes_proposal(&self) -> bool {
        matches!(self, Call::InitRecovery(_) | Call::QuickRecovery(_) | Call::Timed | Call::Stop)
    }
    fn is_confirm(&self) -> bool {
        matches!(self, Call::QuickRecovery(_) | Call::QuickWithdraw(_) | Call::Timed)
    }
}

const CALLS: [(Call, u32); 21] = [
    (Call::InitRecovery(P), 6),
    (Call::InitRecovery(R), 6),
    (Call::QuickRecovery(P), 6),
    (Call::QuickRecovery(R), 6),
    (Call::Timed, 7),
    (Call::InitWithdraw(P), 3),
    (Call::InitWithdraw(R), 3),
    (Call::QuickWithdraw(P), 3),
    (Call::QuickWithdraw(R), 3),
    (Call::CancelRecovery(P), 2),
    (Call::CancelRecovery(R), 2),
    (Call::CancelWithdraw(P), 1),
    (Call::CancelWithdraw(R), 1),
    (Call::Lock, 3),
    (Call::Unlock, 2),
    (Call::Stop, 3),
    (Call::CreateProof, 4),
    (Call::Mint, 1),
    (Call::Contribute, 1),
    (Call::LockFee, 1),
    (Call::WithdrawFee, 1),
];

// ---------------------------------------------------------------------------------------------
// the ledger of proposals kept by the oracle
// ---------------------------------------------------------------------------------------------

#[derive(Clone, Debug)]
struct Pending {
    proposal: usize,
    at_ms: i64,
    /// the proposing role's badge was presented with the proposal
    by_the_role: bool,
}

struct Model {
    rules: RuleSet,
    asset: Holding,
    recovery: [Option<Pending>; 2],
    /// the recovery role's pending proposal runs on the timer (delay configured, not stopped)
    timer_running: bool,
    withdraw: [Option<bool>; 2],
    locked: bool,
    asset_gone: bool,
}

fn minute(ms: i64) -> i64 {
    ms.div_euclid(60_000)
}

fn satisfied(rules: &RuleSet, env: &Env, presented: &BTreeSet<usize>, role: usize) -> bool {
    let rule = match role {
        P => &rules.primary_role,
        R => &rules.recovery_role,
        _ => &rules.confirmation_role,
    };
    presented.iter().any(|i| *rule == rule!(require(env.badges[*i])))
}

fn badge_of(rules: &RuleSet, env: &Env, role: usize) -> Option<usize> {
    let rule = match role {
        P => &rules.primary_role,
        R => &rules.recovery_role,
        _ => &rules.confirmation_role,
    };
    (0..env.badges.len()).find(|i| *rule == rule!(require(env.badges[*i])))
}

fn proposal_value(env: &Env, i: usize) -> AccessControllerInitiateRecoveryAsPrimaryInput {
    AccessControllerInitiateRecoveryAsPrimaryInput { rule_set: env.rule_sets[env.proposals[i].0].clone(), timed_recovery_delay_in_minutes: env.proposals[i].1 }
}

fn show_rules(env: &Env, r: &RuleSet) -> String {
    match env.rule_sets.iter().position(|x| x == r) {
        Some(i) => format!("RS{}", i),
        None => format!("{:?}", r),
    }
}

fn case(g: &mut Gen) -> Outcome {
    with_world("c40", no_genesis, build, |w| run_case(w, g))
}

fn run_case(w: &mut World, g: &mut Gen) -> Outcome {
    let env_owned: Env = w.ext::<Env>().clone();
    let env = &env_owned;
    let acc0 = w.accounts[0].address;
    let signer = w.accounts[0].badge();
    let ctl = &env.controllers[g.index(env.controllers.len())];
    let steps = 1 + g.index(25);

    let mut m = Model {
        rules: env.rule_sets[0].clone(),
        asset: ctl.initial.clone(),
        recovery: [None, None],
        timer_running: false,
        withdraw: [None, None],
        locked: false,
        asset_gone: false,
    };
    let mut now = env.time0;
    let mut round = env.round0;
    let mut log: Vec<String> = Vec::new();
    let mut disturbed = false; // a cancel, re-initiate, lock toggle or stop happened
    let mut ever_recovery = [false; 2];
    let mut ever_withdraw = [false; 2];
    // generator memory (not part of the oracle): proposals / attempts that were cancelled, superseded or
    // already confirmed - confirms are steered towards them as well
    let mut ghost_recovery: [Option<usize>; 2] = [None, None];
    let mut ghost_withdraw = [false; 2];
    let mut confirm_after_disturbance = false;
    let mut n_success = 0u64;

    macro_rules! ctx {
        () => {
            format!("controller [{}]; history: {}", ctl.name, log.join("; "))
        };
    }

    for step in 0..steps {
        // ---- passage of time -----------------------------------------------------------------
        let boundary: Option<i64> = match (&m.recovery[R], ctl.delay) {
            (Some(p), Some(d)) => Some((minute(p.at_ms) + d as i64) * 60_000),
            _ => None,
        };
        let delta: i64 = match g.weighted(&[10, 2, 2, 2, 4, 1]) {
            0 => 0,
            1 => 1 + g.below(2_000) as i64,
            2 => *g.pick(&[59_000i64, 60_000, 61_000]),
            3 => 600_000,
            4 => match boundary {
                Some(b) if b > now => {
                    let target = match g.below(3) {
                        0 => b,
                        1 => b - 1,
                        _ => b + 60_000,
                    };
                    (target - now).max(0)
                }
                _ => 0,
            },
            _ => 600_000_000,
        };
        if delta > 0 {
            now += delta;
            round += 1;
            let sim = &mut w.sim;
            let (rd, ts) = (round, now);
            let receipt = catch(move || sim.advance_to_round_at_timestamp(Round::of(rd), ts));
            match receipt {
                Ok(r) if r.is_commit_success() => {}
                Ok(r) => return Outcome::fail("harness: advancing the ledger clock fails", format!("{}; then +{} ms: {:?}", ctx!(), delta, r.result)),
                Err(p) => return Outcome::fail("harness: advancing the ledger clock panics", format!("{}; then +{} ms: {}", ctx!(), delta, p)),
            }
            log.push(format!("+{}ms", delta));
        }

        // ---- which call ----------------------------------------------------------------------
        let weights: Vec<u32> = CALLS.iter().map(|(_, wt)| *wt).collect();
        let mut call = CALLS[g.weighted(&weights)].0;
        // steer confirms towards something that is pending, most of the time
        if call.is_confirm() && g.chance(2, 3) {
            let mut live: Vec<Call> = Vec::new();
            for a in [P, R] {
                if m.recovery[a].is_some() {
                    live.push(Call::QuickRecovery(a));
                }
                if m.withdraw[a].is_some() {
                    live.push(Call::QuickWithdraw(a));
                }
            }
            if m.recovery[R].is_some() && m.timer_running {
                live.push(Call::Timed);
                live.push(Call::Timed);
            }
            if m.recovery[R].is_some() && ctl.delay.is_some() && !m.timer_running {
                live.push(Call::Timed); // after a stop
            }
            for a in [P, R] {
                if m.recovery[a].is_none() && ghost_recovery[a].is_some() {
                    live.push(Call::QuickRecovery(a));
                    if a == R && ctl.delay.is_some() {
                        live.push(Call::Timed);
                    }
                }
                if m.withdraw[a].is_none() && ghost_withdraw[a] {
                    live.push(Call::QuickWithdraw(a));
                }
            }
            if !live.is_empty() {
                call = *g.pick(&live);
            }
        }
        // now and then cancel something that is pending
        if !call.is_confirm() && g.chance(1, 8) {
            let mut live: Vec<Call> = Vec::new();
            for a in [P, R] {
                if m.recovery[a].is_some() {
                    live.push(Call::CancelRecovery(a));
                }
                if m.withdraw[a].is_some() {
                    live.push(Call::CancelWithdraw(a));
                }
            }
            if !live.is_empty() {
                call = *g.pick(&live);
            }
        }
        // which proposal it carries
        let proposal: Option<usize> = if call.takes_proposal() {
            let relevant = match call {
                Call::QuickRecovery(a) => m.recovery[a].as_ref().map(|p| p.proposal).or(ghost_recovery[a]),
                Call::Timed | Call::Stop => m.recovery[R].as_ref().map(|p| p.proposal).or(ghost_recovery[R]),
                _ => None,
            };
            match relevant {
                Some(p) if !g.chance(1, 4) => Some(p),
                _ => Some(g.index(env.proposals.len())),
            }
        } else {
            None
        };
        // which badges are presented
        let template = call.template();
        let mut presented: BTreeSet<usize> = BTreeSet::new();
        match g.weighted(&[14, 2, 3, 2, 1, 2]) {
            0 => {
                // the badge of a role the template lists (nothing for public methods)
                if !template.is_empty() {
                    let role = *g.pick(template);
                    if let Some(b) = badge_of(&m.rules, env, role) {
                        presented.insert(b);
                    }
                }
            }
            1 => {}
            2 => {
                let role = g.index(3);
                if let Some(b) = badge_of(&m.rules, env, role) {
                    presented.insert(b);
                }
            }
            5 => {
                // the proposer tries to confirm its own proposal
                if let Call::QuickRecovery(a) | Call::QuickWithdraw(a) = call {
                    if let Some(b) = badge_of(&m.rules, env, a) {
                        presented.insert(b);
                    }
                }
            }
            3 => {
                for _ in 0..2 {
                    let role = g.index(3);
                    if let Some(b) = badge_of(&m.rules, env, role) {
                        presented.insert(b);
                    }
                }
            }
            _ => {
                // a badge that meant something under another rule set
                presented.insert(g.index(env.badges.len()));
            }
        }
        let holds: Vec<&'static str> = (0..3).filter(|r| satisfied(&m.rules, env, &presented, *r)).map(|r| ROLE[r]).collect();

        // ---- manifest ------------------------------------------------------------------------
        let mut b = ManifestBuilder::new().lock_fee_from_faucet();
        for i in &presented {
            b = b.create_proof_from_account_of_amount(acc0, env.badges[*i], Decimal::ONE);
        }
        b = match call {
            Call::Mint => b.call_method(
                ctl.address,
                call.method(),
                AccessControllerMintRecoveryBadgesInput { non_fungible_local_ids: indexset!(NonFungibleLocalId::integer(1000 + step as u64)) },
            ),
            Call::Contribute => b
                .withdraw_from_account(acc0, XRD, Decimal::from(5u64))
                .take_all_from_worktop(XRD, "fee")
                .with_name_lookup(|b, l| b.call_method(ctl.address, call.method(), manifest_args!(l.bucket("fee")))),
            Call::LockFee | Call::WithdrawFee => b.call_method(ctl.address, call.method(), manifest_args!(Decimal::ONE)),
            _ => match proposal {
                Some(p) => b.call_method(ctl.address, call.method(), proposal_value(env, p)),
                None => b.call_method(ctl.address, call.method(), manifest_args!()),
            },
        };
        let manifest = b.try_deposit_entire_worktop_or_abort(acc0, None).build();
        let entry = format!(
            "{}({}) presenting [{}]",
            call.method(),
            proposal.map(|p| format!("proposal {} = RS{} / {:?}", p, env.proposals[p].0, env.proposals[p].1)).unwrap_or_default(),
            if holds.is_empty() && !presented.is_empty() { "a badge of no role".to_string() } else { holds.join("+") }
        );

        // ---- what the happy paths promise ------------------------------------------------------
        let same = |pending: &Pending| proposal.map(|q| proposal_value(env, q) == proposal_value(env, pending.proposal)).unwrap_or(false);
        let timer_elapsed = |pending: &Pending| ctl.delay.map(|d| minute(now) >= minute(pending.at_ms) + d as i64).unwrap_or(false);
        let must_succeed = !m.asset_gone
            && match call {
                Call::QuickRecovery(P) => match &m.recovery[P] {
                    Some(p) => p.by_the_role && same(p) && (satisfied(&m.rules, env, &presented, R) || satisfied(&m.rules, env, &presented, C)),
                    None => false,
                },
                Call::Timed => match &m.recovery[R] {
                    Some(p) => p.by_the_role && m.timer_running && same(p) && timer_elapsed(p),
                    None => false,
                },
                _ => false,
            };

        // ---- run, read the controller back from raw state -----------------------------------------
        let run = w.run(manifest, vec![signer.clone()]);
        let Some(rules_now) = read_rules(w, ctl) else {
            return Outcome::fail("AccessController: a role of the controller has no rule assigned any more", format!("{}; {} -> {}", ctx!(), entry, run.outcome_string()));
        };
        let asset_now = read_asset(w, ctl);
        let success = run.is_success();
        log.push(format!("{} -> {}", entry, if success { "ok".to_string() } else { short_outcome(&run) }));
        if let Some(p) = &run.panic {
            return Outcome::fail(format!("AccessController::{}: host panic", call.method()), format!("{}: {}", ctx!(), p));
        }
        let rules_changed = rules_now != m.rules;
        let asset_moved = asset_now != m.asset;
        if call.is_confirm() && disturbed {
            confirm_after_disturbance = true;
        }

        if !success {
            if rules_changed || asset_moved {
                return Outcome::fail(
                    format!("AccessController::{}: a failed transaction changes the controller's rule set or asset vault", call.method()),
                    format!("{}; rules {} -> {}, asset {} -> {}", ctx!(), show_rules(env, &m.rules), show_rules(env, &rules_now), m.asset.show(), asset_now.show()),
                );
            }
            if must_succeed {
                return Outcome::fail(
                    format!("AccessController::{}: a documented happy path fails", call.method()),
                    format!("{}; the proposal is pending, was made by its role, the same proposal is passed and the confirmer / the timer qualifies; outcome {}", ctx!(), run.outcome_string()),
                );
            }
            // which adversarial situations were refused (classification only)
            match call {
                Call::QuickRecovery(a) => match &m.recovery[a] {
                    Some(p) => {
                        let second = call.template().iter().any(|b| satisfied(&m.rules, env, &presented, *b));
                        if same(p) && !second && satisfied(&m.rules, env, &presented, a) {
                            g.label("refused: quick confirm by the proposing role itself");
                        } else if !same(p) && second {
                            g.label("refused: quick confirm carrying a different proposal");
                        } else if same(p) && !second {
                            g.label("refused: quick confirm without any qualifying badge");
                        }
                    }
                    None => {
                        if ever_recovery[a] {
                            g.label("refused: quick confirm of a cancelled / superseded proposal");
                            let second = call.template().iter().any(|b| satisfied(&m.rules, env, &presented, *b));
                            if second && ghost_recovery[a].is_some() && ghost_recovery[a] == proposal {
                                g.label("refused: qualified quick confirm carrying exactly the cancelled / superseded proposal");
                            }
                        }
                    }
                },
                Call::QuickWithdraw(a) => match m.withdraw[a] {
                    Some(_) => {
                        if !call.template().iter().any(|b| satisfied(&m.rules, env, &presented, *b)) {
                            g.label("refused: badge withdraw confirm without a second role");
                        }
                    }
                    None => {
                        if ever_withdraw[a] {
                            g.label("refused: confirm of a cancelled / superseded badge withdraw");
                        }
                    }
                },
                Call::Timed => match &m.recovery[R] {
                    Some(p) if same(p) => {
                        if ctl.delay.is_none() {
                            g.label("refused: timed confirm on a controller without timed recovery");
                        } else if !m.timer_running {
                            g.label("refused: timed confirm after stop");
                        } else if !timer_elapsed(p) {
                            g.label("refused: timed confirm before the delay has elapsed");
                            if minute(now) + 1 == minute(p.at_ms) + ctl.delay.unwrap() as i64 {
                                g.label("refused: timed confirm in the last minute before the boundary");
                            }
                        }
                    }
                    Some(_) => g.label("refused: timed confirm carrying a different proposal"),
                    None => {
                        if ever_recovery[R] {
                            g.label("refused: timed confirm of a cancelled / superseded proposal");
                        }
                    }
                },
                Call::CreateProof => {
                    if m.locked && satisfied(&m.rules, env, &presented, P) {
                        g.label("refused: create_proof while the primary role is locked");
                    }
                }
                _ => {}
            }
            continue;
        }
        n_success += 1;

        match call {
            Call::QuickRecovery(a) | Call::QuickWithdraw(a) => {
                let is_recovery = matches!(call, Call::QuickRecovery(_));
                let what = if is_recovery { "recovery proposal" } else { "badge withdraw attempt" };
                let pending_ok = if is_recovery { m.recovery[a].is_some() } else { m.withdraw[a].is_some() };
                if !pending_ok {
                    return Outcome::fail(
                        format!("AccessController::{}: succeeds although the {} role has no pending {} (never made, cancelled, or superseded by a confirmed change)", call.method(), ROLE[a], what),
                        ctx!(),
                    );
                }
                let by_role = if is_recovery { m.recovery[a].as_ref().unwrap().by_the_role } else { m.withdraw[a].unwrap() };
                if !by_role {
                    return Outcome::fail(
                        format!("AccessController::{}: confirms a {} that was made without the {} role's badge", call.method(), what, ROLE[a]),
                        ctx!(),
                    );
                }
                if is_recovery && !same(m.recovery[a].as_ref().unwrap()) {
                    return Outcome::fail(format!("AccessController::{}: succeeds with a proposal different from the pending one", call.method()), ctx!());
                }
                let second_role = call.template().iter().any(|b| *b != a && satisfied(&m.rules, env, &presented, *b));
                if !second_role {
                    return Outcome::fail(
                        format!("AccessController::{}: succeeds without the badge of a second role allowed to confirm", call.method()),
                        format!("{}; roles held by the caller: {:?}", ctx!(), holds),
                    );
                }
                if is_recovery {
                    let want = &env.rule_sets[env.proposals[m.recovery[a].as_ref().unwrap().proposal].0];
                    if rules_now != *want {
                        return Outcome::fail(
                            format!("AccessController::{}: role assignment read back after the confirm differs from the proposal's rule set", call.method()),
                            format!("{}; read back {}, proposed {}", ctx!(), show_rules(env, &rules_now), show_rules(env, want)),
                        );
                    }
                    if asset_moved {
                        return Outcome::fail(format!("AccessController::{}: the controlled asset moves on a recovery confirm", call.method()), format!("{}; asset {} -> {}", ctx!(), m.asset.show(), asset_now.show()));
                    }
                    g.label("quick confirm of a recovery proposal succeeds");
                } else {
                    m.asset_gone = true;
                    g.label("quick confirm of a badge withdraw succeeds");
                }
                for x in [P, R] {
                    if let Some(p) = &m.recovery[x] {
                        ghost_recovery[x] = Some(p.proposal);
                    }
                    if m.withdraw[x].is_some() {
                        ghost_withdraw[x] = true;
                    }
                }
                m.recovery = [None, None];
                m.withdraw = [None, None];
                m.timer_running = false;
                m.locked = false;
                m.rules = rules_now;
                m.asset = asset_now;
            }
            Call::Timed => {
                let Some(p) = m.recovery[R].clone() else {
                    return Outcome::fail(
                        "AccessController::timed_confirm_recovery: succeeds although the recovery role has no pending recovery proposal (never made, cancelled, or superseded by a confirmed change)",
                        ctx!(),
                    );
                };
                if !p.by_the_role {
                    return Outcome::fail("AccessController::timed_confirm_recovery: confirms a recovery proposal that was made without the recovery role's badge", ctx!());
                }
                if !same(&p) {
                    return Outcome::fail("AccessController::timed_confirm_recovery: succeeds with a proposal different from the pending one", ctx!());
                }
                if ctl.delay.is_none() || !m.timer_running {
                    return Outcome::fail(
                        if ctl.delay.is_none() { "AccessController::timed_confirm_recovery: succeeds on a controller without timed recovery" } else { "AccessController::timed_confirm_recovery: succeeds after the timed recovery was stopped" },
                        ctx!(),
                    );
                }
                if !timer_elapsed(&p) {
                    return Outcome::fail(
                        "AccessController::timed_confirm_recovery: succeeds before the configured delay has elapsed",
                        format!("{}; proposed at {} ms (minute {}), delay {:?} min, now {} ms (minute {})", ctx!(), p.at_ms, minute(p.at_ms), ctl.delay, now, minute(now)),
                    );
                }
                let want = &env.rule_sets[env.proposals[p.proposal].0];
                if rules_now != *want {
                    return Outcome::fail(
                        "AccessController::timed_confirm_recovery: role assignment read back after the confirm differs from the proposal's rule set",
                        format!("{}; read back {}, proposed {}", ctx!(), show_rules(env, &rules_now), show_rules(env, want)),
                    );
                }
                if asset_moved {
                    return Outcome::fail("AccessController::timed_confirm_recovery: the controlled asset moves on a recovery confirm", format!("{}; asset {} -> {}", ctx!(), m.asset.show(), asset_now.show()));
                }
                g.label("timed confirm succeeds");
                if !satisfied(&m.rules, env, &presented, R) {
                    g.label("timed confirm succeeds for a caller without the recovery badge (public method)");
                }
                if minute(now) == minute(p.at_ms) + ctl.delay.unwrap() as i64 {
                    g.label("timed confirm exactly at the boundary minute");
                }
                for x in [P, R] {
                    if let Some(p) = &m.recovery[x] {
                        ghost_recovery[x] = Some(p.proposal);
                    }
                    if m.withdraw[x].is_some() {
                        ghost_withdraw[x] = true;
                    }
                }
                m.recovery = [None, None];
                m.withdraw = [None, None];
                m.timer_running = false;
                m.locked = false;
                m.rules = rules_now;
            }
            _ => {
                if rules_changed || asset_moved {
                    return Outcome::fail(
                        format!("AccessController::{}: {} through a call that is not a confirm", call.method(), if asset_moved { "the controlled asset leaves the vault" } else { "the rule set changes" }),
                        format!("{}; rules {} -> {}, asset {} -> {}", ctx!(), show_rules(env, &m.rules), show_rules(env, &rules_now), m.asset.show(), asset_now.show()),
                    );
                }
                match call {
                    Call::InitRecovery(a) => {
                        if ever_recovery[a] {
                            disturbed = true; // re-initiate
                        }
                        ever_recovery[a] = true;
                        m.recovery[a] = Some(Pending { proposal: proposal.unwrap(), at_ms: now, by_the_role: satisfied(&m.rules, env, &presented, a) });
                        if a == R {
                            m.timer_running = ctl.delay.is_some();
                        }
                    }
                    Call::InitWithdraw(a) => {
                        if ever_withdraw[a] {
                            disturbed = true;
                        }
                        ever_withdraw[a] = true;
                        m.withdraw[a] = Some(satisfied(&m.rules, env, &presented, a));
                    }
                    Call::CancelRecovery(a) => {
                        if let Some(p) = &m.recovery[a] {
                            ghost_recovery[a] = Some(p.proposal);
                        }
                        m.recovery[a] = None;
                        if a == R {
                            m.timer_running = false;
                        }
                        disturbed = true;
                    }
                    Call::CancelWithdraw(a) => {
                        if m.withdraw[a].is_some() {
                            ghost_withdraw[a] = true;
                        }
                        m.withdraw[a] = None;
                        disturbed = true;
                    }
                    Call::Lock => {
                        m.locked = true;
                        disturbed = true;
                    }
                    Call::Unlock => {
                        m.locked = false;
                        disturbed = true;
                    }
                    Call::Stop => {
                        m.timer_running = false;
                        disturbed = true;
                        g.label("timed recovery stopped");
                    }
                    Call::CreateProof => {
                        if m.locked {
                            return Outcome::fail("AccessController::create_proof: succeeds while the primary role is locked", ctx!());
                        }
                        g.label("create_proof succeeds");
                    }
                    _ => {}
                }
            }
        }
    }

    // ---- classification ------------------------------------------------------------------------
    g.label(if matches!(ctl.initial, Holding::F(_)) { "fungible asset" } else { "non-fungible asset" });
    g.label(match ctl.delay {
        None => "no timed recovery",
        Some(1) => "delay 1 min",
        Some(10) => "delay 10 min",
        _ => "delay 10000 min",
    });
    if confirm_after_disturbance {
        g.label("confirm attempted after cancel / re-initiate / lock toggle / stop");
    }
    if m.asset_gone {
        g.label("asset withdrawn");
    }
    if m.rules != env.rule_sets[0] && !m.asset_gone {
        g.label("rule set replaced");
    }
    g.count("calls", steps as u64);
    g.count("successful calls", n_success);
    g.set_nontrivial(confirm_after_disturbance);
    g.sample(|| ctx!());
    Outcome::Pass
}

fn short_outcome(run: &Run) -> String {
    let s = run.outcome_string();
    let mut cut = s.len().min(110);
    while !s.is_char_boundary(cut) {
        cut -= 1;
    }
    s[..cut].to_string()
}

pub fn check() -> Check {
    Check::new(
        "C40",
        "Access controller changes need two roles or an elapsed timer",
        "8 access controllers per world (fungible / non-fungible controlled asset x timed-recovery delay None / 1 / 10 / 10 000 minutes; a distinct badge resource per role). Histories of 1-25 calls over the whole method set (initiate / cancel recovery and badge withdraw as primary and as recovery, the four quick confirms, timed confirm, stop timed recovery, lock / unlock primary, create_proof, mint_recovery_badges, contribute / lock / withdraw recovery fee), each presenting the badge of a role the template lists for the method, or adversarially none, another role's, two roles', or a badge from another rule set; proposals from a pool of 4 (3 rule sets, two proposals differing only in the delay), confirms steered to the pending proposal 3 times out of 4; the ledger clock advanced between calls by 0, seconds, 59-61 s, 10 min, to the timer's boundary minute -1 ms / exactly / +1 min, or 10 000 min. After every call the three role rules are read from the role-assignment substates and the asset from the raw vault. Oracle (safety predicate over the history): rules change or the asset leaves only through a successful confirm; a quick confirm needs a pending proposal made with the proposer role's badge (not cancelled, not superseded by a confirmed change), the same proposal, and the badge of a second role allowed by the template; a timed confirm needs the recovery role's own pending proposal on a running timer, the same proposal, and minute(now) >= minute(proposal) + delay; rules read back after a recovery confirm equal the proposal's rule set; create_proof succeeds only while the primary role is not locked; a failed transaction changes nothing; and the two happy paths (primary proposal quick-confirmed by recovery / confirmation; recovery proposal timed-confirmed after the delay) succeed when generated. Non-trivial = a confirm attempted after a cancel, re-initiate, lock toggle or stop. Distinct = distinct decoded choice sequences.",
    )
    .assume("time is compared at minute precision, as the ledger clock the blueprint reads (TimePrecision::Minute) provides it")
    .assume("timed_confirm_recovery is a public method in the role template: the caller of a timed confirm is unconstrained, only the proposal must be the recovery role's own")
    .assume("only the v2 blueprint code (the one the latest protocol version dispatches to) is exercised; v1/state_machine.rs differs from v2 only in the substate type name")
    .part(Part::new("history", 3_000, 150_000, 400, case))
    .min_nontrivial_pct(15.0)
}
