//! vf-eng-e: engine-level checks C11 (no transaction can crash the engine), C38 (static resource
//! movement bounds are sound) and the engine parts of C36 / C37.

pub mod args;
pub mod c11;
pub mod c36;
pub mod c37;
pub mod c38;
pub mod env;

pub fn checks() -> Vec<vf_core::Check> {
    vec![c11::check(), c36::check(), c37::check(), c38::check()]
}
