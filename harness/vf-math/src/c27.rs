//! C27 Decimal text parsing and printing are exact inverses.

use crate::refdec::*;
use num_bigint::BigInt;
use num_traits::Zero;
use radix_common::math::{Decimal, PreciseDecimal};
use std::str::FromStr;
use vf_core::{catch, ensure, Check, Gen, Outcome, Part};

/// Reference recogniser: `[+-]?[0-9]+(\.[0-9]{1,scale})?`, exact value, range check.
pub fn ref_parse(s: &str, k: Kind) -> Option<BigInt> {
    let (neg, rest) = match s.as_bytes().first() {
        Some(b'-') => (true, &s[1..]),
        Some(b'+') => (false, &s[1..]),
        _ => (false, s),
    };
    let (int, frac) = match rest.find('.') {
        Some(i) => (&rest[..i], Some(&rest[i + 1..])),
        None => (rest, None),
    };
    let digits = |t: &str| !t.is_empty() && t.bytes().all(|b| b.is_ascii_digit());
    if !digits(int) {
        return None;
    }
    let mut v = BigInt::parse_bytes(int.as_bytes(), 10)? * k.one();
    if let Some(f) = frac {
        if !digits(f) || f.len() > k.scale as usize {
            return None;
        }
        v += BigInt::parse_bytes(f.as_bytes(), 10)? * pow10(k.scale - f.len() as u32);
    }
    if neg {
        v = -v;
    }
    if k.fits(&v) {
        Some(v)
    } else {
        None
    }
}

fn parse_impl(s: &str, k: Kind) -> Result<Option<BigInt>, String> {
    let s2 = s.to_string();
    if k == DEC {
        catch(move || Decimal::from_str(&s2).ok().map(dec_to_big))
    } else {
        catch(move || PreciseDecimal::from_str(&s2).ok().map(pdec_to_big))
    }
}

fn print_impl(v: &BigInt, k: Kind) -> Result<String, String> {
    if k == DEC {
        let d = big_to_dec(v);
        catch(move || d.to_string())
    } else {
        let d = big_to_pdec(v);
        catch(move || d.to_string())
    }
}

fn kind(g: &mut Gen) -> Kind {
    if g.bool() {
        PDEC
    } else {
        DEC
    }
}

fn print_parse(g: &mut Gen) -> Outcome {
    let k = kind(g);
    let v = gen_value(g, k);
    g.label(k.name);
    let one = k.one();
    if v.sign() == num_bigint::Sign::Minus && -&v < one {
        g.label("value in (-1,0)");
        g.nontrivial();
    }
    if !(&v % &one).is_zero() {
        g.label("has fractional digits");
        g.nontrivial();
    }
    if v == k.max() || v == k.min() {
        g.label("type limit");
        g.nontrivial();
    }
    let text = match print_impl(&v, k) {
        Ok(t) => t,
        Err(p) => return Outcome::fail(format!("{}::to_string panics", k.name), format!("value {} subunits: {}", v, p)),
    };
    g.sample(|| format!("{} subunits={} prints as {:?}", k.name, v, text));
    let expected = render(&v, k.scale);
    ensure!(
        text == expected,
        format!("{}::to_string is not the canonical exact numeral", k.name),
        "subunits {}: printed {:?}, exact canonical form {:?}",
        v,
        text,
        expected
    );
    match parse_impl(&text, k) {
        Err(p) => Outcome::fail(format!("{}::from_str panics", k.name), format!("input {:?}: {}", text, p)),
        Ok(back) => {
            ensure!(
                back.as_ref() == Some(&v),
                format!("{}: parse(print(x)) != x", k.name),
                "subunits {} printed {:?} parsed back {:?}",
                v,
                text,
                back
            );
            Outcome::Pass
        }
    }
}

const ODD: &[&str] = &["-", "+", ".", " ", "_", "e", "E", "x", "\0", "٣", "１", "a", ",", "\t", "\n", "0", "9", "e5", "é"];

fn gen_numeral(g: &mut Gen, k: Kind) -> String {
    let mut s = String::new();
    match g.weighted(&[6, 3, 1]) {
        0 => {}
        1 => s.push('-'),
        _ => s.push('+'),
    }
    let max_digits = decimal_digits(&k.max()) - k.scale as usize; // integer digits of MAX
    // integer part
    match g.weighted(&[4, 4, 2, 2]) {
        0 => s.push('0'),
        1 => {
            let n = g.range_usize(1, max_digits + 1);
            for i in 0..n {
                let d = if i == 0 { g.range(1, 9) } else { g.range(0, 9) } as u8;
                s.push((b'0' + d) as char);
            }
        }
        2 => {
            // around the range limit: integer part of MAX (or MIN) ± small
            let lim = if s.starts_with('-') { k.min() } else { k.max() };
            let int = trunc_div(&lim, &k.one()).magnitude().clone();
            let d = g.range(-2, 2);
            let v = BigInt::from(int) + BigInt::from(d as i64);
            s.push_str(&v.to_string());
        }
        _ => {
            // leading zeros
            let z = g.range_usize(1, 4);
            for _ in 0..z {
                s.push('0');
            }
            let n = g.range_usize(0, 5);
            for _ in 0..n {
                s.push((b'0' + g.range(0, 9) as u8) as char);
            }
        }
    }
    // fractional part
    if g.chance(3, 4) {
        s.push('.');
        let sc = k.scale as usize;
        let n = g.len_around(sc + 4, &[1, sc, sc + 1]);
        if g.chance(1, 8) && s.contains(|c: char| ('1'..='9').contains(&c)) && n > 0 {
            // fractional part of the limit, to sit exactly on MAX/MIN ± 1 subunit
            let lim = if s.starts_with('-') { k.min() } else { k.max() };
            let frac = (lim.magnitude().clone() % k.one().magnitude().clone()).to_string();
            let frac = format!("{:0>width$}", frac, width = sc);
            let mut fb: Vec<u8> = frac.into_bytes();
            if g.bool() {
                let last = fb.len() - 1;
                fb[last] = b'0' + ((fb[last] - b'0' + 1) % 10);
            }
            s.push_str(std::str::from_utf8(&fb).unwrap());
        } else {
            for _ in 0..n {
                s.push((b'0' + g.range(0, 9) as u8) as char);
            }
        }
    }
    s
}

fn mutate(g: &mut Gen, s: &mut String) -> &'static str {
    let chars: Vec<char> = s.chars().collect();
    match g.weighted(&[5, 2, 2, 1]) {
        0 => {
            let pos = g.index(chars.len() + 1);
            let ins = *g.pick(ODD);
            let mut out: String = chars[..pos].iter().collect();
            out.push_str(ins);
            out.extend(chars[pos..].iter());
            *s = out;
            "insert"
        }
        1 => {
            if chars.is_empty() {
                return "none";
            }
            let pos = g.index(chars.len());
            let mut out: String = chars[..pos].iter().collect();
            out.extend(chars[pos + 1..].iter());
            *s = out;
            "delete"
        }
        2 => {
            if chars.is_empty() {
                return "none";
            }
            let pos = g.index(chars.len());
            let rep = *g.pick(ODD);
            let mut out: String = chars[..pos].iter().collect();
            out.push_str(rep);
            out.extend(chars[pos + 1..].iter());
            *s = out;
            "replace"
        }
        _ => {
            // raw bytes as (lossy) text
            let raw = g.blob(24);
            *s = String::from_utf8_lossy(&raw).into_owned();
            "raw"
        }
    }
}

fn classify_bad_accept(s: &str) -> &'static str {
    if let Some(i) = s.find('.') {
        let frac = &s[i + 1..];
        if frac.starts_with('+') || frac.starts_with('-') {
            return "sign character in fractional part";
        }
    }
    if !s.is_ascii() {
        return "non-ASCII character";
    }
    "other non-numeral"
}

fn strings(g: &mut Gen) -> Outcome {
    let k = kind(g);
    g.label(k.name);
    let mut s = gen_numeral(g, k);
    let mutated = g.chance(1, 2);
    if mutated {
        let m = mutate(g, &mut s);
        g.label(m);
        g.nontrivial();
    }
    let expect = ref_parse(&s, k);
    if expect.is_some() {
        g.label("in grammar and range");
        if !mutated {
            if let Some(v) = &expect {
                if v.is_negative_fraction(&k) {
                    g.nontrivial();
                }
            }
        }
    } else {
        g.label("not a numeral of the type");
    }
    g.sample(|| format!("{}::from_str({:?}) expected {:?}", k.name, s, expect.as_ref().map(|v| v.to_string())));
    let got = match parse_impl(&s, k) {
        Ok(r) => r,
        Err(p) => return Outcome::fail(format!("{}::from_str panics", k.name), format!("input {:?}: {}", s, p)),
    };
    match (&expect, &got) {
        (None, Some(v)) => Outcome::fail(
            format!("{}::from_str accepts a non-numeral: {}", k.name, classify_bad_accept(&s)),
            format!("input {:?} is not an optionally-signed decimal numeral of the type (≤ {} fractional digits, in range) but parsed to {} subunits", s, k.scale, v),
        ),
        (Some(v), None) => Outcome::fail(
            format!("{}::from_str rejects a valid numeral", k.name),
            format!("input {:?} denotes {} subunits (representable) but was rejected", s, v),
        ),
        (Some(a), Some(b)) if a != b => Outcome::fail(
            format!("{}::from_str yields a wrong value", k.name),
            format!("input {:?} denotes {} subunits, parsed {}", s, a, b),
        ),
        _ => Outcome::Pass,
    }
}

trait NegFrac {
    fn is_negative_fraction(&self, k: &Kind) -> bool;
}
impl NegFrac for BigInt {
    fn is_negative_fraction(&self, k: &Kind) -> bool {
        self.sign() == num_bigint::Sign::Minus && -self < k.one() && !self.is_zero()
    }
}

pub fn check() -> Check {
    Check::new(
        "C27",
        "Decimal text parsing and printing are exact inverses",
        "part print_parse: boundary-heavy random Decimal/PreciseDecimal values are printed and parsed back, the text is compared with an exact bigint rendering; non-trivial = value in (-1,0), or with fractional digits, or a type limit. part strings: numerals from the grammar [+-]?digits(.digits)? (lengths around the scale, magnitudes around the range limit) with, half of the time, one character inserted/deleted/replaced (signs, points, spaces, underscores, exponents, NUL, non-ASCII digits) or raw bytes; an independent recogniser decides membership and the exact value; non-trivial = mutated string, or a valid numeral in (-1,0). Distinct = distinct decoded choice sequences.",
    )
    .part(Part::new("print_parse", 2_000_000, 60_000_000, 96, print_parse))
    .part(Part::new("strings", 4_000_000, 120_000_000, 160, strings))
    .min_nontrivial_pct(20.0)
}
