//! C24 Decimal arithmetic is exact or reports overflow.
//!
//! Oracle: R1 (`refdec`): every operand is its integer number of subunits; the mathematical result
//! is computed with num-bigint, truncated toward zero to the type's scale, and compared; `None`
//! is demanded exactly when that truncated result lies outside the type's range (or the divisor is
//! zero). No operation may panic.

use crate::refdec::*;
use num_bigint::{BigInt, Sign};
use num_traits::{One, Signed, Zero};
use radix_common::math::*;
use vf_core::{catch, Gen, Outcome, Part};

pub(crate) fn kind(g: &mut Gen) -> Kind {
    if g.bool() {
        PDEC
    } else {
        DEC
    }
}

const OPS: [&str; 4] = ["checked_add", "checked_sub", "checked_mul", "checked_div"];

/// Exact result of `a op b` on subunits, truncated toward zero; `None` = not representable.
pub(crate) fn ref_binop(k: Kind, op: usize, a: &BigInt, b: &BigInt) -> (Option<BigInt>, bool) {
    let one = k.one();
    let (q, inexact) = match op {
        0 => (a + b, false),
        1 => (a - b, false),
        2 => {
            let p = a * b;
            let q = trunc_div(&p, &one);
            let inexact = &q * &one != p;
            (q, inexact)
        }
        _ => {
            if b.is_zero() {
                return (None, false);
            }
            let n = a * &one;
            let q = trunc_div(&n, b);
            let inexact = &q * b != n;
            (q, inexact)
        }
    };
    if k.fits(&q) {
        (Some(q), inexact)
    } else {
        (None, inexact)
    }
}

macro_rules! arith {
    ($x:expr, $y:expr, $op:expr) => {
        match $op {
            0 => $x.checked_add($y),
            1 => $x.checked_sub($y),
            2 => $x.checked_mul($y),
            _ => $x.checked_div($y),
        }
    };
}

fn real_binop(k: Kind, op: usize, a: &BigInt, b: &BigInt) -> Result<Option<BigInt>, String> {
    if k == DEC {
        let (a, b) = (big_to_dec(a), big_to_dec(b));
        catch(move || arith!(a, b, op).map(dec_to_big))
    } else {
        let (a, b) = (big_to_pdec(a), big_to_pdec(b));
        catch(move || arith!(a, b, op).map(pdec_to_big))
    }
}

/// Shared verdict: compares an observed `Option` with the exact expectation.
pub(crate) fn judge(
    entry: &str,
    input: impl FnOnce() -> String,
    expect: &Option<BigInt>,
    got: Result<Option<BigInt>, String>,
) -> Outcome {
    let got = match got {
        Ok(g) => g,
        Err(p) => return Outcome::fail(format!("{} panics", entry), format!("{}: {}", input(), p)),
    };
    match (expect, &got) {
        (Some(e), Some(r)) if e == r => Outcome::Pass,
        (None, None) => Outcome::Pass,
        (Some(e), Some(r)) => Outcome::fail(
            format!("{} returns a wrong value", entry),
            format!("{}: exact result truncated toward zero is {} subunits, got {} subunits", input(), e, r),
        ),
        (Some(e), None) => Outcome::fail(
            format!("{} reports failure for a representable result", entry),
            format!("{}: exact result {} subunits is representable, got None/Err", input(), e),
        ),
        (None, Some(r)) => Outcome::fail(
            format!("{} returns a value for an unrepresentable result", entry),
            format!("{}: exact result is outside the type's range (or undefined), got {} subunits", input(), r),
        ),
    }
}

fn mixed_signs(a: &BigInt, b: &BigInt) -> bool {
    (a.is_negative() && b.is_positive()) || (a.is_positive() && b.is_negative())
}

/// The untruncated magnitude test of DESIGN's non-trivial rule.
fn classify(g: &mut Gen, k: Kind, exact_q: Option<&BigInt>, inexact: bool, a: &BigInt, b: &BigInt) {
    if inexact {
        g.label("inexact (truncated)");
        g.nontrivial();
    }
    if mixed_signs(a, b) {
        g.label("mixed signs");
        g.nontrivial();
    }
    match exact_q {
        Some(q) => {
            if near_limit(q, k) {
                g.label("result within 2^-8 of limit");
                g.nontrivial();
            }
            if *q == k.max() || *q == k.min() {
                g.label("result exactly MAX/MIN");
            }
        }
        None => g.label("unrepresentable"),
    }
}

// -------------------------------------------------------------------------------------------
// part pairs: same-type binary and unary operations
// -------------------------------------------------------------------------------------------

fn pairs(g: &mut Gen) -> Outcome {
    let k = kind(g);
    g.label(k.name);
    let a = gen_value(g, k);
    let op = g.weighted(&[4, 4, 7, 7, 1, 1]);
    if op >= 4 {
        // unary
        let (name, exact) = if op == 4 { ("checked_neg", -&a) } else { ("checked_abs", a.abs()) };
        g.label(name);
        let expect = if k.fits(&exact) { Some(exact) } else { None };
        if expect.is_none() {
            g.label("unrepresentable");
            g.nontrivial();
        } else if near_limit(&a, k) {
            g.label("result within 2^-8 of limit");
            g.nontrivial();
        }
        g.sample(|| format!("{}::{}({} subunits) expected {:?}", k.name, name, a, expect.as_ref().map(|v| v.to_string())));
        let got = if k == DEC {
            let d = big_to_dec(&a);
            catch(move || (if op == 4 { d.checked_neg() } else { d.checked_abs() }).map(dec_to_big))
        } else {
            let d = big_to_pdec(&a);
            catch(move || (if op == 4 { d.checked_neg() } else { d.checked_abs() }).map(pdec_to_big))
        };
        return judge(&format!("{}::{}", k.name, name), || format!("{} subunits", a), &expect, got);
    }
    let b = gen_partner(g, k, &a);
    g.label(OPS[op]);
    let (expect, inexact) = ref_binop(k, op, &a, &b);
    if op == 3 && b.is_zero() {
        g.label("division by zero");
    }
    // the exact (possibly out-of-range) quotient for the "near the limit" class
    let exact_q = match op {
        0 => Some(&a + &b),
        1 => Some(&a - &b),
        2 => Some(trunc_div(&(&a * &b), &k.one())),
        _ => {
            if b.is_zero() {
                None
            } else {
                Some(trunc_div(&(&a * k.one()), &b))
            }
        }
    };
    if let Some(q) = &exact_q {
        if near_limit(q, k) {
            g.label("result within 2^-8 of limit");
            g.nontrivial();
        }
        if expect.is_some() && (*q == k.max() || *q == k.min()) {
            g.label("result exactly MAX/MIN");
        }
    }
    if expect.is_none() {
        g.label("unrepresentable");
    }
    if inexact {
        g.label("inexact (truncated)");
        g.nontrivial();
    }
    if mixed_signs(&a, &b) {
        g.label("mixed signs");
        g.nontrivial();
    }
    g.sample(|| format!("{}::{}({}, {}) [subunits] expected {:?}", k.name, OPS[op], a, b, expect.as_ref().map(|v| v.to_string())));
    let got = real_binop(k, op, &a, &b);
    judge(&format!("{}::{}", k.name, OPS[op]), || format!("a={} b={} subunits", a, b), &expect, got)
}

// -------------------------------------------------------------------------------------------
// integer types
// -------------------------------------------------------------------------------------------

type MixedFn = fn(Kind, usize, bool, &BigInt, &BigInt) -> Result<Option<BigInt>, String>;
type FromIntFn = fn(Kind, &BigInt) -> Result<Option<BigInt>, String>;
type ToIntFn = fn(Kind, &BigInt) -> Result<Option<BigInt>, String>;

#[derive(Clone, Copy)]
struct IntTy {
    name: &'static str,
    bits: u32,
    signed: bool,
    /// `d op n` (or `n op d` when reversed is supported and requested)
    mixed: Option<MixedFn>,
    has_rev: bool,
    /// `Decimal::from(n)` / `Decimal::try_from(n)`
    from_int: FromIntFn,
    /// `T::try_from(decimal)`
    to_int: Option<ToIntFn>,
    /// only implemented for PreciseDecimal (I384 / U384)
    pdec_only: bool,
}

impl IntTy {
    fn min(&self) -> BigInt {
        if self.signed {
            -(BigInt::one() << (self.bits - 1))
        } else {
            BigInt::zero()
        }
    }
    fn max(&self) -> BigInt {
        if self.signed {
            (BigInt::one() << (self.bits - 1)) - 1
        } else {
            (BigInt::one() << self.bits) - 1
        }
    }
}

macro_rules! prim_ty {
    ($t:ty, $bits:expr, $signed:expr) => {{
        fn mixed(k: Kind, op: usize, _rev: bool, d: &BigInt, n: &BigInt) -> Result<Option<BigInt>, String> {
            let n: $t = <$t>::try_from(n.clone()).expect("generated within the type's range");
            if k == DEC {
                let d = big_to_dec(d);
                catch(move || arith!(d, n, op).map(dec_to_big))
            } else {
                let d = big_to_pdec(d);
                catch(move || arith!(d, n, op).map(pdec_to_big))
            }
        }
        fn from_int(k: Kind, n: &BigInt) -> Result<Option<BigInt>, String> {
            let n: $t = <$t>::try_from(n.clone()).expect("generated within the type's range");
            if k == DEC {
                catch(move || Some(dec_to_big(Decimal::from(n))))
            } else {
                catch(move || Some(pdec_to_big(PreciseDecimal::from(n))))
            }
        }
        fn to_int(k: Kind, v: &BigInt) -> Result<Option<BigInt>, String> {
            if k == DEC {
                let d = big_to_dec(v);
                catch(move || <$t>::try_from(d).ok().map(BigInt::from))
            } else {
                let d = big_to_pdec(v);
                catch(move || <$t>::try_from(d).ok().map(BigInt::from))
            }
        }
        IntTy {
            name: stringify!($t),
            bits: $bits,
            signed: $signed,
            mixed: Some(mixed as MixedFn),
            has_rev: false,
            from_int: from_int as FromIntFn,
            to_int: Some(to_int as ToIntFn),
            pdec_only: false,
        }
    }};
}

/// Builds a bnum wrapper from its exact value through the full-width little-endian byte image.
macro_rules! bnum_from_big {
    ($t:ty, $signed:expr, $n:expr) => {{
        let nbytes = (<$t>::BITS / 8) as usize;
        let bytes = if $signed {
            fixed_le($n, nbytes)
        } else {
            let (sign, mut m) = $n.to_bytes_le();
            assert!(sign != Sign::Minus && m.len() <= nbytes);
            m.resize(nbytes, 0);
            m
        };
        let x = <$t>::from_le_bytes(&bytes);
        debug_assert_eq!(x.to_string(), $n.to_string());
        x
    }};
}

macro_rules! bnum_ty {
    ($t:ty, $bits:expr, $signed:expr, full) => {{
        fn mixed(k: Kind, op: usize, rev: bool, d: &BigInt, n: &BigInt) -> Result<Option<BigInt>, String> {
            let n: $t = bnum_from_big!($t, $signed, n);
            if k == DEC {
                let d = big_to_dec(d);
                if rev {
                    catch(move || arith!(n, d, op).map(dec_to_big))
                } else {
                    catch(move || arith!(d, n, op).map(dec_to_big))
                }
            } else {
                let d = big_to_pdec(d);
                if rev {
                    catch(move || arith!(n, d, op).map(pdec_to_big))
                } else {
                    catch(move || arith!(d, n, op).map(pdec_to_big))
                }
            }
        }
        fn from_int(k: Kind, n: &BigInt) -> Result<Option<BigInt>, String> {
            let n: $t = bnum_from_big!($t, $signed, n);
            if k == DEC {
                catch(move || Decimal::try_from(n).ok().map(dec_to_big))
            } else {
                catch(move || PreciseDecimal::try_from(n).ok().map(pdec_to_big))
            }
        }
        IntTy {
            name: stringify!($t),
            bits: $bits,
            signed: $signed,
            mixed: Some(mixed as MixedFn),
            has_rev: true,
            from_int: from_int as FromIntFn,
            to_int: None,
            pdec_only: false,
        }
    }};
    ($t:ty, $bits:expr, $signed:expr, pdec_conv_only) => {{
        fn from_int(_k: Kind, n: &BigInt) -> Result<Option<BigInt>, String> {
            let n: $t = bnum_from_big!($t, $signed, n);
            catch(move || PreciseDecimal::try_from(n).ok().map(pdec_to_big))
        }
        IntTy {
            name: stringify!($t),
            bits: $bits,
            signed: $signed,
            mixed: None,
            has_rev: false,
            from_int: from_int as FromIntFn,
            to_int: None,
            pdec_only: true,
        }
    }};
}

fn int_types() -> Vec<IntTy> {
    vec![
        prim_ty!(u8, 8, false),
        prim_ty!(i8, 8, true),
        prim_ty!(u16, 16, false),
        prim_ty!(i16, 16, true),
        prim_ty!(u32, 32, false),
        prim_ty!(i32, 32, true),
        prim_ty!(u64, 64, false),
        prim_ty!(i64, 64, true),
        prim_ty!(usize, usize::BITS, false),
        prim_ty!(isize, isize::BITS, true),
        prim_ty!(u128, 128, false),
        prim_ty!(i128, 128, true),
        bnum_ty!(I192, 192, true, full),
        bnum_ty!(U192, 192, false, full),
        bnum_ty!(I256, 256, true, full),
        bnum_ty!(U256, 256, false, full),
        bnum_ty!(I320, 320, true, full),
        bnum_ty!(U320, 320, false, full),
        bnum_ty!(I448, 448, true, full),
        bnum_ty!(U448, 448, false, full),
        bnum_ty!(I512, 512, true, full),
        bnum_ty!(U512, 512, false, full),
        bnum_ty!(I384, 384, true, pdec_conv_only),
        bnum_ty!(U384, 384, false, pdec_conv_only),
    ]
}

thread_local! {
    static TYPES: Vec<IntTy> = int_types();
}

fn pick_type(g: &mut Gen) -> IntTy {
    let n = TYPES.with(|t| t.len());
    let i = g.index(n);
    TYPES.with(|t| t[i])
}

/// An integer of type `t`, biased to the type's limits, to the largest whole number the decimal
/// kind can hold (± 2), to small values, and otherwise uniform bits of random width.
fn gen_int(g: &mut Gen, t: &IntTy, k: Kind) -> BigInt {
    let (tmin, tmax) = (t.min(), t.max());
    let whole_max = trunc_div(&k.max(), &k.one());
    let v = match g.weighted(&[4, 3, 3, 6, 2]) {
        0 => BigInt::from(*g.pick(&[0i64, 1, -1, 2, -2, 3, 7, 10, -10, 100, 255, 256, -128, -129])),
        1 => {
            let d = BigInt::from(g.below(3));
            if g.bool() {
                &tmax - d
            } else {
                &tmin + d
            }
        }
        2 => {
            let d = BigInt::from(g.range(-2, 2) as i64);
            if g.bool() {
                &whole_max + d
            } else {
                -&whole_max + d
            }
        }
        3 => {
            let bits = g.range_u64(1, t.bits as u64) as u32;
            let raw = g.bytes((bits as usize).div_ceil(8));
            let mut v = BigInt::from_bytes_le(Sign::Plus, &raw);
            v &= (BigInt::one() << bits) - 1;
            if g.bool() {
                -v
            } else {
                v
            }
        }
        _ => {
            // powers of ten and two
            let v = if g.bool() { pow10(g.range_u64(0, 60) as u32) } else { BigInt::one() << (g.range_u64(0, t.bits as u64 - 1) as u32) };
            if g.bool() {
                -v
            } else {
                v
            }
        }
    };
    if v > tmax {
        tmax
    } else if v < tmin {
        tmin
    } else {
        v
    }
}

// -------------------------------------------------------------------------------------------
// part mixed: decimal (op) integer, integer (op) decimal, PreciseDecimal (op) Decimal
// -------------------------------------------------------------------------------------------

/// The statement speaks about pairs of decimals and about conversions; a mixed-type operation is
/// therefore judged as "convert the integer exactly (or fail), then operate on the pair" — which
/// is also how `impl_arith_ops!` documents itself by construction.
fn mixed(g: &mut Gen) -> Outcome {
    let k = kind(g);
    g.label(k.name);
    let op = g.weighted(&[3, 3, 5, 5]);
    g.label(OPS[op]);
    if k == PDEC && g.chance(1, 8) {
        // PreciseDecimal (op) Decimal and Decimal (op) PreciseDecimal
        let p = gen_value(g, PDEC);
        let d = match g.weighted(&[3, 1]) {
            0 => gen_value(g, DEC),
            _ => {
                // partner relative to p, narrowed to a Decimal
                let q = trunc_div(&gen_partner(g, PDEC, &p), &pow10(18));
                if DEC.fits(&q) {
                    q
                } else {
                    gen_value(g, DEC)
                }
            }
        };
        let rev = g.bool();
        g.label(if rev { "Decimal op PreciseDecimal" } else { "PreciseDecimal op Decimal" });
        let dp = &d * pow10(18);
        let (x, y) = if rev { (&dp, &p) } else { (&p, &dp) };
        let (expect, inexact) = ref_binop(PDEC, op, x, y);
        let q = expect.clone();
        classify(g, PDEC, q.as_ref(), inexact, x, y);
        g.sample(|| format!("PreciseDecimal({}) {} Decimal({}) rev={} expected {:?}", p, OPS[op], d, rev, expect.as_ref().map(|v| v.to_string())));
        let (pp, dd) = (big_to_pdec(&p), big_to_dec(&d));
        let got = if rev {
            catch(move || arith!(dd, pp, op).map(pdec_to_big))
        } else {
            catch(move || arith!(pp, dd, op).map(pdec_to_big))
        };
        let entry = if rev { format!("Decimal::{}(PreciseDecimal)", OPS[op]) } else { format!("PreciseDecimal::{}(Decimal)", OPS[op]) };
        return judge(&entry, || format!("precise={} decimal={} subunits", p, d), &expect, got);
    }
    let t = loop {
        let t = pick_type(g);
        if t.mixed.is_some() {
            break t;
        }
    };
    g.label(t.name);
    let n = gen_int(g, &t, k);
    let rev = t.has_rev && g.chance(1, 3);
    if rev {
        g.label("integer on the left");
    }
    let nd = &n * k.one();
    let convertible = k.fits(&nd);
    let d = if convertible && g.chance(1, 2) { gen_partner(g, k, &nd) } else { gen_value(g, k) };
    let (expect, inexact) = if !convertible {
        g.label("integer not convertible");
        g.nontrivial();
        (None, false)
    } else if rev {
        ref_binop(k, op, &nd, &d)
    } else {
        ref_binop(k, op, &d, &nd)
    };
    if convertible {
        let q = expect.clone();
        classify(g, k, q.as_ref(), inexact, &d, &nd);
    }
    g.sample(|| format!("{}({} subunits) {} {}({}) rev={} expected {:?}", k.name, d, OPS[op], t.name, n, rev, expect.as_ref().map(|v| v.to_string())));
    let got = (t.mixed.unwrap())(k, op, rev, &d, &n);
    let entry = if rev { format!("{}::{}({})", t.name, OPS[op], k.name) } else { format!("{}::{}({})", k.name, OPS[op], t.name) };
    judge(&entry, || format!("decimal={} subunits, integer={}", d, n), &expect, got)
}

// -------------------------------------------------------------------------------------------
// part convert
// -------------------------------------------------------------------------------------------

fn convert(g: &mut Gen) -> Outcome {
    match g.weighted(&[4, 4, 3]) {
        0 => {
            // integer -> decimal
            let k = kind(g);
            let t = loop {
                let t = pick_type(g);
                if !(t.pdec_only && k == DEC) {
                    break t;
                }
            };
            g.label("integer -> decimal");
            g.label(k.name);
            g.label(t.name);
            let n = gen_int(g, &t, k);
            let nd = &n * k.one();
            let expect = if k.fits(&nd) { Some(nd.clone()) } else { None };
            if expect.is_none() {
                g.label("unrepresentable");
                g.nontrivial();
            } else if near_limit(&nd, k) || n == t.min() || n == t.max() {
                g.label("at a limit");
                g.nontrivial();
            }
            g.sample(|| format!("{}::from/try_from({} {}) expected {:?}", k.name, t.name, n, expect.as_ref().map(|v| v.to_string())));
            let got = (t.from_int)(k, &n);
            judge(&format!("{}::try_from({})", k.name, t.name), || format!("integer {}", n), &expect, got)
        }
        1 => {
            // decimal -> primitive integer: exact or error
            let k = kind(g);
            let t = loop {
                let t = pick_type(g);
                if t.to_int.is_some() {
                    break t;
                }
            };
            g.label("decimal -> integer");
            g.label(k.name);
            g.label(t.name);
            let v = match g.weighted(&[3, 3, 1]) {
                0 => gen_value(g, k),
                1 => {
                    // whole numbers around the integer type's limits, sometimes plus a fraction
                    let n = gen_int(g, &t, k) + BigInt::from(g.range(-1, 1) as i64);
                    let f = match g.weighted(&[4, 1, 1]) {
                        0 => BigInt::zero(),
                        1 => BigInt::from(g.range(-1, 1) as i64),
                        _ => BigInt::from(g.u64()) % k.one(),
                    };
                    let v = n * k.one() + f;
                    if k.fits(&v) {
                        v
                    } else {
                        gen_value(g, k)
                    }
                }
                _ => BigInt::from(g.range(-300, 300) as i64) * k.one(),
            };
            let one = k.one();
            let whole = trunc_div(&v, &one);
            let integral = &whole * &one == v;
            let in_range = whole >= t.min() && whole <= t.max();
            let expect = if integral && in_range { Some(whole.clone()) } else { None };
            if !integral {
                g.label("has fraction");
                g.nontrivial();
            }
            if !in_range {
                g.label("out of the integer type's range");
                g.nontrivial();
            }
            if integral && (whole == t.min() || whole == t.max()) {
                g.label("at a limit");
                g.nontrivial();
            }
            g.sample(|| format!("{}::try_from({} {} subunits) expected {:?}", t.name, k.name, v, expect.as_ref().map(|x| x.to_string())));
            let got = (t.to_int.unwrap())(k, &v);
            // the result is a plain integer here, not subunits
            let entry = format!("{}::try_from({})", t.name, k.name);
            match judge(&entry, || format!("{} subunits", v), &expect, got) {
                Outcome::Fail(mut f) => {
                    f.message = f.message.replace("subunits, got", "(integer), got").replace("exact result truncated toward zero", "exact integer value");
                    Outcome::Fail(f)
                }
                o => o,
            }
        }
        _ => {
            // between the two decimal types
            if g.bool() {
                g.label("Decimal -> PreciseDecimal");
                let v = gen_value(g, DEC);
                let expect = Some(&v * pow10(18));
                if near_limit(&v, DEC) || v.is_negative() {
                    g.nontrivial();
                }
                g.sample(|| format!("PreciseDecimal::from(Decimal {} subunits)", v));
                let d = big_to_dec(&v);
                let got = catch(move || Some(pdec_to_big(PreciseDecimal::from(d))));
                judge("PreciseDecimal::from(Decimal)", || format!("{} subunits", v), &expect, got)
            } else {
                g.label("PreciseDecimal -> Decimal");
                let step = pow10(18);
                let v = match g.weighted(&[3, 3, 2]) {
                    0 => gen_value(g, PDEC),
                    1 => {
                        // a Decimal value widened, plus a sub-atto fraction of either sign
                        let d = gen_value(g, DEC);
                        let f = match g.weighted(&[2, 2, 2, 3]) {
                            0 => BigInt::zero(),
                            1 => BigInt::from(g.range(-1, 1) as i64),
                            2 => (&step >> 1u32) + BigInt::from(g.range(-1, 1) as i64),
                            _ => BigInt::from(g.u64()) % &step,
                        };
                        let f = if g.bool() { -f } else { f };
                        let v = d * &step + f;
                        if PDEC.fits(&v) {
                            v
                        } else {
                            gen_value(g, PDEC)
                        }
                    }
                    _ => {
                        // around the Decimal range limits
                        let lim = if g.bool() { DEC.max() } else { DEC.min() };
                        (lim + BigInt::from(g.range(-2, 2) as i64)) * &step + BigInt::from(g.range(-2, 2) as i64)
                    }
                };
                let q = trunc_div(&v, &step);
                let truncated = &q * &step != v;
                let expect = if DEC.fits(&q) { Some(q.clone()) } else { None };
                if truncated {
                    g.label("truncation happened");
                    g.nontrivial();
                    if v.is_negative() {
                        g.label("negative truncation");
                    }
                }
                if expect.is_none() {
                    g.label("unrepresentable");
                    g.nontrivial();
                } else if near_limit(&q, DEC) {
                    g.label("at a limit");
                    g.nontrivial();
                }
                g.sample(|| format!("Decimal::try_from(PreciseDecimal {} subunits) expected {:?}", v, expect.as_ref().map(|x| x.to_string())));
                let p = big_to_pdec(&v);
                let got = catch(move || Decimal::try_from(p).ok().map(dec_to_big));
                judge("Decimal::try_from(PreciseDecimal)", || format!("{} precise subunits", v), &expect, got)
            }
        }
    }
}

pub fn check() -> vf_core::Check {
    vf_core::Check::new(
        "C24",
        "Decimal arithmetic is exact or reports overflow",
        "part pairs: boundary-heavy pairs (a, b) of Decimal / PreciseDecimal subunit values (b is, 60% of the time, derived from a so that the sum / product / quotient sits on or next to MAX / MIN or is an exact multiple / divisor) under checked add/sub/mul/div/neg/abs; the result must equal the exact bigint result truncated toward zero, None exactly when that is out of range or the divisor is zero, no panic. part mixed: the same operations with an integer operand of every implemented type (12 primitives, I192..U512, both operand orders for the big types, PreciseDecimal with Decimal), judged as exact conversion followed by the pair operation. part convert: integer -> decimal (From/TryFrom, incl. I384/U384), decimal -> primitive (exact or error), Decimal <-> PreciseDecimal (narrowing = truncation toward zero). Non-trivial = exact result within 2^-8 of the type's limit, or inexact (truncation happened), or operands of mixed signs, or (conversions) an unrepresentable / limit / fractional source.",
    )
    .assume("mixed-type operations are judged as exact integer->decimal conversion followed by the same-type operation (the statement quantifies over pairs of decimals and over conversions)")
    .part(Part::new("pairs", 16_000_000, 400_000_000, 160, pairs))
    .part(Part::new("mixed", 4_000_000, 120_000_000, 192, mixed))
    .part(Part::new("convert", 4_000_000, 120_000_000, 128, convert))
    .min_nontrivial_pct(30.0)
}
