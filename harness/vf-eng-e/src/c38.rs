//! C38 Static resource movement bounds are sound.
//!
//! Generated V2 manifests over three accounts (world accounts 1-3; account 3 refuses deposits of two
//! resources, so `try_deposit_*_or_refund` really refunds) and seven resources, built from what
//! `StaticResourceMovementsVisitor` models: account withdraw / lock_fee_and_withdraw (fungible and
//! non-fungible), the six deposit methods (single, batch, ENTIRE_WORKTOP), worktop takes (amount /
//! ids / all), return, burn, mint (known native calls), calls of an unknown component (a puppet that
//! returns what it was given, keeps or burns part of it, or adds freshly minted resources), and
//! assertions (V1 worktop assertions, ASSERT_WORKTOP_RESOURCES_ONLY / INCLUDE,
//! ASSERT_NEXT_CALL_RETURNS_ONLY / INCLUDE, ASSERT_BUCKET_CONTENTS) that are true of the concrete
//! state the generator tracks, so that most manifests commit. Fees come from the faucet.
//!
//! Oracle, for every manifest the analyser accepts and that commits successfully: for each account
//! and resource, the net change read from the raw vault substates before / after must lie within
//! [deposit lower - withdrawn, deposit upper - withdrawn]; for non-fungibles additionally: ids
//! reported as certainly deposited are in the account afterwards, ids reported as certainly
//! withdrawn have left it, ids that left are covered by the reported withdrawal (known + unknown
//! count), ids that arrived are within the deposit allow-list. An account / resource without a
//! reported withdrawal must not decrease.

use crate::env::*;
use radix_transactions::manifest::static_resource_movements::*;
use radix_transactions::manifest::*;
use scrypto_test::prelude::*;
use std::collections::{BTreeMap, BTreeSet};
use std::rc::Rc;
use vf_core::{Check, Gen, Outcome, Part};
use vf_eng_c::pup::{enc, marker, script_manifest_args, v_own, v_own_lit, v_ref_lit, v_tuple};
use vf_world::*;

type Id = NonFungibleLocalId;

#[derive(Clone, Debug, PartialEq, Eq)]
pub enum Content {
    F(Decimal),
    N(BTreeSet<Id>),
}

impl Content {
    fn is_empty(&self) -> bool {
        match self {
            Content::F(d) => d.is_zero(),
            Content::N(s) => s.is_empty(),
        }
    }
    fn amount(&self) -> Decimal {
        match self {
            Content::F(d) => *d,
            Content::N(s) => Decimal::from(s.len() as u64),
        }
    }
    fn add(&mut self, other: &Content) {
        match (self, other) {
            (Content::F(a), Content::F(b)) => *a = a.checked_add(*b).unwrap(),
            (Content::N(a), Content::N(b)) => a.extend(b.iter().cloned()),
            _ => unreachable!("resource kinds never mix"),
        }
    }
    fn show(&self) -> String {
        match self {
            Content::F(d) => format!("{}", d),
            Content::N(s) => format!("{{{}}}", s.iter().map(|i| i.to_string()).collect::<Vec<_>>().join(",")),
        }
    }
}

#[derive(Clone)]
struct Res {
    address: ResourceAddress,
    name: &'static str,
    /// None = non-fungible
    divisibility: Option<u8>,
    mintable: bool,
    burnable: bool,
    /// refused by account index 2 (world account 3)
    refused_by_last: bool,
}

struct Gm<'a> {
    w: &'a World,
    res: Vec<Res>,
    /// model balances of the three accounts for the tracked resources
    acct: Vec<BTreeMap<ResourceAddress, Content>>,
    wt: BTreeMap<ResourceAddress, Content>,
    buckets: Vec<Option<(ResourceAddress, Content)>>,
    ins: Vec<InstructionV2>,
    log: Vec<String>,
    fee_locked: Vec<Decimal>,
    next_mint_id: u64,
    minted: Vec<(ResourceAddress, Id)>,
    gp: ComponentAddress,
    unknown_calls: u32,
    refunds: u32,
    v2_assertions: u32,
}

fn empty_of(r: &Res) -> Content {
    if r.divisibility.is_some() {
        Content::F(Decimal::ZERO)
    } else {
        Content::N(BTreeSet::new())
    }
}

impl<'a> Gm<'a> {
    fn account(&self, i: usize) -> ComponentAddress {
        self.w.accounts[i + 1].address
    }
    fn r(&self, a: &ResourceAddress) -> &Res {
        self.res.iter().find(|r| r.address == *a).unwrap()
    }
    fn call(&mut self, address: impl Into<GlobalAddress>, method: &str, args: impl ManifestEncode) {
        let a: GlobalAddress = address.into();
        self.ins.push(InstructionV2::CallMethod(CallMethod {
            address: ManifestGlobalAddress::Static(a),
            method_name: method.to_string(),
            args: manifest_decode(&manifest_encode(&args).unwrap()).unwrap(),
        }));
    }
    fn wt_add(&mut self, res: ResourceAddress, c: &Content) {
        let e = empty_of(self.r(&res));
        self.wt.entry(res).or_insert(e).add(c);
    }
    fn acct_add(&mut self, i: usize, res: ResourceAddress, c: &Content) {
        let e = empty_of(self.r(&res));
        self.acct[i].entry(res).or_insert(e).add(c);
    }

    /// Part of `have` (never more): an amount honouring the divisibility, or a subset of ids.
    fn part_of(&self, g: &mut Gen, res: &ResourceAddress, have: &Content, allow_zero: bool) -> Content {
        match have {
            Content::F(total) => {
                let div = self.r(res).divisibility.unwrap();
                let unit = Decimal::from_attos(I192::from(10u128.pow((18 - div as u32).min(18))));
                let candidates = [
                    *total,
                    Decimal::ONE,
                    unit,
                    total.checked_div(Decimal::from(2u32)).unwrap().checked_round(div as i32, RoundingMode::ToZero).unwrap(),
                    Decimal::from(1 + g.below(40)),
                    dec!("2.5").checked_round(div as i32, RoundingMode::ToZero).unwrap(),
                    Decimal::ZERO,
                ];
                let mut c = candidates[g.weighted(&[3, 3, 1, 2, 3, 1, 1])];
                if c > *total {
                    c = *total;
                }
                if c.is_zero() && !allow_zero {
                    c = if *total >= Decimal::ONE { Decimal::ONE } else { *total };
                }
                Content::F(c)
            }
            Content::N(ids) => {
                let all: Vec<Id> = ids.iter().cloned().collect();
                let n = match g.weighted(&[3, 2, 2, 1]) {
                    0 => 1,
                    1 => all.len(),
                    2 => 1 + g.index(all.len().max(1)),
                    _ => 0,
                };
                let n = n.min(all.len()).max(if allow_zero { 0 } else { 1.min(all.len()) });
                // a contiguous run starting anywhere (cheap way to get varying subsets)
                let start = if all.is_empty() { 0 } else { g.index(all.len()) };
                Content::N((0..n).map(|k| all[(start + k) % all.len()].clone()).collect())
            }
        }
    }

    fn sub(have: &mut Content, part: &Content) {
        match (have, part) {
            (Content::F(a), Content::F(b)) => *a = a.checked_sub(*b).unwrap(),
            (Content::N(a), Content::N(b)) => {
                for i in b {
                    a.remove(i);
                }
            }
            _ => unreachable!(),
        }
    }

    // ---- steps ----

    fn step_withdraw(&mut self, g: &mut Gen) -> bool {
        let i = g.index(3);
        let held: Vec<ResourceAddress> = self.acct[i].iter().filter(|(_, c)| !c.is_empty()).map(|(r, _)| *r).collect();
        if held.is_empty() {
            return false;
        }
        let refused: Vec<ResourceAddress> = held.iter().copied().filter(|r| self.r(r).refused_by_last).collect();
        let res = if !refused.is_empty() && g.chance(1, 4) { *g.pick(&refused) } else { *g.pick(&held) };
        let have = self.acct[i][&res].clone();
        let part = self.part_of(g, &res, &have, true);
        let lock = g.chance(1, 5);
        let a = self.account(i);
        let fee = dec!(10);
        match &part {
            Content::F(d) => {
                if lock {
                    self.call(a, ACCOUNT_LOCK_FEE_AND_WITHDRAW_IDENT, (fee, res, *d));
                } else {
                    self.call(a, ACCOUNT_WITHDRAW_IDENT, (res, *d));
                }
            }
            Content::N(ids) => {
                let v: Vec<Id> = ids.iter().cloned().collect();
                if lock {
                    self.call(a, ACCOUNT_LOCK_FEE_AND_WITHDRAW_NON_FUNGIBLES_IDENT, (fee, res, v));
                } else {
                    self.call(a, ACCOUNT_WITHDRAW_NON_FUNGIBLES_IDENT, (res, v));
                }
            }
        }
        if lock {
            self.fee_locked[i] = self.fee_locked[i].checked_add(fee).unwrap();
        }
        Self::sub(self.acct[i].get_mut(&res).unwrap(), &part);
        self.wt_add(res, &part);
        self.log.push(format!("A{} {}withdraw {} {}", i + 1, if lock { "lock_fee_and_" } else { "" }, self.r(&res).name, part.show()));
        true
    }

    fn step_take(&mut self, g: &mut Gen) -> bool {
        let on: Vec<ResourceAddress> = self.wt.iter().filter(|(_, c)| !c.is_empty() || g.chance(1, 8)).map(|(r, _)| *r).collect();
        if on.is_empty() {
            return false;
        }
        let res = *g.pick(&on);
        let have = self.wt[&res].clone();
        let id = self.buckets.len() as u32;
        let (part, how) = if g.chance(1, 3) {
            self.ins.push(InstructionV2::TakeAllFromWorktop(TakeAllFromWorktop { resource_address: res }));
            (have.clone(), "take_all")
        } else {
            let part = self.part_of(g, &res, &have, true);
            match &part {
                Content::F(d) => {
                    self.ins.push(InstructionV2::TakeFromWorktop(TakeFromWorktop { resource_address: res, amount: *d }));
                    (part, "take")
                }
                Content::N(ids) => {
                    if g.bool() {
                        self.ins.push(InstructionV2::TakeNonFungiblesFromWorktop(TakeNonFungiblesFromWorktop { resource_address: res, ids: ids.iter().cloned().collect() }));
                        (part, "take_ids")
                    } else {
                        // by amount: the worktop hands out ids of its choice; only sound for the model when it takes all
                        let n = ids.len();
                        let have_n = match &have {
                            Content::N(s) => s.len(),
                            _ => usize::MAX,
                        };
                        if n == have_n {
                            self.ins.push(InstructionV2::TakeFromWorktop(TakeFromWorktop { resource_address: res, amount: Decimal::from(n as u64) }));
                            (have.clone(), "take_amount(all)")
                        } else {
                            self.ins.push(InstructionV2::TakeNonFungiblesFromWorktop(TakeNonFungiblesFromWorktop { resource_address: res, ids: ids.iter().cloned().collect() }));
                            (part, "take_ids")
                        }
                    }
                }
            }
        };
        Self::sub(self.wt.get_mut(&res).unwrap(), &part);
        self.log.push(format!("b{} = {} {} {}", id, how, self.r(&res).name, part.show()));
        self.buckets.push(Some((res, part)));
        true
    }

    fn live_buckets(&self) -> Vec<usize> {
        (0..self.buckets.len()).filter(|i| self.buckets[*i].is_some()).collect()
    }

    fn step_return(&mut self, g: &mut Gen) -> bool {
        let live = self.live_buckets();
        if live.is_empty() {
            return false;
        }
        let b = *g.pick(&live);
        let (res, c) = self.buckets[b].take().unwrap();
        self.ins.push(InstructionV2::ReturnToWorktop(ReturnToWorktop { bucket_id: ManifestBucket(b as u32) }));
        self.wt_add(res, &c);
        self.log.push(format!("return b{}", b));
        true
    }

    fn step_burn(&mut self, g: &mut Gen) -> bool {
        let live: Vec<usize> = self.live_buckets().into_iter().filter(|i| self.r(&self.buckets[*i].as_ref().unwrap().0).burnable).collect();
        if live.is_empty() {
            return false;
        }
        let b = *g.pick(&live);
        self.buckets[b] = None;
        self.ins.push(InstructionV2::BurnResource(BurnResource { bucket_id: ManifestBucket(b as u32) }));
        self.log.push(format!("burn b{}", b));
        true
    }

    fn step_mint(&mut self, g: &mut Gen) -> bool {
        let m: Vec<ResourceAddress> = self.res.iter().filter(|r| r.mintable).map(|r| r.address).collect();
        let res = *g.pick(&m);
        if let Some(div) = self.r(&res).divisibility {
            let amt = Decimal::from(1 + g.below(30)).checked_round(div as i32, RoundingMode::ToZero).unwrap();
            self.call(res, FUNGIBLE_RESOURCE_MANAGER_MINT_IDENT, (amt,));
            self.wt_add(res, &Content::F(amt));
            self.log.push(format!("mint {} {}", self.r(&res).name, amt));
        } else {
            let n = 1 + g.below(2);
            let mut entries: IndexMap<Id, (NfData,)> = IndexMap::new();
            let mut set = BTreeSet::new();
            for _ in 0..n {
                self.next_mint_id += 1;
                let id = Id::integer(self.next_mint_id);
                entries.insert(id.clone(), (NfData { a: 1, b: "m".into(), c: 2 },));
                self.minted.push((res, id.clone()));
                set.insert(id);
            }
            self.call(res, NON_FUNGIBLE_RESOURCE_MANAGER_MINT_IDENT, (entries,));
            self.wt_add(res, &Content::N(set.clone()));
            self.log.push(format!("mint {} {}", self.r(&res).name, Content::N(set).show()));
        }
        true
    }

    /// Deposit of buckets or of the entire worktop with any of the six methods.
    fn step_deposit(&mut self, g: &mut Gen, force_all: bool) -> bool {
        // the refusing account a little more often, so that refunds really happen
        let i = if g.chance(1, 4) { 2 } else { g.index(3) };
        let a = self.account(i);
        let refuses = |s: &Self, r: &ResourceAddress| i == 2 && s.r(r).refused_by_last;
        let live = self.live_buckets();
        let entire = force_all || live.is_empty() || g.chance(1, 3);
        // what is sent
        let mut sent: Vec<(ResourceAddress, Content)> = Vec::new();
        let mut bucket_ids: Vec<u32> = Vec::new();
        if entire {
            for (r, c) in self.wt.iter() {
                if !c.is_empty() {
                    sent.push((*r, c.clone()));
                }
            }
        } else {
            let n = 1 + g.index(live.len().min(3));
            let start = g.index(live.len());
            for k in 0..n {
                let b = live[(start + k) % live.len()];
                if bucket_ids.contains(&(b as u32)) {
                    continue;
                }
                bucket_ids.push(b as u32);
                sent.push(self.buckets[b].clone().unwrap());
            }
        }
        let any_refused = sent.iter().any(|(r, _)| refuses(self, r));
        // method: the aborting variants only when nothing is refused (the generator wants commits)
        let single = !entire && bucket_ids.len() == 1 && g.chance(2, 3);
        let kind = match g.weighted(&[3, 3, 4]) {
            0 => 0, // deposit / deposit_batch (owner call: always accepted)
            1 if !any_refused => 1, // try_..._or_abort
            1 => 0,
            _ => 2, // try_..._or_refund
        };
        let none: Option<ResourceOrNonFungible> = None;
        let method;
        if single {
            let b = ManifestBucket(bucket_ids[0]);
            method = [ACCOUNT_DEPOSIT_IDENT, ACCOUNT_TRY_DEPOSIT_OR_ABORT_IDENT, ACCOUNT_TRY_DEPOSIT_OR_REFUND_IDENT][kind];
            match kind {
                0 => self.call(a, method, (b,)),
                _ => self.call(a, method, (b, none)),
            }
        } else {
            method = [ACCOUNT_DEPOSIT_BATCH_IDENT, ACCOUNT_TRY_DEPOSIT_BATCH_OR_ABORT_IDENT, ACCOUNT_TRY_DEPOSIT_BATCH_OR_REFUND_IDENT][kind];
            if entire {
                match kind {
                    0 => self.call(a, method, (ManifestExpression::EntireWorktop,)),
                    _ => self.call(a, method, (ManifestExpression::EntireWorktop, none)),
                }
            } else {
                let v: Vec<ManifestBucket> = bucket_ids.iter().map(|b| ManifestBucket(*b)).collect();
                match kind {
                    0 => self.call(a, method, (v,)),
                    _ => self.call(a, method, (v, none)),
                }
            }
        }
        // effect on the model
        if entire {
            self.wt.clear();
        } else {
            for b in &bucket_ids {
                self.buckets[*b as usize] = None;
            }
        }
        let refunded = kind == 2 && any_refused;
        if refunded {
            self.refunds += 1;
        }
        for (r, c) in &sent {
            if refunded {
                // all or nothing for a batch; a single bucket likewise
                self.wt_add(*r, c);
            } else {
                self.acct_add(i, *r, c);
            }
        }
        self.log.push(format!(
            "A{}.{}({}){}",
            i + 1,
            method,
            if entire { "ENTIRE_WORKTOP".to_string() } else { bucket_ids.iter().map(|b| format!("b{}", b)).collect::<Vec<_>>().join(",") },
            if refunded { " -> refunded" } else { "" }
        ));
        true
    }

    /// A constraint that holds for `c`.
    fn true_constraint(&self, g: &mut Gen, res: &ResourceAddress, c: &Content) -> ManifestResourceConstraint {
        match c {
            Content::F(d) => match g.weighted(&[2, 2, 1, 3]) {
                0 => ManifestResourceConstraint::ExactAmount(*d),
                1 => ManifestResourceConstraint::AtLeastAmount(self.part_of(g, res, c, true).amount()),
                2 if d.is_positive() => ManifestResourceConstraint::NonZeroAmount,
                _ => {
                    let lo = self.part_of(g, res, c, true).amount();
                    let lower = if d.is_positive() && g.chance(1, 4) { LowerBound::NonZero } else { LowerBound::Inclusive(lo) };
                    let upper = match g.below(3) {
                        0 => UpperBound::Unbounded,
                        1 => UpperBound::Inclusive(*d),
                        _ => UpperBound::Inclusive(d.checked_add(Decimal::from(g.below(10))).unwrap()),
                    };
                    ManifestResourceConstraint::General(GeneralResourceConstraint { required_ids: Default::default(), lower_bound: lower, upper_bound: upper, allowed_ids: AllowedIds::Any })
                }
            },
            Content::N(ids) => {
                let sub = |g: &mut Gen, s: &Self| -> IndexSet<Id> {
                    match s.part_of(g, res, c, true) {
                        Content::N(x) => x.into_iter().collect(),
                        _ => unreachable!(),
                    }
                };
                let n = Decimal::from(ids.len() as u64);
                match g.weighted(&[2, 2, 1, 1, 4]) {
                    0 => ManifestResourceConstraint::ExactNonFungibles(ids.iter().cloned().collect()),
                    1 => ManifestResourceConstraint::AtLeastNonFungibles(sub(g, self)),
                    2 => ManifestResourceConstraint::AtLeastAmount(Decimal::from(g.index(ids.len() + 1) as u64)),
                    3 => ManifestResourceConstraint::ExactAmount(n),
                    _ => {
                        let required = sub(g, self);
                        let lower = Decimal::from((required.len() + g.index(ids.len() - required.len() + 1)) as u64);
                        let extra = g.below(3);
                        let (upper, allowed) = match g.below(3) {
                            0 => (UpperBound::Unbounded, AllowedIds::Any),
                            1 => (UpperBound::Inclusive(n.checked_add(Decimal::from(extra)).unwrap()), AllowedIds::Any),
                            _ => {
                                // allow-list: everything present plus a few absent ids
                                let mut list: IndexSet<Id> = ids.iter().cloned().collect();
                                for k in 0..extra {
                                    list.insert(Id::integer(900_000 + k));
                                }
                                let up = ids.len() + g.index(list.len() - ids.len() + 1);
                                (UpperBound::Inclusive(Decimal::from(up as u64)), AllowedIds::Allowlist(list))
                            }
                        };
                        ManifestResourceConstraint::General(GeneralResourceConstraint { required_ids: required, lower_bound: LowerBound::Inclusive(lower), upper_bound: upper, allowed_ids: allowed })
                    }
                }
            }
        }
    }

    fn constraints_for(&self, g: &mut Gen, state: &BTreeMap<ResourceAddress, Content>, only: bool) -> ManifestResourceConstraints {
        let mut cs = ManifestResourceConstraints::new();
        for (r, c) in state {
            // "only": every resource present must be named; "include": any subset
            let name_it = if c.is_empty() { g.chance(1, 4) } else { only || g.chance(2, 3) };
            if name_it {
                let k = self.true_constraint(g, r, c);
                if k.is_valid_for(r) {
                    cs = cs.with_unchecked(*r, k);
                } else if only && !c.is_empty() {
                    cs = cs.with_unchecked(*r, ManifestResourceConstraint::AtLeastAmount(Decimal::ZERO));
                }
            }
        }
        cs
    }

    fn step_assert(&mut self, g: &mut Gen) -> bool {
        let present: Vec<ResourceAddress> = self.wt.iter().filter(|(_, c)| !c.is_empty()).map(|(r, _)| *r).collect();
        match g.weighted(&[2, 1, 2, 3, 3, 3]) {
            0 if !present.is_empty() => {
                let r = *g.pick(&present);
                let c = self.wt[&r].clone();
                let amt = self.part_of(g, &r, &c, true).amount();
                self.ins.push(InstructionV2::AssertWorktopContains(AssertWorktopContains { resource_address: r, amount: amt }));
                self.log.push(format!("assert_worktop_contains {} {}", self.r(&r).name, amt));
            }
            1 if !present.is_empty() => {
                let r = *g.pick(&present);
                self.ins.push(InstructionV2::AssertWorktopContainsAny(AssertWorktopContainsAny { resource_address: r }));
                self.log.push(format!("assert_worktop_contains_any {}", self.r(&r).name));
            }
            2 => {
                let nf: Vec<ResourceAddress> = present.iter().copied().filter(|r| matches!(self.wt[r], Content::N(_))).collect();
                if nf.is_empty() {
                    return false;
                }
                let r = *g.pick(&nf);
                let c = self.wt[&r].clone();
                let Content::N(ids) = self.part_of(g, &r, &c, true) else { unreachable!() };
                self.ins.push(InstructionV2::AssertWorktopContainsNonFungibles(AssertWorktopContainsNonFungibles { resource_address: r, ids: ids.iter().cloned().collect() }));
                self.log.push(format!("assert_worktop_contains_non_fungibles {} {}", self.r(&r).name, Content::N(ids).show()));
            }
            3 => {
                let cs = self.constraints_for(g, &self.wt.clone(), true);
                self.log.push(format!("assert_worktop_resources_only {:?}", cs));
                self.ins.push(InstructionV2::AssertWorktopResourcesOnly(AssertWorktopResourcesOnly { constraints: cs }));
                self.v2_assertions += 1;
            }
            4 => {
                let cs = self.constraints_for(g, &self.wt.clone(), false);
                self.log.push(format!("assert_worktop_resources_include {:?}", cs));
                self.ins.push(InstructionV2::AssertWorktopResourcesInclude(AssertWorktopResourcesInclude { constraints: cs }));
                self.v2_assertions += 1;
            }
            5 => {
                let live = self.live_buckets();
                if live.is_empty() {
                    return false;
                }
                let b = *g.pick(&live);
                let (r, c) = self.buckets[b].clone().unwrap();
                let k = self.true_constraint(g, &r, &c);
                if !k.is_valid_for(&r) {
                    return false;
                }
                self.log.push(format!("assert_bucket_contents b{} {:?}", b, k));
                self.ins.push(InstructionV2::AssertBucketContents(AssertBucketContents { bucket_id: ManifestBucket(b as u32), constraint: k }));
                self.v2_assertions += 1;
            }
            _ => return false,
        }
        true
    }

    /// A call of a component the analyser knows nothing about: the puppet receives buckets, may
    /// burn one, may mint something, and returns the rest.
    fn step_unknown_call(&mut self, g: &mut Gen) -> bool {
        let live = self.live_buckets();
        let n = g.index(live.len().min(3) + 1);
        let start = if live.is_empty() { 0 } else { g.index(live.len()) };
        let mut given: Vec<usize> = Vec::new();
        for k in 0..n {
            let b = live[(start + k) % live.len()];
            if !given.contains(&b) && b < 250 {
                given.push(b);
            }
        }
        let mut ops: Vec<Op> = Vec::new();
        let mut returned: BTreeMap<ResourceAddress, Content> = BTreeMap::new();
        let mut ret_slots: Vec<u8> = Vec::new();
        // references first (the puppet needs to see the resource managers it calls): slot 0;
        // the buckets handed over: slots 1..=n
        let f0 = self.res[0].address;
        ops.push(Op::Import(v_tuple(vec![v_ref_lit(f0.into_node_id())])));
        if !given.is_empty() {
            ops.push(Op::Import(v_tuple(given.iter().map(|b| v_own_lit(marker(0, *b as u8))).collect())));
        }
        let mut slots: u8 = 1 + given.len() as u8;
        let mut what = Vec::new();
        for (k, b) in given.iter().enumerate() {
            let s = 1 + k as u8;
            let (r, c) = self.buckets[*b].take().unwrap();
            let burn = self.r(&r).burnable && g.chance(1, 4);
            if burn {
                // ResourceManager::burn(bucket) — needs the resource visible
                ops.push(Op::Import(v_tuple(vec![v_ref_lit(r.into_node_id())])));
                slots += 1;
                ops.push(Op::CallMethod { receiver: N::Lit(r.into_node_id()), method: RESOURCE_MANAGER_BURN_IDENT.into(), args: enc(&v_tuple(vec![v_own(s)])) });
                slots += 1;
                what.push(format!("burns b{}", b));
            } else {
                ret_slots.push(s);
                let e = empty_of(self.r(&r));
                returned.entry(r).or_insert(e).add(&c);
                what.push(format!("returns b{}", b));
            }
        }
        if g.chance(1, 3) {
            let amt = Decimal::from(1 + g.below(20));
            ops.push(Op::CallMethod { receiver: N::Lit(f0.into_node_id()), method: FUNGIBLE_RESOURCE_MANAGER_MINT_IDENT.into(), args: scrypto_encode(&(amt,)).unwrap() });
            ret_slots.push(slots + 1);
            slots += 2;
            returned.entry(f0).or_insert(Content::F(Decimal::ZERO)).add(&Content::F(amt));
            what.push(format!("mints {} F0", amt));
        }
        let _ = slots;
        ops.push(Op::Return(enc(&v_tuple(ret_slots.iter().map(|s| v_own(*s)).collect()))));
        // optionally a next-call assertion that holds for what comes back
        if g.chance(1, 2) {
            let only = g.bool();
            let cs = self.constraints_for(g, &returned, only);
            self.log.push(format!("assert_next_call_returns_{} {:?}", if only { "only" } else { "include" }, cs));
            if only {
                self.ins.push(InstructionV2::AssertNextCallReturnsOnly(AssertNextCallReturnsOnly { constraints: cs }));
            } else {
                self.ins.push(InstructionV2::AssertNextCallReturnsInclude(AssertNextCallReturnsInclude { constraints: cs }));
            }
            self.v2_assertions += 1;
        }
        let method = if g.bool() { PUPPET_ACT } else { PUPPET_PEEK };
        self.ins.push(InstructionV2::CallMethod(CallMethod { address: ManifestGlobalAddress::Static(self.gp.into()), method_name: method.to_string(), args: script_manifest_args(&Script(ops)) }));
        for (r, c) in &returned {
            self.wt_add(*r, c);
        }
        self.unknown_calls += 1;
        self.log.push(format!("unknown component call: {}", if what.is_empty() { "nothing moves".to_string() } else { what.join(", ") }));
        true
    }
}

fn resources(w: &World) -> Vec<Res> {
    vec![
        Res { address: w.fungibles[0].address, name: "F0", divisibility: Some(18), mintable: true, burnable: true, refused_by_last: false },
        Res { address: w.fungibles[1].address, name: "F1", divisibility: Some(0), mintable: false, burnable: false, refused_by_last: false },
        Res { address: w.fungibles[2].address, name: "F2", divisibility: Some(6), mintable: false, burnable: false, refused_by_last: true },
        Res { address: XRD, name: "XRD", divisibility: Some(18), mintable: false, burnable: false, refused_by_last: false },
        Res { address: w.non_fungibles[0].address, name: "NF-int", divisibility: None, mintable: true, burnable: true, refused_by_last: false },
        Res { address: w.non_fungibles[1].address, name: "NF-str", divisibility: None, mintable: false, burnable: false, refused_by_last: true },
        Res { address: w.non_fungibles[2].address, name: "NF-bytes", divisibility: None, mintable: false, burnable: true, refused_by_last: false },
    ]
}

/// (amount, ids) an account holds of a resource, from raw vault substates.
fn holding(w: &mut World, t: &Totals, acct: ComponentAddress, res: ResourceAddress) -> (Decimal, BTreeSet<Id>) {
    let mut amount = Decimal::ZERO;
    let mut ids = BTreeSet::new();
    for v in w.sim.get_component_vaults(acct, res) {
        if let Some((_, b)) = t.fungible_vaults.get(&v) {
            amount = amount.checked_add(*b).unwrap();
        }
        if let Some((_, b, i)) = t.non_fungible_vaults.get(&v) {
            amount = amount.checked_add(*b).unwrap();
            ids.extend(i.iter().cloned());
        }
    }
    (amount, ids)
}

#[derive(Clone, Debug, Default)]
struct Withdrawn {
    amount: Decimal,
    known: BTreeSet<Id>,
    unknown: usize,
}

/// `NetWithdraws` has no accessor; its `Debug` rendering is read instead and the reading is
/// verified by rebuilding the value through its public constructors and comparing with `==`.
fn read_net_withdraws(nw: &NetWithdraws, res: &[Res], candidate_ids: &BTreeMap<ResourceAddress, BTreeSet<Id>>) -> Result<BTreeMap<ResourceAddress, Withdrawn>, String> {
    let text = format!("{:?}", nw);
    let mut out = BTreeMap::new();
    let mut rebuilt = NetWithdraws::empty();
    // positions of every entry key
    let key_pos: Vec<usize> = text.match_indices("ResourceAddress(").map(|(i, _)| i).collect();
    for r in res {
        let key = format!("{:?}", r.address);
        let Some(p) = text.find(&key) else { continue };
        let end = key_pos.iter().copied().find(|k| *k > p).unwrap_or(text.len());
        let chunk = &text[p + key.len()..end];
        if let Some(q) = chunk.find("NonFungible {") {
            let c = &chunk[q..];
            let n: usize = c.split("additional_unknown_ids: ").nth(1).and_then(|s| s.split(|ch: char| !ch.is_ascii_digit()).next()).and_then(|s| s.parse().ok()).ok_or_else(|| format!("cannot read unknown count in {}", c))?;
            let ids_text = c.split("known_ids: {").nth(1).and_then(|s| s.split('}').next()).unwrap_or("");
            let listed: Vec<&str> = ids_text.split(", ").filter(|s| !s.is_empty()).collect();
            let mut known = BTreeSet::new();
            for id in candidate_ids.get(&r.address).into_iter().flatten() {
                if listed.contains(&id.to_string().as_str()) {
                    known.insert(id.clone());
                }
            }
            if known.len() != listed.len() {
                return Err(format!("unknown id in {}", ids_text));
            }
            rebuilt = rebuilt.set_non_fungible(r.address, known.iter().cloned(), n);
            out.insert(r.address, Withdrawn { amount: Decimal::from((known.len() + n) as u64), known, unknown: n });
        } else if let Some(q) = chunk.find("Fungible { total_amount: ") {
            let c = &chunk[q + "Fungible { total_amount: ".len()..];
            let num = c.split(' ').next().unwrap_or("");
            let d = Decimal::try_from(num.trim_end_matches('}')).map_err(|e| format!("cannot read amount {:?}: {:?}", num, e))?;
            rebuilt = rebuilt.set_fungible(r.address, d);
            out.insert(r.address, Withdrawn { amount: d, known: BTreeSet::new(), unknown: 0 });
        } else {
            return Err(format!("cannot read entry {}", chunk));
        }
    }
    if rebuilt != *nw {
        return Err(format!("reading {:?} gave {:?}", nw, rebuilt));
    }
    Ok(out)
}

pub fn build_c38(w: &mut World) {
    build(w);
    // account 3 refuses deposits of F2 and NF-str
    let a3 = w.accounts[3].address;
    let m = ManifestBuilder::new()
        .lock_fee_from_faucet()
        .call_method(a3, ACCOUNT_SET_RESOURCE_PREFERENCE_IDENT, AccountSetResourcePreferenceInput { resource_address: w.fungibles[2].address, resource_preference: ResourcePreference::Disallowed })
        .call_method(a3, ACCOUNT_SET_RESOURCE_PREFERENCE_IDENT, AccountSetResourcePreferenceInput { resource_address: w.non_fungibles[1].address, resource_preference: ResourcePreference::Disallowed })
        .build();
    let r = w.run(m, all_badges(w));
    assert!(r.is_success(), "C38 world: {}", r.outcome_string());
}

pub const C38_WORLD: &str = "eng-e-c38";

fn case(g: &mut Gen) -> Outcome {
    with_world(C38_WORLD, no_genesis, build_c38, |w| {
        let ext = w.ext::<Rc<Ext>>().clone();
        let res = resources(w);
        let before = Totals::scan(w.db());
        let mut before_hold: BTreeMap<(usize, ResourceAddress), (Decimal, BTreeSet<Id>)> = BTreeMap::new();
        for i in 0..3 {
            for r in &res {
                let a = w.accounts[i + 1].address;
                before_hold.insert((i, r.address), holding(w, &before, a, r.address));
            }
        }
        let wref: &World = w;
        let mut m = Gm {
            w: wref,
            res: res.clone(),
            acct: (0..3)
                .map(|i| {
                    res.iter()
                        .map(|r| {
                            let (amt, ids) = before_hold[&(i, r.address)].clone();
                            (r.address, if r.divisibility.is_some() { Content::F(amt) } else { Content::N(ids) })
                        })
                        .collect()
                })
                .collect(),
            wt: BTreeMap::new(),
            buckets: Vec::new(),
            ins: Vec::new(),
            log: Vec::new(),
            fee_locked: vec![Decimal::ZERO; 3],
            next_mint_id: 5_000 + g.below(1000) * 10,
            minted: Vec::new(),
            gp: ext.gp,
            unknown_calls: 0,
            refunds: 0,
            v2_assertions: 0,
        };
        m.call(FAUCET, "lock_fee", (dec!(5000),));
        let steps = 2 + g.below(14);
        for _ in 0..steps {
            let _ = match g.weighted(&[6, 6, 2, 1, 2, 5, 4, 3]) {
                0 => m.step_withdraw(g),
                1 => m.step_take(g),
                2 => m.step_return(g),
                3 => m.step_burn(g),
                4 => m.step_mint(g),
                5 => m.step_deposit(g, false),
                6 => m.step_assert(g),
                _ => m.step_unknown_call(g),
            };
        }
        // clean-up: every bucket and the whole worktop end in an account (owner deposit, never refused)
        for b in m.live_buckets() {
            if g.bool() {
                let (r, c) = m.buckets[b].take().unwrap();
                m.ins.push(InstructionV2::ReturnToWorktop(ReturnToWorktop { bucket_id: ManifestBucket(b as u32) }));
                m.wt_add(r, &c);
            } else {
                let i = g.index(3);
                let (r, c) = m.buckets[b].take().unwrap();
                let a = m.account(i);
                m.call(a, ACCOUNT_DEPOSIT_IDENT, (ManifestBucket(b as u32),));
                m.acct_add(i, r, &c);
                m.log.push(format!("A{}.deposit(b{})", i + 1, b));
            }
        }
        {
            let i = g.index(3);
            let a = m.account(i);
            m.call(a, ACCOUNT_DEPOSIT_BATCH_IDENT, (ManifestExpression::EntireWorktop,));
            let sent: Vec<(ResourceAddress, Content)> = m.wt.iter().map(|(r, c)| (*r, c.clone())).collect();
            for (r, c) in sent {
                m.acct_add(i, r, &c);
            }
            m.wt.clear();
            m.log.push(format!("A{}.deposit_batch(ENTIRE_WORKTOP)", i + 1));
        }
        let manifest = TransactionManifestV2 { instructions: m.ins.clone(), blobs: Default::default(), children: Default::default(), object_names: Default::default() };
        let log = m.log.join(" ; ");
        let (model_acct, fee_locked, unknown_calls, refunds, v2_assertions, minted) = (m.acct.clone(), m.fee_locked.clone(), m.unknown_calls, m.refunds, m.v2_assertions, m.minted.clone());
        drop(m);

        // ---- the analyser ----
        let analysed = vf_core::catch(|| {
            let interpreter = StaticManifestInterpreter::new(ValidationRuleset::all(), &manifest);
            let mut visitor = StaticResourceMovementsVisitor::new(false);
            interpreter.validate_and_apply_visitor(&mut visitor)?;
            visitor.output().resolve_account_changes()
        });
        let (net_w, net_d) = match analysed {
            Err(p) => return Outcome::fail(format!("static resource movement analysis panics: {}", p.rsplit(" @ ").next().unwrap_or("").trim_start_matches("/repo/")), format!("{}\n{}", p, log)),
            Ok(Err(e)) => {
                g.label("analyser rejects the manifest");
                g.label(match e {
                    StaticResourceMovementsError::AssertionCannotBeSatisfied => "rejects: AssertionCannotBeSatisfied",
                    StaticResourceMovementsError::TakeCannotBeSatisfied => "rejects: TakeCannotBeSatisfied",
                    StaticResourceMovementsError::WorktopEndsWithKnownResourcesPresent => "rejects: WorktopEndsWithKnownResourcesPresent",
                    StaticResourceMovementsError::ManifestValidationError(_) => "rejects: ManifestValidationError",
                    StaticResourceMovementsError::ConstraintBoundsInvalid => "rejects: ConstraintBoundsInvalid",
                    StaticResourceMovementsError::BoundsInvalidForResourceKind => "rejects: BoundsInvalidForResourceKind",
                    _ => "rejects: other",
                });
                // does a manifest the analyser declares unsatisfiable commit nevertheless? (observation only)
                let sure_failure = matches!(e, StaticResourceMovementsError::AssertionCannotBeSatisfied | StaticResourceMovementsError::TakeCannotBeSatisfied);
                let run = w.run_any(manifest, all_badges(w));
                if let Some(p) = &run.panic {
                    return Outcome::fail("host panic executing a C38 manifest", format!("{}\n{}", p, log));
                }
                if sure_failure && run.is_success() {
                    // over-rejection: outside the property (it speaks of manifests the analyser accepts);
                    // counted and shown, not failed
                    g.label("observation: analyser calls the manifest unsatisfiable, yet it commits");
                    g.sample(|| format!("UNSATISFIABLE-BUT-COMMITS {:?}: {}", e, log));
                    return Outcome::Pass;
                }
                g.sample(|| format!("REJECTED {:?}: {}", e, log));
                return Outcome::Pass;
            }
            Ok(Ok(x)) => x,
        };
        g.label("analyser accepts the manifest");

        // ---- execution ----
        let proofs = all_badges(w);
        let run = w.run_any(manifest, proofs);
        if let Some(p) = &run.panic {
            return Outcome::fail("host panic executing a C38 manifest", format!("{}\n{}", p, log));
        }
        if !run.is_success() {
            g.label("execution did not commit successfully (not judged)");
            g.sample(|| format!("FAILED {}: {}", run.outcome_string().chars().take(300).collect::<String>(), log));
            return Outcome::Pass;
        }
        g.label("committed success");
        let after = Totals::scan(w.db());
        let mut after_hold: BTreeMap<(usize, ResourceAddress), (Decimal, BTreeSet<Id>)> = BTreeMap::new();
        for i in 0..3 {
            for r in &res {
                let a = w.accounts[i + 1].address;
                after_hold.insert((i, r.address), holding(w, &after, a, r.address));
            }
        }
        // every id the manifest could name: held before by one of the accounts, or minted
        let mut all_ids: BTreeMap<ResourceAddress, BTreeSet<Id>> = BTreeMap::new();
        for ((_, r), (_, ids)) in before_hold.iter().chain(after_hold.iter()) {
            all_ids.entry(*r).or_default().extend(ids.iter().cloned());
        }
        for (r, id) in &minted {
            all_ids.entry(*r).or_default().insert(id.clone());
        }
        let mut inexact = false;
        let mut accounts_involved = BTreeSet::new();
        let mut model_mismatch = false;
        for i in 0..3 {
            let a = w.accounts[i + 1].address;
            let wd_map = match net_w.get(&a) {
                Some(nw) => match read_net_withdraws(nw, &res, &all_ids) {
                    Ok(m) => m,
                    Err(e) => return Outcome::fail("HARNESS: cannot read NetWithdraws", format!("{}\n{}", e, log)),
                },
                None => BTreeMap::new(),
            };
            let dep = net_d.get(&a);
            if dep.is_some() || !wd_map.is_empty() {
                accounts_involved.insert(i);
            }
            for r in &res {
                let (b_amt, b_ids) = before_hold[&(i, r.address)].clone();
                let (a_amt, a_ids) = after_hold[&(i, r.address)].clone();
                // harness self-check of the concrete model
                let model_ok = match &model_acct[i][&r.address] {
                    Content::F(d) => r.address == XRD || *d == a_amt,
                    Content::N(s) => *s == a_ids,
                };
                if !model_ok {
                    model_mismatch = true;
                }
                let wd = wd_map.get(&r.address).cloned().unwrap_or_default();
                let bounds = match dep {
                    Some(d) => d.bounds_for(r.address),
                    None => ResourceBounds::zero(),
                };
                let (lower, upper) = bounds.numeric_bounds();
                if !bounds.is_zero() && !(bounds.is_exact_amount()) {
                    inexact = true;
                }
                let ctx = || {
                    format!(
                        "account A{} resource {}: before {} {:?}, after {} {:?}; reported withdrawn {:?}; reported deposit bounds {:?}\n{}",
                        i + 1,
                        r.name,
                        b_amt,
                        b_ids.iter().map(|x| x.to_string()).collect::<Vec<_>>(),
                        a_amt,
                        a_ids.iter().map(|x| x.to_string()).collect::<Vec<_>>(),
                        wd,
                        bounds,
                        log
                    )
                };
                // amounts: before - W + [dl, du] ∋ after   (fee locks may additionally lower XRD)
                let base = b_amt.checked_sub(wd.amount).unwrap();
                let lo = match lower {
                    LowerBound::NonZero => base,
                    LowerBound::Inclusive(d) => base.checked_add(d).unwrap(),
                };
                let slack = if r.address == XRD { fee_locked[i] } else { Decimal::ZERO };
                let too_low = a_amt < lo.checked_sub(slack).unwrap() || (matches!(lower, LowerBound::NonZero) && slack.is_zero() && a_amt <= base);
                if too_low {
                    if wd.amount.is_zero() {
                        return Outcome::fail("an account ends with less than before plus the reported minimal deposit although no withdrawal is reported for it", ctx());
                    }
                    return Outcome::fail("an account ends with less than the reported withdrawal and minimal deposit allow", ctx());
                }
                if let UpperBound::Inclusive(d) = upper {
                    if a_amt > base.checked_add(d).unwrap() {
                        return Outcome::fail("an account ends with more than the reported maximal deposit allows", ctx());
                    }
                }
                if r.divisibility.is_none() {
                    let lost: BTreeSet<Id> = b_ids.difference(&a_ids).cloned().collect();
                    let gained: BTreeSet<Id> = a_ids.difference(&b_ids).cloned().collect();
                    if !wd.known.iter().all(|x| !a_ids.contains(x)) {
                        return Outcome::fail("a non-fungible reported as certainly withdrawn is still in the account", ctx());
                    }
                    if lost.iter().filter(|x| !wd.known.contains(*x)).count() > wd.unknown {
                        return Outcome::fail("more non-fungibles left the account than the reported withdrawal covers", ctx());
                    }
                    if !bounds.required_ids().iter().all(|x| a_ids.contains(x)) {
                        return Outcome::fail("a non-fungible reported as certainly deposited is not in the account", ctx());
                    }
                    if let AllowedIds::Allowlist(list) = bounds.allowed_ids() {
                        if !gained.iter().all(|x| list.contains(x)) {
                            return Outcome::fail("a non-fungible outside the reported allow-list arrived in the account", ctx());
                        }
                    }
                }
            }
        }
        if model_mismatch {
            g.label("harness model and ledger differ (bounds still judged on the ledger)");
        }
        if unknown_calls > 0 {
            g.label("has unknown component call");
        }
        if refunds > 0 {
            g.label("has a real refund");
        }
        if v2_assertions > 0 {
            g.label("has V2 assertions");
        }
        if inexact {
            g.label("has a deposit bound that is not exact");
        }
        if accounts_involved.len() >= 2 {
            g.label(">= 2 accounts involved");
        }
        if accounts_involved.len() >= 2 && inexact {
            g.nontrivial();
        }
        g.sample(|| format!("{}\nwithdraws {:?}\ndeposits {:?}", log, net_w, net_d));
        Outcome::Pass
    })
}

pub fn check() -> Check {
    Check::new(
        "C38",
        "Static resource movement bounds are sound",
        "V2 manifests of 2-15 steps over three accounts (one refuses deposits of two resources) and seven resources (fungible with divisibility 18 / 0 / 6, XRD, non-fungible with integer / string / bytes ids): account withdraw, withdraw_non_fungibles, lock_fee_and_withdraw(_non_fungibles), the six deposit methods with one bucket, several buckets or ENTIRE_WORKTOP, take by amount / ids / all, return, burn, mint, calls of an unknown component that returns, burns or adds resources, V1 worktop assertions, ASSERT_WORKTOP_RESOURCES_ONLY / INCLUDE, ASSERT_NEXT_CALL_RETURNS_ONLY / INCLUDE and ASSERT_BUCKET_CONTENTS with exact / at-least / non-zero / general constraints that hold for the concrete state the generator tracks; fee from the faucet. Manifests the analyser (StaticResourceMovementsVisitor + resolve_account_changes) rejects are counted (and must not commit when it calls them unsatisfiable). For every committed success the net change of every account and resource, read from raw vault substates before and after, must satisfy the reported withdrawals and deposit bounds (amounts, certain ids, allow-lists); no reported withdrawal => no decrease. Non-trivial = at least two accounts involved and a deposit bound that is not exact. Distinct = distinct decoded choice sequences.",
    )
    .assume("indirect movements the analyser does not claim to see (Account::burn, deposits made by other components into an account) are not generated; XRD of an account that locks a fee may be lower by at most the locked amount")
    .assume("NetWithdraws exposes no accessor: its Debug rendering is read and the reading is verified by rebuilding the value through its public constructors and comparing with ==")
    .part(Part::new("manifests", 3000, 200_000, 4096, case))
    .min_nontrivial_pct(10.0)
}
