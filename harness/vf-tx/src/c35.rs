//! C35 Subintent structure validation accepts exactly well-formed trees.

use crate::refhash;
use crate::txgen::*;
use radix_common::prelude::*;
use radix_transactions::errors::*;
use radix_transactions::manifest::*;
use radix_transactions::prelude::*;
use radix_transactions::validation::*;
use std::collections::{BTreeMap, BTreeSet};
use vf_core::{catch, Check, Gen, Outcome, Part};

// ---- mock intents ---------------------------------------------------------------------------

#[derive(Clone, Debug)]
pub struct MockIntent {
    pub hash: IntentHash,
    pub children: Vec<SubintentHash>,
    /// yields to each child, aligned with `children`
    pub child_yields: Vec<usize>,
    pub parent_yields: usize,
}

impl IntentStructure for MockIntent {
    fn intent_hash(&self) -> IntentHash {
        self.hash
    }
    fn children(&self) -> impl ExactSizeIterator<Item = SubintentHash> {
        self.children.iter().copied()
    }
    fn validate_intent(&self, _validator: &TransactionValidator, _aggregation: &mut AcrossIntentAggregation) -> Result<ManifestYieldSummary, IntentValidationError> {
        // collected into whatever map type the field has (later entries win for a repeated child)
        Ok(ManifestYieldSummary { parent_yields: self.parent_yields, child_yields: self.children.iter().copied().zip(self.child_yields.iter().copied()).collect() })
    }
}

impl HasSubintentHash for MockIntent {
    fn subintent_hash(&self) -> SubintentHash {
        match self.hash {
            IntentHash::Subintent(h) => h,
            IntentHash::Transaction(h) => SubintentHash::from_hash(h.0),
        }
    }
}

#[derive(Clone, Debug)]
pub struct MockTree {
    pub root: MockIntent,
    pub subs: Vec<MockIntent>,
}

impl IntentTreeStructure for MockTree {
    type RootIntentStructure = MockIntent;
    type SubintentStructure = MockIntent;
    fn root(&self) -> &MockIntent {
        &self.root
    }
    fn non_root_subintents(&self) -> impl ExactSizeIterator<Item = &MockIntent> {
        self.subs.iter()
    }
}

// ---- graph reference ------------------------------------------------------------------------

#[derive(Clone, Copy, Debug, PartialEq, Eq, PartialOrd, Ord)]
pub enum Clause {
    Duplicate,
    MissingChild,
    InDegree,
    Unreachable,
    Depth,
    Yields,
}

impl Clause {
    fn label(&self) -> &'static str {
        match self {
            Clause::Duplicate => "violates: distinct",
            Clause::MissingChild => "violates: declared child present",
            Clause::InDegree => "violates: exactly one parent",
            Clause::Unreachable => "violates: reachable from root",
            Clause::Depth => "violates: depth limit",
            Clause::Yields => "violates: yield counts match",
        }
    }
}

/// A tree given by hashes only: (children with the parent's yield count to each) and own yields to parent.
pub struct Node {
    pub hash: Hash,
    pub children: Vec<(Hash, usize)>,
    pub parent_yields: usize,
}

/// Every violated clause of the statement (empty = well-formed); also the maximal depth reached.
/// `depth_limit` = None: the root itself (a subintent under `max_subintent_depth` 0) is already
/// beyond the maximal depth, so no tree is within it.
pub fn violated(root: &Node, subs: &[Node], depth_limit: Option<usize>) -> (BTreeSet<Clause>, usize) {
    let mut v = BTreeSet::new();
    let mut index: BTreeMap<Hash, usize> = BTreeMap::new();
    for (i, s) in subs.iter().enumerate() {
        if index.insert(s.hash, i).is_some() {
            v.insert(Clause::Duplicate);
        }
    }
    let mut indeg = vec![0usize; subs.len()];
    let all = std::iter::once(root).chain(subs.iter());
    for n in all {
        for (c, y) in &n.children {
            match index.get(c) {
                None => {
                    v.insert(Clause::MissingChild);
                }
                Some(i) => {
                    indeg[*i] += 1;
                    if subs[*i].parent_yields != *y {
                        v.insert(Clause::Yields);
                    }
                }
            }
        }
    }
    // a duplicated subintent shares its hash's slot: the copies that are not indexed count as parentless
    if indeg.iter().enumerate().any(|(i, d)| *d != 1 && index.get(&subs[i].hash) == Some(&i)) {
        v.insert(Clause::InDegree);
    }
    // reachability / depth by breadth-first search over existing children
    let mut depth: Vec<Option<usize>> = vec![None; subs.len()];
    let mut frontier: Vec<usize> = Vec::new();
    for (c, _) in &root.children {
        if let Some(i) = index.get(c) {
            if depth[*i].is_none() {
                depth[*i] = Some(1);
                frontier.push(*i);
            }
        }
    }
    let mut max_depth = 0;
    while let Some(i) = frontier.pop() {
        let d = depth[i].unwrap();
        max_depth = max_depth.max(d);
        for (c, _) in &subs[i].children {
            if let Some(j) = index.get(c) {
                if depth[*j].is_none() {
                    depth[*j] = Some(d + 1);
                    frontier.push(*j);
                }
            }
        }
    }
    // (depth-first order may assign a non-minimal depth when a node has two parents; that case is
    // already a violation of the one-parent clause, so only the tree case matters for the limit)
    if (0..subs.len()).any(|i| depth[i].is_none() && index.get(&subs[i].hash) == Some(&i)) {
        v.insert(Clause::Unreachable);
    }
    match depth_limit {
        Some(l) if max_depth <= l => {}
        _ => {
            v.insert(Clause::Depth);
        }
    }
    (v, max_depth)
}

// ---- mock generation ------------------------------------------------------------------------

fn mk_hash(i: usize, salt: u8) -> Hash {
    let mut b = [salt; 32];
    b[0] = 0x80 | salt; // never all-zero
    b[30] = (i >> 8) as u8;
    b[31] = i as u8;
    Hash(b)
}

struct Draft {
    root_is_subintent: bool,
    root: Node,
    subs: Vec<Node>,
}

fn gen_draft(g: &mut Gen, max_depth_cfg: usize) -> (Draft, Vec<&'static str>) {
    let root_is_subintent = g.chance(1, 3);
    let limit = if root_is_subintent { max_depth_cfg.saturating_sub(1) } else { max_depth_cfg };
    let salt = 1 + g.below(3) as u8;
    let n = g.len(8);
    // a well-formed tree first; chains reach around the depth limit
    let mut parent: Vec<Option<usize>> = Vec::new();
    let mut depth: Vec<usize> = Vec::new();
    let deep_bias = g.bool();
    let cap = limit + if g.chance(1, 3) { 2 } else { 0 };
    for i in 0..n {
        let mut cands: Vec<Option<usize>> = vec![None];
        for j in 0..i {
            if depth[j] < cap.max(1) {
                cands.push(Some(j));
            }
        }
        let p = if deep_bias && g.chance(2, 3) { *cands.last().unwrap() } else { *g.pick(&cands) };
        let d = match p {
            None => 1,
            Some(j) => depth[j] + 1,
        };
        if cap == 0 {
            // no subintent may exist within the cap; keep a single level anyway (it will violate the limit)
        }
        parent.push(p);
        depth.push(d);
    }
    let yields: Vec<usize> = (0..n).map(|_| 1 + g.weighted(&[5, 2, 1])).collect();
    let mut subs: Vec<Node> = (0..n).map(|i| Node { hash: mk_hash(i + 1, salt), children: vec![], parent_yields: yields[i] }).collect();
    let mut root = Node { hash: mk_hash(0, salt ^ 0x40), children: vec![], parent_yields: g.below(2) as usize };
    for i in 0..n {
        let entry = (subs[i].hash, yields[i]);
        match parent[i] {
            None => root.children.push(entry),
            Some(j) => subs[j].children.push(entry),
        }
    }
    let mut d = Draft { root_is_subintent, root, subs };
    // mutations
    let mut applied = Vec::new();
    let n_mut = g.weighted(&[3, 5, 2]);
    for _ in 0..n_mut {
        let n = d.subs.len();
        let m = match g.weighted(&[2, 2, 1, 2, 1, 2, 2, 2, 2, 1]) {
            0 if n > 0 => {
                // the same subintent twice in the list
                let i = g.index(n);
                let copy = Node { hash: d.subs[i].hash, children: d.subs[i].children.clone(), parent_yields: d.subs[i].parent_yields };
                let at = g.index(n + 1);
                d.subs.insert(at, copy);
                "mutation: duplicate subintent"
            }
            1 if n > 0 => {
                // a second parent for an existing subintent (possibly a descendant: reachable cycle)
                let i = g.index(n);
                let entry = (d.subs[i].hash, d.subs[i].parent_yields);
                let p = g.index(n + 1);
                if p == n {
                    d.root.children.push(entry);
                } else {
                    d.subs[p].children.push(entry);
                }
                "mutation: second parent"
            }
            2 if n > 0 => {
                // the same child twice in one child list
                let i = g.index(n + 1);
                let node = if i == n { &mut d.root } else { &mut d.subs[i] };
                if let Some(e) = node.children.first().cloned() {
                    node.children.push(e);
                    "mutation: child listed twice"
                } else {
                    "mutation: none"
                }
            }
            3 => {
                // unreachable cycle of k nodes, each with exactly one parent
                let k = 1 + g.below(3) as usize;
                let base = 100 + d.subs.len();
                for j in 0..k {
                    let next = mk_hash(base + (j + 1) % k, salt);
                    d.subs.push(Node { hash: mk_hash(base + j, salt), children: vec![(next, 1)], parent_yields: 1 });
                }
                "mutation: unreachable cycle"
            }
            4 => {
                // island: a subintent nobody declares
                let h = mk_hash(200 + d.subs.len(), salt);
                let at = g.index(d.subs.len() + 1);
                d.subs.insert(at, Node { hash: h, children: vec![], parent_yields: 1 });
                "mutation: parentless subintent"
            }
            5 if n > 0 => {
                // declared but missing: drop a subintent from the list (its parent still declares it)
                let i = g.index(n);
                d.subs.remove(i);
                "mutation: subintent removed from list"
            }
            6 => {
                // declared but missing: an unknown hash among the children
                let i = g.index(n + 1);
                let node = if i == n { &mut d.root } else { &mut d.subs[i] };
                node.children.push((mk_hash(300 + n, salt), 1));
                "mutation: unknown child declared"
            }
            7 if n > 0 => {
                // yield counts differ by one
                let i = g.index(n);
                if g.bool() {
                    d.subs[i].parent_yields += 1;
                } else {
                    let h = d.subs[i].hash;
                    for node in std::iter::once(&mut d.root).chain(d.subs.iter_mut()) {
                        for e in node.children.iter_mut() {
                            if e.0 == h {
                                e.1 += 1;
                            }
                        }
                    }
                }
                "mutation: yield count off by one"
            }
            8 if n > 1 => {
                let i = g.index(n);
                let j = g.index(n);
                d.subs.swap(i, j);
                "mutation: list order"
            }
            _ => {
                // self loop
                let h = mk_hash(400 + n, salt);
                d.subs.push(Node { hash: h, children: vec![(h, 1)], parent_yields: 1 });
                "mutation: self loop"
            }
        };
        applied.push(m);
    }
    (d, applied)
}

fn to_mock(d: &Draft) -> MockTree {
    let conv = |n: &Node, root: bool| MockIntent {
        hash: if root && !d.root_is_subintent { IntentHash::Transaction(TransactionIntentHash::from_hash(n.hash)) } else { IntentHash::Subintent(SubintentHash::from_hash(n.hash)) },
        children: n.children.iter().map(|(h, _)| SubintentHash::from_hash(*h)).collect(),
        child_yields: n.children.iter().map(|(_, y)| *y).collect(),
        parent_yields: n.parent_yields,
    };
    MockTree { root: conv(&d.root, true), subs: d.subs.iter().map(|s| conv(s, false)).collect() }
}

fn render_nodes(root: &Node, subs: &[Node]) -> String {
    let short = |h: &Hash| format!("{:02x}{:02x}{:02x}", h.0[0], h.0[30], h.0[31]);
    let one = |n: &Node| format!("{}(yields {})->[{}]", short(&n.hash), n.parent_yields, n.children.iter().map(|(c, y)| format!("{}x{}", short(c), y)).collect::<Vec<_>>().join(","));
    format!("root {} | subintents {}", one(root), subs.iter().map(one).collect::<Vec<_>>().join(" "))
}

fn mock_case(g: &mut Gen) -> Outcome {
    let max_depth_cfg = g.below(5) as usize; // 0..=4 (3 is the live value, 0 the babylon value)
    let cfg = TransactionValidationConfig { max_subintent_depth: max_depth_cfg, ..TransactionValidationConfig::latest() };
    let validator = TransactionValidator::new_with_static_config(cfg, NETWORK);
    let (d, applied) = gen_draft(g, max_depth_cfg);
    // statement-level reading: a partial transaction's root subintent sits at depth >= 1 of any
    // transaction it ends up in, so its descendants get max_subintent_depth - 1 levels; with
    // max_subintent_depth = 0 the root subintent itself is already too deep (limit = None)
    let limit: Option<usize> = if d.root_is_subintent { max_depth_cfg.checked_sub(1) } else { Some(max_depth_cfg) };
    let (viol, max_depth) = violated(&d.root, &d.subs, limit);
    if max_depth_cfg == 0 {
        g.label(if d.root_is_subintent { "max_subintent_depth 0, subintent root" } else { "max_subintent_depth 0, transaction root" });
    }
    for m in &applied {
        g.label(m);
    }
    for c in &viol {
        g.label(c.label());
    }
    g.label(if d.root_is_subintent { "root: subintent" } else { "root: transaction intent" });
    g.label(if viol.is_empty() { "reference: well-formed" } else { "reference: ill-formed" });
    if d.subs.len() >= 3 && (viol.len() == 1 || (viol.is_empty() && Some(max_depth) == limit)) {
        g.nontrivial();
    }
    if viol.is_empty() && Some(max_depth) == limit && max_depth > 0 {
        g.label("depth exactly at the limit");
    }
    if viol.len() == 1 && viol.contains(&Clause::Depth) && limit.map(|l| max_depth == l + 1).unwrap_or(false) {
        g.label("depth one past the limit");
    }
    g.sample(|| format!("depth limit {:?} (config {}), reference violations {:?}: {}", limit, max_depth_cfg, viol, render_nodes(&d.root, &d.subs)));
    let tree = to_mock(&d);
    let got = catch(|| validator.validate_intents_and_structure(&tree).map(|_| ()).map_err(|e| format!("{:?}", e)));
    let detail = || format!("depth limit {:?} (max_subintent_depth {}), root is subintent: {}, max depth {}, mutations {:?}\n{}", limit, max_depth_cfg, d.root_is_subintent, max_depth, applied, render_nodes(&d.root, &d.subs));
    match got {
        Err(p) if max_depth_cfg == 0 && d.root_is_subintent => Outcome::fail(PANIC_DEPTH0, format!("{}\n{}", p, detail())),
        Err(p) => Outcome::fail("validate_intents_and_structure panics", format!("{}\n{}", p, detail())),
        Ok(Ok(())) => {
            if viol.is_empty() {
                Outcome::Pass
            } else {
                Outcome::fail(
                    format!("ill-formed subintent structure is accepted ({})", viol.iter().map(|c| c.label()).collect::<Vec<_>>().join(" + ")),
                    format!("violated clauses {:?}\n{}", viol, detail()),
                )
            }
        }
        Ok(Err(e)) => {
            if viol.is_empty() {
                Outcome::fail("well-formed subintent tree is rejected", format!("error {}\n{}", e, detail()))
            } else {
                Outcome::Pass
            }
        }
    }
}

// ---- real prepared transactions -------------------------------------------------------------

fn count_yields(core: &IntentCoreV2) -> (usize, Vec<usize>) {
    let mut parent = 0;
    let mut per_child = vec![0usize; core.children.children.len()];
    for i in &core.instructions.0 {
        match i {
            InstructionV2::YieldToParent(_) => parent += 1,
            InstructionV2::YieldToChild(y) => {
                if let Some(c) = per_child.get_mut(y.child_index.0 as usize) {
                    *c += 1;
                }
            }
            _ => {}
        }
    }
    (parent, per_child)
}

fn node_of(core: &IntentCoreV2, hash: Hash) -> Node {
    let (parent_yields, per_child) = count_yields(core);
    Node { hash, children: core.children.children.iter().zip(per_child).map(|(c, y)| (c.hash.0, y)).collect(), parent_yields }
}

fn real_case(g: &mut Gen) -> Outcome {
    let o = Opts { max_body: 1, max_signers: 0, max_depth: 4, ..Opts::default() };
    let validator = TransactionValidator::new_with_static_config(TransactionValidationConfig::latest(), NETWORK);
    let limit = 3;
    let b = gen_v2(g, &o);
    let mut intent = b.tx.signed_transaction_intent.transaction_intent.clone();
    let n = intent.non_root_subintents.0.len();
    let mut applied: Vec<&'static str> = Vec::new();
    let n_mut = g.weighted(&[3, 5, 1]);
    for _ in 0..n_mut {
        let subs = &mut intent.non_root_subintents.0;
        let n = subs.len();
        let m = match g.weighted(&[2, 2, 2, 2, 2, 2]) {
            0 if n > 0 => {
                let i = g.index(n);
                let copy = subs[i].clone();
                subs.insert(g.index(n + 1), copy);
                "mutation: duplicate subintent"
            }
            1 if n > 0 => {
                subs.remove(g.index(n));
                "mutation: subintent removed from list"
            }
            2 => {
                // an unrelated, valid leaf subintent nobody declares
                let extra = gen_partial(g, &Opts { max_subintents: 0, max_body: 1, max_signers: 0, ..Opts::default() });
                subs.push(extra.tx.partial_transaction.root_subintent);
                "mutation: parentless subintent"
            }
            3 if n > 0 => {
                // one more YIELD_TO_PARENT at the start of a subintent
                let i = g.index(n);
                subs[i].intent_core.instructions.0.insert(0, InstructionV2::YieldToParent(YieldToParent::empty()));
                "mutation: yield count off by one"
            }
            4 if n > 1 => {
                let i = g.index(n);
                let j = g.index(n);
                subs.swap(i, j);
                "mutation: list order"
            }
            5 => {
                // one more YIELD_TO_CHILD in the root (if it has a child)
                if !intent.root_intent_core.children.children.is_empty() {
                    intent.root_intent_core.instructions.0.push(InstructionV2::YieldToChild(YieldToChild::empty(0)));
                    "mutation: yield count off by one"
                } else {
                    "mutation: none"
                }
            }
            _ => "mutation: none",
        };
        applied.push(m);
    }
    let _ = n;
    for m in &applied {
        g.label(m);
    }
    // NB: altering a subintent changes its hash, so its parent's declaration goes stale (missing
    // child + parentless subintent): the reference computes that from the model like everything else.
    let (_, sub_hashes) = refhash::v2_intent(&intent);
    let root = node_of(&intent.root_intent_core, Hash([0xEE; 32]));
    let subs: Vec<Node> = intent.non_root_subintents.0.iter().zip(sub_hashes.iter()).map(|(s, h)| node_of(&s.intent_core, *h)).collect();
    let (viol, max_depth) = violated(&root, &subs, Some(limit));
    for c in &viol {
        g.label(c.label());
    }
    g.label(if viol.is_empty() { "reference: well-formed" } else { "reference: ill-formed" });
    if subs.len() >= 3 && (viol.len() == 1 || (viol.is_empty() && max_depth == limit)) {
        g.nontrivial();
    }
    g.sample(|| format!("real prepared V2 intent tree, mutations {:?}, reference violations {:?}: {}", applied, viol, render_nodes(&root, &subs)));
    let prepared = match catch(|| intent.prepare(&PreparationSettings::latest())) {
        Ok(Ok(p)) => p,
        Ok(Err(e)) => return Outcome::fail("prepare rejects a generated transaction intent", format!("{:?}", e)),
        Err(p) => return Outcome::fail("prepare panics", p),
    };
    let got = catch(|| validator.validate_intents_and_structure(&prepared).map(|_| ()));
    let detail = || format!("mutations {:?}\n{}\nintent payload {}", applied, render_nodes(&root, &subs), hex::encode(intent.to_raw().unwrap().as_slice()));
    match got {
        Err(p) => Outcome::fail("validate_intents_and_structure panics", format!("{}\n{}", p, detail())),
        Ok(Ok(())) => {
            if viol.is_empty() {
                Outcome::Pass
            } else {
                Outcome::fail(
                    format!("ill-formed subintent structure is accepted ({})", viol.iter().map(|c| c.label()).collect::<Vec<_>>().join(" + ")),
                    format!("violated clauses {:?}\n{}", viol, detail()),
                )
            }
        }
        Ok(Err(e)) => {
            if viol.is_empty() {
                Outcome::fail("well-formed subintent tree is rejected", format!("error {:?}\n{}", e, detail()))
            } else {
                // the rejection must be a structure error (every intent is individually valid)
                match e {
                    TransactionValidationError::SubintentStructureError(..) => Outcome::Pass,
                    other => Outcome::fail("ill-formed tree of individually valid intents is rejected for an unrelated reason", format!("error {:?}\n{}", other, detail())),
                }
            }
        }
    }
}

pub const PANIC_DEPTH0: &str = "structure validation panics: max_subintent_depth 0 with a subintent root";

/// Real signed partial transactions (subintent root, nesting up to 3 below the root) validated
/// under max_subintent_depth 0..=3 through the public entry point.
fn real_partial_case(g: &mut Gen) -> Outcome {
    let max_depth_cfg = g.below(4) as usize;
    let cfg = TransactionValidationConfig { max_subintent_depth: max_depth_cfg, ..TransactionValidationConfig::latest() };
    let validator = TransactionValidator::new_with_static_config(cfg, NETWORK);
    let o = Opts { max_body: 1, max_signers: 1, max_depth: 4, ..Opts::default() };
    let b = gen_partial(g, &o);
    let p = &b.tx.partial_transaction;
    let (rh, sub_hashes) = refhash::partial(p);
    let root = node_of(&p.root_subintent.intent_core, rh);
    let subs: Vec<Node> = p.non_root_subintents.0.iter().zip(sub_hashes.iter()).map(|(s, h)| node_of(&s.intent_core, *h)).collect();
    let limit = max_depth_cfg.checked_sub(1);
    // the root subintent's own YIELD_TO_PARENT count has no counterpart inside a partial transaction
    let (viol, max_depth) = violated(&root, &subs, limit);
    for c in &viol {
        g.label(c.label());
    }
    g.label("root: subintent");
    if max_depth_cfg == 0 {
        g.label("max_subintent_depth 0, subintent root");
    }
    g.label(if viol.is_empty() { "reference: well-formed" } else { "reference: ill-formed" });
    if limit.map(|l| max_depth == l || max_depth == l + 1).unwrap_or(true) {
        g.nontrivial();
    }
    g.sample(|| format!("real signed partial transaction under max_subintent_depth {}, reference violations {:?}: {}", max_depth_cfg, viol, render_nodes(&root, &subs)));
    let tx = b.tx.clone();
    let got = catch(|| tx.prepare_and_validate(&validator).map(|_| ()));
    let detail = || format!("max_subintent_depth {}, max depth below the root {}\n{}\npayload {}", max_depth_cfg, max_depth, render_nodes(&root, &subs), hex::encode(b.tx.to_raw().unwrap().as_slice()));
    match got {
        Err(p) if max_depth_cfg == 0 => Outcome::fail(PANIC_DEPTH0, format!("{}\n{}", p, detail())),
        Err(p) => Outcome::fail("validation of a signed partial transaction panics", format!("{}\n{}", p, detail())),
        Ok(Ok(())) => {
            if viol.is_empty() {
                Outcome::Pass
            } else {
                Outcome::fail(
                    format!("ill-formed subintent structure is accepted ({})", viol.iter().map(|c| c.label()).collect::<Vec<_>>().join(" + ")),
                    format!("violated clauses {:?}\n{}", viol, detail()),
                )
            }
        }
        Ok(Err(e)) => {
            if viol.is_empty() {
                Outcome::fail("well-formed subintent tree is rejected", format!("error {:?}\n{}", e, detail()))
            } else {
                match e {
                    TransactionValidationError::SubintentStructureError(..) => Outcome::Pass,
                    other => Outcome::fail("ill-formed tree of individually valid intents is rejected for an unrelated reason", format!("error {:?}\n{}", other, detail())),
                }
            }
        }
    }
}

pub fn check() -> Check {
    Check::new(
        "C35",
        "Subintent structure validation accepts exactly well-formed trees",
        "part mock: harness intents implementing the public IntentTreeStructure / IntentStructure traits (distinct non-zero hashes; root = transaction intent or subintent; max_subintent_depth 0-4) form a well-formed tree of 0-8 subintents with chains around the depth limit (limit-1 .. limit+2) and matching yield counts, then 0-2 mutations: duplicate subintent, second parent (incl. a descendant as parent = reachable cycle), child listed twice, unreachable cycle, self loop, parentless subintent, subintent removed from the list, unknown child declared, yield count off by one, list reordered. A graph reference decides well-formedness from the statement's clauses (distinct, every declared child present, in-degree exactly 1, reachable, depth <= limit, yields equal per edge); validate_intents_and_structure must accept iff well-formed (verdict only). part real: the same on prepared real V2 transaction intents (generated with nesting up to depth 4 against the live limit 3) with model-level mutations. part real_partial: real signed partial transactions (subintent root, nesting up to 3 below it) validated through prepare_and_validate under max_subintent_depth 0-3. Depth reading: a subintent root gets max_subintent_depth - 1 levels below it; with max_subintent_depth 0 a subintent root is itself too deep, so nothing with a subintent root is accepted. Non-trivial = >= 3 subintents and exactly one violated clause, or accepted with the deepest subintent exactly at the limit.",
    )
    .assume("the all-zero hash (the code's internal placeholder) and a non-root subintent carrying the root subintent's own hash are not generated: neither is a reachable hash relation")
    .part(Part::new("mock", 12_000_000, 400_000_000, 160, mock_case))
    .part(Part::new("real", 300_000, 10_000_000, 1500, real_case))
    .part(Part::new("real_partial", 100_000, 3_000_000, 1500, real_partial_case))
    .min_nontrivial_pct(10.0)
}
