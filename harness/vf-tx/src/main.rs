fn main() {
    vf_core::main_with(vf_tx::checks());
}
