//! C12 The transaction state cache (`Track`) reads back its own writes.
//!
//! A `Track` over an `InMemorySubstateDatabase` is driven through the `CommitableSubstateStore`
//! interface with generated operation sequences and compared with an overlay model written here:
//! base map + per-key `Option<value>` overlay + set of created nodes + the values force-written.
//!
//! Preconditions that real callers (kernel `SubstateIO`, `System::finalize_fees_for_commit`,
//! `update_transaction_tracker`) respect and the generator therefore respects:
//!  * `create_node` only with ids that are neither in the database nor touched before;
//!  * no operation on a node that does not exist (neither in the database nor created);
//!  * one key kind per partition, the matching `SubstateKeyContent` for scans and drains,
//!    `scan_sorted_substates` only on the sorted partition;
//!  * `force_write` only as `close_substate` issues it for a handle opened with
//!    `UNMODIFIED_BASE | FORCE_WRITE` (the only user is `FungibleVault::lock_fee`): the substate
//!    exists, belongs to a node that is not new, `get_tracked_substate_info` said `Unmodified` at
//!    open time, it was read (and possibly written) since, and nothing else touched it meanwhile;
//!  * after `revert_non_force_write_changes` only reads of substates the transaction had read
//!    before writing (what fee finalisation reads) and writes; no partition deletion (C07).

use blake2::digest::consts::U32;
use blake2::{Blake2b, Digest};
use radix_common::prelude::*;
use radix_engine_interface::prelude::IndexedScryptoValue;
use radix_engine::track::{CommitableSubstateStore, IOAccess, NodeSubstates, Track, TrackedSubstateInfo};
use radix_substate_store_impls::memory_db::InMemorySubstateDatabase;
use radix_substate_store_interface::db_key_mapper::{DatabaseKeyMapper, SpreadPrefixKeyMapper};
use radix_substate_store_interface::interface::*;
use std::collections::{BTreeMap, BTreeSet};
use vf_core::{catch, ensure, Check, Failure, Gen, Outcome, Part};

const NODES: usize = 4;
const FIELD: usize = 0;
const MAP: usize = 1;
const SORTED: usize = 2;
const NKEYS: [usize; 3] = [3, 6, 6];

/// (node, partition kind, key index)
type K = (usize, usize, usize);

fn node_id(n: usize) -> NodeId {
    let mut b = [0u8; NodeId::LENGTH];
    b[0] = EntityType::InternalGenericComponent as u8;
    b[1] = 0xA0 + n as u8;
    b[29] = n as u8;
    NodeId(b)
}
fn partition(p: usize) -> PartitionNumber {
    PartitionNumber(64 + p as u8)
}
fn sorted_parts(k: usize) -> ([u8; 2], Vec<u8>) {
    match k {
        0 => ([0, 0], vec![1]),
        1 => ([0, 0], vec![2]),
        2 => ([0, 1], vec![1]),
        3 => ([0, 1], vec![3, 3]),
        4 => ([1, 0], vec![]),
        _ => ([0xff, 0xff], vec![9]),
    }
}
fn map_bytes(k: usize) -> Vec<u8> {
    let mut v = vec![0x5c; 1 + k % 3];
    v.push(k as u8);
    v
}
fn key(p: usize, k: usize) -> SubstateKey {
    match p {
        FIELD => SubstateKey::Field(k as u8),
        MAP => SubstateKey::Map(map_bytes(k)),
        _ => SubstateKey::Sorted(sorted_parts(k)),
    }
}
fn key_index(p: usize, key_: &SubstateKey) -> Option<usize> {
    (0..NKEYS[p]).find(|k| &key(p, *k) == key_)
}

/// Database sort key of a sorted-partition key, from the documented layout (2 big-endian bytes,
/// then the first 20 bytes of blake2b-256 of the rest, then the rest) — not from the mapper.
fn ref_sorted_db_key(k: usize) -> Vec<u8> {
    let (prefix, rest) = sorted_parts(k);
    let mut h = Blake2b::<U32>::new();
    h.update(&rest);
    let digest = h.finalize();
    let mut out = prefix.to_vec();
    out.extend_from_slice(&digest[..20]);
    out.extend_from_slice(&rest);
    out
}

fn value_bytes(serial: u32, pad: usize) -> Vec<u8> {
    scrypto_encode(&(serial, vec![0xABu8; pad])).unwrap()
}

fn kname(k: &K) -> String {
    format!("n{}/{}{}", k.0, ["f", "m", "s"][k.1], k.2)
}

struct Model {
    in_db: [bool; NODES],
    base: BTreeMap<K, Vec<u8>>,
    overlay: BTreeMap<K, Option<Vec<u8>>>,
    created: BTreeSet<usize>,
    /// keys that were the target of a write (create / set / successful remove / drain)
    written: BTreeSet<K>,
    /// keys the Track holds an entry for
    tracked: BTreeSet<K>,
    /// keys of database nodes whose first touch was a write without a read
    blind: BTreeSet<K>,
    /// value (or absence) at the latest force_write
    forced: BTreeMap<K, Option<Vec<u8>>>,
}

impl Model {
    fn view(&self, k: &K) -> Option<Vec<u8>> {
        match self.overlay.get(k) {
            Some(o) => o.clone(),
            None => self.base.get(k).cloned(),
        }
    }
    fn usable(&self, n: usize) -> bool {
        self.in_db[n] || self.created.contains(&n)
    }
    fn present(&self, n: usize, p: usize) -> Vec<(usize, Vec<u8>)> {
        (0..NKEYS[p]).filter_map(|k| self.view(&(n, p, k)).map(|v| (k, v))).collect()
    }
    fn full_view(&self) -> BTreeMap<K, Vec<u8>> {
        let mut out = BTreeMap::new();
        for n in 0..NODES {
            for p in 0..3 {
                for k in 0..NKEYS[p] {
                    if let Some(v) = self.view(&(n, p, k)) {
                        out.insert((n, p, k), v);
                    }
                }
            }
        }
        out
    }
    fn mixed(&self, n: usize, p: usize) -> bool {
        let has_db = self.base.keys().any(|k| k.0 == n && k.1 == p);
        let has_tracked_write = self.overlay.keys().any(|k| k.0 == n && k.1 == p);
        has_db && has_tracked_write
    }
}

struct Io {
    calls: u64,
    fail_at: Option<u64>,
    failed: bool,
}
impl Io {
    fn hit(&mut self, _a: IOAccess) -> Result<(), ()> {
        self.calls += 1;
        if Some(self.calls) == self.fail_at {
            self.failed = true;
            Err(())
        } else {
            Ok(())
        }
    }
}

fn f(sig: &str, msg: String) -> Failure {
    Failure { signature: sig.to_string(), message: msg }
}

struct Ctx<'a> {
    track: Track<'a, InMemorySubstateDatabase>,
    m: Model,
    io: Io,
    log: Vec<String>,
    serial: u32,
    nontrivial_scans: u64,
    reverted: bool,
    /// keys written after the revert
    post_written: BTreeSet<K>,
}

enum Flow {
    Go,
    /// the IO callback failed: the transaction is over
    IoFailed,
}

impl<'a> Ctx<'a> {
    fn ctx(&self) -> String {
        let base: Vec<String> = self.m.base.iter().map(|(k, v)| format!("{}={}", kname(k), show(v))).collect();
        format!("database nodes {:?}, base {{{}}}, ops: {}", self.m.in_db, base.join(" "), self.log.join("; "))
    }
    fn fresh_value(&mut self, g: &mut Gen) -> Vec<u8> {
        self.serial += 1;
        let pad = match g.weighted(&[6, 3, 1]) {
            0 => 0,
            1 => g.below(12) as usize,
            _ => g.below(64) as usize,
        };
        value_bytes(self.serial, pad)
    }

    fn op_get(&mut self, k: K) -> Result<Flow, Failure> {
        let (nid, pn, sk) = (node_id(k.0), partition(k.1), key(k.1, k.2));
        let (track, io) = (&mut self.track, &mut self.io);
        let got = catch(|| track.get_substate(&nid, pn, &sk, &mut |a| io.hit(a)).map(|o| o.map(|v| v.as_slice().to_vec())))
            .map_err(|p| f("Track::get_substate panics", format!("{} then get({}): {}", self.ctx(), kname(&k), p)))?;
        self.log.push(format!("get({})", kname(&k)));
        let got = match got {
            Ok(v) => v,
            Err(()) => return Ok(Flow::IoFailed),
        };
        self.m.tracked.insert(k);
        let want = self.m.view(&k);
        if got != want {
            return Err(f(
                if self.reverted { "Track::get_substate after revert does not return database + force-written values" } else { "Track::get_substate does not return the overlaid view" },
                format!("{}: got {}, expected {}", self.ctx(), showo(&got), showo(&want)),
            ));
        }
        Ok(Flow::Go)
    }

    fn op_set(&mut self, k: K, v: Vec<u8>) -> Result<Flow, Failure> {
        let (nid, pn, sk) = (node_id(k.0), partition(k.1), key(k.1, k.2));
        let value = IndexedScryptoValue::from_vec(v.clone()).expect("generated value is valid SBOR");
        self.log.push(format!("set({},{})", kname(&k), show(&v)));
        if !self.m.tracked.contains(&k) && !self.m.created.contains(&k.0) {
            self.m.blind.insert(k);
        }
        self.m.tracked.insert(k);
        let (track, io) = (&mut self.track, &mut self.io);
        let r = catch(|| track.set_substate(nid, pn, sk, value, &mut |a| io.hit(a))).map_err(|p| f("Track::set_substate panics", format!("{}: {}", self.ctx(), p)))?;
        self.m.overlay.insert(k, Some(v));
        self.m.written.insert(k);
        if self.reverted {
            self.post_written.insert(k);
        }
        Ok(if r.is_err() { Flow::IoFailed } else { Flow::Go })
    }

    fn op_remove(&mut self, k: K) -> Result<Flow, Failure> {
        let (nid, pn, sk) = (node_id(k.0), partition(k.1), key(k.1, k.2));
        let (track, io) = (&mut self.track, &mut self.io);
        let got = catch(|| track.remove_substate(&nid, pn, &sk, &mut |a| io.hit(a)).map(|o| o.map(|v| v.as_slice().to_vec())))
            .map_err(|p| f("Track::remove_substate panics", format!("{} then remove({}): {}", self.ctx(), kname(&k), p)))?;
        self.log.push(format!("remove({})", kname(&k)));
        self.m.tracked.insert(k);
        let got = match got {
            Ok(v) => v,
            Err(()) => return Ok(Flow::IoFailed),
        };
        let want = self.m.view(&k);
        if got != want {
            return Err(f("Track::remove_substate does not return the overlaid value", format!("{}: got {}, expected {}", self.ctx(), showo(&got), showo(&want))));
        }
        if want.is_some() {
            self.m.written.insert(k);
        }
        self.m.overlay.insert(k, None);
        Ok(Flow::Go)
    }

    fn note_scan(&mut self, g: &mut Gen, n: usize, p: usize, limit: usize, present: usize) {
        if self.m.mixed(n, p) {
            g.label("scan/drain over database + tracked entries");
            if limit < present {
                self.nontrivial_scans += 1;
            }
        }
        if limit < present {
            g.label("limit < present");
        } else if limit == present {
            g.label("limit == present");
        } else {
            g.label("limit > present");
        }
    }

    fn op_scan_keys(&mut self, g: &mut Gen, n: usize, p: usize, limit: u32) -> Result<Flow, Failure> {
        let (nid, pn) = (node_id(n), partition(p));
        let (track, io) = (&mut self.track, &mut self.io);
        let got = catch(|| {
            if p == MAP {
                track.scan_keys::<MapKey, (), _>(&nid, pn, limit, &mut |a| io.hit(a))
            } else {
                track.scan_keys::<SortedKey, (), _>(&nid, pn, limit, &mut |a| io.hit(a))
            }
        })
        .map_err(|e| f("Track::scan_keys panics", format!("{} then scan_keys(n{},{},{}): {}", self.ctx(), n, p, limit, e)))?;
        self.log.push(format!("scan_keys(n{}/{},{})", n, ["f", "m", "s"][p], limit));
        let got = match got {
            Ok(v) => v,
            Err(()) => return Ok(Flow::IoFailed),
        };
        let present = self.m.present(n, p);
        self.note_scan(g, n, p, limit as usize, present.len());
        let want_len = present.len().min(limit as usize);
        let mut seen = BTreeSet::new();
        for sk in &got {
            let idx = key_index(p, sk);
            let ok = idx.map(|i| present.iter().any(|(k, _)| *k == i) && seen.insert(i)).unwrap_or(false);
            if !ok {
                return Err(f("Track::scan_keys returns a key that is absent, repeated or foreign", format!("{}: returned {:?}; present keys {:?}", self.ctx(), got, present.iter().map(|x| x.0).collect::<Vec<_>>())));
            }
        }
        if got.len() != want_len {
            return Err(f(
                "Track::scan_keys does not return min(limit, present) keys",
                format!("{}: limit {}, {} present, returned {} keys {:?}", self.ctx(), limit, present.len(), got.len(), got),
            ));
        }
        Ok(Flow::Go)
    }

    fn op_drain(&mut self, g: &mut Gen, n: usize, p: usize, limit: u32) -> Result<Flow, Failure> {
        let (nid, pn) = (node_id(n), partition(p));
        let (track, io) = (&mut self.track, &mut self.io);
        let got = catch(|| {
            let r = if p == MAP {
                track.drain_substates::<MapKey, (), _>(&nid, pn, limit, &mut |a| io.hit(a))
            } else {
                track.drain_substates::<SortedKey, (), _>(&nid, pn, limit, &mut |a| io.hit(a))
            };
            r.map(|v| v.into_iter().map(|(k, v)| (k, v.as_slice().to_vec())).collect::<Vec<_>>())
        })
        .map_err(|e| f("Track::drain_substates panics", format!("{} then drain(n{},{},{}): {}", self.ctx(), n, p, limit, e)))?;
        self.log.push(format!("drain(n{}/{},{})", n, ["f", "m", "s"][p], limit));
        let got = match got {
            Ok(v) => v,
            Err(()) => {
                // whatever was taken is unknown; the transaction is over and will be reverted
                return Ok(Flow::IoFailed);
            }
        };
        let present = self.m.present(n, p);
        self.note_scan(g, n, p, limit as usize, present.len());
        let want_len = present.len().min(limit as usize);
        let mut seen = BTreeSet::new();
        for (sk, v) in &got {
            let idx = key_index(p, sk);
            let ok = idx.map(|i| present.iter().any(|(k, pv)| *k == i && pv == v) && seen.insert(i)).unwrap_or(false);
            if !ok {
                return Err(f(
                    "Track::drain_substates returns an entry that is absent, repeated, foreign or has a stale value",
                    format!("{}: returned {:?}; present {:?}", self.ctx(), got.iter().map(|(k, v)| (k.clone(), show(v))).collect::<Vec<_>>(), present.iter().map(|(k, v)| (*k, show(v))).collect::<Vec<_>>()),
                ));
            }
        }
        if got.len() != want_len {
            return Err(f(
                "Track::drain_substates does not return min(limit, present) entries",
                format!("{}: limit {}, {} present, returned {}", self.ctx(), limit, present.len(), got.len()),
            ));
        }
        for i in seen {
            let k = (n, p, i);
            self.m.overlay.insert(k, None);
            self.m.written.insert(k);
            self.m.tracked.insert(k);
        }
        Ok(Flow::Go)
    }

    fn op_scan_sorted(&mut self, g: &mut Gen, n: usize, limit: u32) -> Result<Flow, Failure> {
        let (nid, pn) = (node_id(n), partition(SORTED));
        let (track, io) = (&mut self.track, &mut self.io);
        let got = catch(|| track.scan_sorted_substates(&nid, pn, limit, &mut |a| io.hit(a)).map(|v| v.into_iter().map(|(k, v)| (k, v.as_slice().to_vec())).collect::<Vec<_>>()))
            .map_err(|e| f("Track::scan_sorted_substates panics", format!("{} then scan_sorted(n{},{}): {}", self.ctx(), n, limit, e)))?;
        self.log.push(format!("scan_sorted(n{},{})", n, limit));
        let got = match got {
            Ok(v) => v,
            Err(()) => return Ok(Flow::IoFailed),
        };
        let mut present = self.m.present(n, SORTED);
        self.note_scan(g, n, SORTED, limit as usize, present.len());
        present.sort_by_key(|(k, _)| ref_sorted_db_key(*k));
        present.truncate(limit as usize);
        let want: Vec<(SortedKey, Vec<u8>)> = present.into_iter().map(|(k, v)| (sorted_parts(k), v)).collect();
        if got != want {
            return Err(f(
                "Track::scan_sorted_substates does not return the first present entries in database key order",
                format!(
                    "{}: limit {}, got {:?}, expected {:?}",
                    self.ctx(),
                    limit,
                    got.iter().map(|(k, v)| (k.clone(), show(v))).collect::<Vec<_>>(),
                    want.iter().map(|(k, v)| (k.clone(), show(v))).collect::<Vec<_>>()
                ),
            ));
        }
        Ok(Flow::Go)
    }

    /// What `FungibleVault::lock_fee` does to the vault's balance substate: open with
    /// UNMODIFIED_BASE | FORCE_WRITE (refused unless the Track reports it unmodified), read,
    /// write, close (= force_write).
    fn op_locked_write(&mut self, g: &mut Gen, k: K) -> Result<Flow, Failure> {
        let (nid, pn, sk) = (node_id(k.0), partition(k.1), key(k.1, k.2));
        let info = self.track.get_tracked_substate_info(&nid, pn, &sk);
        if !matches!(info, TrackedSubstateInfo::Unmodified) {
            g.count("skipped_force_write_substate_already_modified", 1);
            return Ok(Flow::Go);
        }
        self.log.push("open[unmodified_base|force_write]".into());
        if let Flow::IoFailed = self.op_get(k)? {
            return Ok(Flow::IoFailed);
        }
        for _ in 0..g.weighted(&[1, 6, 2]) {
            let v = self.fresh_value(g);
            if let Flow::IoFailed = self.op_set(k, v)? {
                return Ok(Flow::IoFailed);
            }
        }
        let track = &mut self.track;
        catch(|| track.force_write(&nid, &pn, &sk)).map_err(|p| f("Track::force_write panics", format!("{} then force_write({}): {}", self.ctx(), kname(&k), p)))?;
        self.log.push(format!("force_write({})", kname(&k)));
        let now = self.m.view(&k);
        self.m.forced.insert(k, now);
        Ok(Flow::Go)
    }
}

fn show(v: &[u8]) -> String {
    match scrypto_decode::<(u32, Vec<u8>)>(v) {
        Ok((s, pad)) => format!("v{}+{}", s, pad.len()),
        Err(_) => format!("0x{}", hex::encode(v)),
    }
}
fn showo(v: &Option<Vec<u8>>) -> String {
    match v {
        Some(v) => show(v),
        None => "none".into(),
    }
}

fn dump(db: &InMemorySubstateDatabase) -> BTreeMap<(Vec<u8>, u8, Vec<u8>), Vec<u8>> {
    let mut out = BTreeMap::new();
    for pk in db.list_partition_keys() {
        for (sk, v) in db.list_raw_values_from_db_key(&pk, None) {
            out.insert((pk.node_key.clone(), pk.partition_num, sk.0), v);
        }
    }
    out
}

fn db_image(view: &BTreeMap<K, Vec<u8>>) -> BTreeMap<(Vec<u8>, u8, Vec<u8>), Vec<u8>> {
    view.iter()
        .map(|(k, v)| {
            let pk = SpreadPrefixKeyMapper::to_db_partition_key(&node_id(k.0), partition(k.1));
            let sk = SpreadPrefixKeyMapper::to_db_sort_key(&key(k.1, k.2));
            ((pk.node_key, pk.partition_num, sk.0), v.clone())
        })
        .collect()
}

fn run(g: &mut Gen, inject_io_failure: bool) -> Outcome {
    // ---- base database --------------------------------------------------------------------
    let mut in_db = [false; NODES];
    for (n, slot) in in_db.iter_mut().enumerate() {
        *slot = if n < 2 { !g.chance(1, 4) } else { g.chance(1, 4) };
    }
    let mut serial = 0u32;
    let mut base: BTreeMap<K, Vec<u8>> = BTreeMap::new();
    for n in 0..NODES {
        if !in_db[n] {
            continue;
        }
        for p in 0..3 {
            let fill = g.weighted(&[2, 5, 2]); // empty / some / all
            for k in 0..NKEYS[p] {
                let put = match fill {
                    0 => false,
                    1 => g.bool(),
                    _ => true,
                };
                if put {
                    serial += 1;
                    base.insert((n, p, k), value_bytes(serial, g.below(6) as usize));
                }
            }
        }
    }
    let mut db = InMemorySubstateDatabase::standard();
    {
        let mut updates = DatabaseUpdates::default();
        for (k, v) in &base {
            let pk = SpreadPrefixKeyMapper::to_db_partition_key(&node_id(k.0), partition(k.1));
            let sk = SpreadPrefixKeyMapper::to_db_sort_key(&key(k.1, k.2));
            let node = updates.node_updates.entry(pk.node_key).or_default();
            let part = node.partition_updates.entry(pk.partition_num).or_insert_with(|| PartitionDatabaseUpdates::Delta { substate_updates: index_map_new() });
            match part {
                PartitionDatabaseUpdates::Delta { substate_updates } => {
                    substate_updates.insert(sk, DatabaseUpdate::Set(v.clone()));
                }
                _ => unreachable!(),
            }
        }
        db.commit(&updates);
    }
    // the reference ordering must be the database's ordering (else the harness is wrong, not Track)
    for k in 0..NKEYS[SORTED] {
        let mapped = SpreadPrefixKeyMapper::to_db_sort_key(&key(SORTED, k)).0;
        ensure!(mapped == ref_sorted_db_key(k), "harness: reference sorted db key differs from SpreadPrefixKeyMapper", "key {} mapper {:?} reference {:?}", k, mapped, ref_sorted_db_key(k));
    }

    let fail_at = if inject_io_failure { Some(1 + g.below(40)) } else { None };
    let model = Model { in_db, base, overlay: BTreeMap::new(), created: BTreeSet::new(), written: BTreeSet::new(), tracked: BTreeSet::new(), blind: BTreeSet::new(), forced: BTreeMap::new() };
    let mut c = Ctx { track: Track::new(&db), m: model, io: Io { calls: 0, fail_at, failed: false }, log: vec![], serial, nontrivial_scans: 0, reverted: false, post_written: BTreeSet::new() };

    // ---- the transaction ------------------------------------------------------------------
    let steps = 1 + g.len(59);
    let mut io_failed = false;
    for _ in 0..steps {
        let usable: Vec<usize> = (0..NODES).filter(|n| c.m.usable(*n)).collect();
        let creatable: Vec<usize> = (0..NODES).filter(|n| !c.m.usable(*n)).collect();
        let op = g.weighted(&[6, 6, 4, 4, 4, 4, 2, 3]);
        if usable.is_empty() && op != 6 {
            g.count("skipped_no_node_exists", 1);
            if creatable.is_empty() {
                continue;
            }
        }
        let flow = match op {
            6 => {
                if creatable.is_empty() {
                    g.count("skipped_create_no_fresh_id", 1);
                    continue;
                }
                let n = *g.pick(&creatable);
                let mut subs: NodeSubstates = BTreeMap::new();
                let mut added: Vec<(K, Vec<u8>)> = Vec::new();
                for p in 0..3 {
                    let fill = g.weighted(&[2, 4, 1]);
                    if fill == 0 && g.bool() {
                        continue; // partition not mentioned at all
                    }
                    let part = subs.entry(partition(p)).or_default();
                    for k in 0..NKEYS[p] {
                        let put = match fill {
                            0 => false,
                            1 => g.bool(),
                            _ => true,
                        };
                        if put {
                            let v = c.fresh_value(g);
                            part.insert(key(p, k), IndexedScryptoValue::from_vec(v.clone()).unwrap());
                            added.push(((n, p, k), v));
                        }
                    }
                }
                c.log.push(format!("create_node(n{}, {:?})", n, added.iter().map(|(k, v)| format!("{}={}", kname(k), show(v))).collect::<Vec<_>>()));
                g.label("create_node");
                let nid = node_id(n);
                let (track, io) = (&mut c.track, &mut c.io);
                let r = match catch(|| track.create_node(nid, subs, &mut |a| io.hit(a))) {
                    Ok(r) => r,
                    Err(p) => return Outcome::fail("Track::create_node panics", format!("{}: {}", c.ctx(), p)),
                };
                c.m.created.insert(n);
                for (k, v) in added {
                    c.m.overlay.insert(k, Some(v));
                    c.m.written.insert(k);
                    c.m.tracked.insert(k);
                }
                if r.is_err() {
                    Ok(Flow::IoFailed)
                } else {
                    Ok(Flow::Go)
                }
            }
            _ if usable.is_empty() => continue,
            0 => {
                let n = *g.pick(&usable);
                let p = g.index(3);
                c.op_get((n, p, g.index(NKEYS[p])))
            }
            1 => {
                let n = *g.pick(&usable);
                let p = g.index(3);
                let k = (n, p, g.index(NKEYS[p]));
                let v = c.fresh_value(g);
                c.op_set(k, v)
            }
            2 => {
                let n = *g.pick(&usable);
                let p = 1 + g.index(2);
                c.op_remove((n, p, g.index(NKEYS[p])))
            }
            3 | 4 | 5 => {
                let n = *g.pick(&usable);
                let p = if op == 5 { SORTED } else { 1 + g.index(2) };
                let present = c.m.present(n, p).len();
                let limit = g.range_usize(0, present + 2) as u32;
                match op {
                    3 => c.op_scan_keys(g, n, p, limit),
                    4 => c.op_drain(g, n, p, limit),
                    _ => c.op_scan_sorted(g, n, limit),
                }
            }
            _ => {
                // lock_fee-like write: existing substate of a database node, field or map entry
                let cands: Vec<K> = (0..NODES)
                    .filter(|n| c.m.in_db[*n])
                    .flat_map(|n| [FIELD, MAP].into_iter().flat_map(move |p| (0..NKEYS[p]).map(move |k| (n, p, k))))
                    .filter(|k| c.m.view(k).is_some())
                    .collect();
                if cands.is_empty() {
                    g.count("skipped_force_write_no_candidate", 1);
                    continue;
                }
                let k = *g.pick(&cands);
                c.op_locked_write(g, k)
            }
        };
        match flow {
            Err(fl) => return Outcome::Fail(fl),
            Ok(Flow::Go) => {}
            Ok(Flow::IoFailed) => {
                io_failed = true;
                c.log.push("IO callback failed".into());
                break;
            }
        }
    }
    if inject_io_failure && !io_failed {
        g.label("injected failure point not reached");
    }
    if io_failed {
        g.label("IO callback failure injected");
    }
    if !c.m.forced.is_empty() {
        g.label("force_write used");
    }

    // ---- end of the transaction -------------------------------------------------------------
    let revert = io_failed || g.chance(2, 5);
    let expected_view: BTreeMap<K, Vec<u8>>;
    let allowed_updates: BTreeSet<K>;
    let expected_new_nodes: BTreeSet<usize>;
    if revert {
        g.label("revert_non_force_write_changes + finalize");
        {
            let track = &mut c.track;
            if let Err(p) = catch(|| track.revert_non_force_write_changes()) {
                return Outcome::fail("Track::revert_non_force_write_changes panics", format!("{}: {}", c.ctx(), p));
            }
        }
        c.log.push("revert".into());
        c.reverted = true;
        c.io.fail_at = None;
        // the model after a revert: database + force-written values
        c.m.overlay = c.m.forced.clone();
        let gone: Vec<usize> = c.m.created.iter().copied().collect();
        c.m.created.clear();
        c.m.written.clear();
        // what fee finalisation and the tracker update do afterwards
        let post = g.below(5);
        for _ in 0..post {
            let nodes: Vec<usize> = (0..NODES).filter(|n| c.m.in_db[*n] && !gone.contains(n)).collect();
            if nodes.is_empty() {
                break;
            }
            let n = *g.pick(&nodes);
            let p = g.index(2); // field or map
            let k = (n, p, g.index(NKEYS[p]));
            let readable = !c.m.blind.contains(&k);
            let r = match (p, g.below(3)) {
                (_, 0) => {
                    if !readable {
                        g.count("skipped_read_after_revert_of_blindly_written_substate", 1);
                        continue;
                    }
                    c.op_get(k)
                }
                (FIELD, _) => {
                    // read-modify-write, as for vault balances and validator rewards
                    if !readable {
                        g.count("skipped_read_after_revert_of_blindly_written_substate", 1);
                        continue;
                    }
                    match c.op_get(k) {
                        Ok(Flow::Go) => {
                            let v = c.fresh_value(g);
                            c.op_set(k, v)
                        }
                        other => other,
                    }
                }
                _ => {
                    // blind write, as for intent status entries
                    let v = c.fresh_value(g);
                    c.op_set(k, v)
                }
            };
            match r {
                Err(fl) => return Outcome::Fail(fl),
                Ok(_) => {}
            }
            g.label("operations after revert");
        }
        expected_view = c.m.full_view();
        allowed_updates = c.m.forced.keys().copied().chain(c.post_written.iter().copied()).collect();
        expected_new_nodes = BTreeSet::new();
    } else {
        g.label("finalize");
        expected_view = c.m.full_view();
        allowed_updates = c.m.written.clone();
        expected_new_nodes = c.m.created.clone();
    }

    let context = c.ctx();
    let nontrivial_scans = c.nontrivial_scans;
    let base_model = c.m.base.clone();
    let Ctx { track, .. } = c;
    let finalized = catch(move || {
        let (tracked, _db) = track.finalize().map_err(|e| format!("{:?}", e))?;
        Ok::<_, String>(tracked.to_state_updates())
    });
    let (new_nodes, state_updates) = match finalized {
        Ok(Ok(x)) => x,
        Ok(Err(e)) => return Outcome::fail("Track::finalize fails", format!("{}: {}", context, e)),
        Err(p) => return Outcome::fail("Track::finalize / to_state_updates panics", format!("{}: {}", context, p)),
    };

    // apply the updates to the model's base with the 10-line Delta semantics written here
    let mut applied = base_model;
    let mut update_keys: Vec<K> = Vec::new();
    for (nid, node_updates) in &state_updates.by_node {
        let Some(n) = (0..NODES).find(|n| node_id(*n) == *nid) else {
            return Outcome::fail("to_state_updates mentions a node the transaction never touched", format!("{}: node {:?}", context, nid));
        };
        let NodeStateUpdates::Delta { by_partition } = node_updates;
        for (pn, pu) in by_partition {
            let Some(p) = (0..3).find(|p| partition(*p) == *pn) else {
                return Outcome::fail("to_state_updates mentions a partition the transaction never touched", format!("{}: {:?}", context, pn));
            };
            match pu {
                PartitionStateUpdates::Delta { by_substate } => {
                    for (sk, u) in by_substate {
                        let Some(ki) = key_index(p, sk) else {
                            return Outcome::fail("to_state_updates mentions a key the transaction never touched", format!("{}: {:?}", context, sk));
                        };
                        let k = (n, p, ki);
                        update_keys.push(k);
                        match u {
                            DatabaseUpdate::Set(v) => {
                                applied.insert(k, v.clone());
                            }
                            DatabaseUpdate::Delete => {
                                applied.remove(&k);
                            }
                        }
                    }
                }
                PartitionStateUpdates::Batch(_) => {
                    return Outcome::fail("to_state_updates resets a partition although none was deleted", format!("{}: {:?}", context, pn));
                }
            }
        }
    }
    let what = if revert { "after revert, to_state_updates applied to the database is not database + force-written substates" } else { "to_state_updates applied to the database differs from the overlaid view" };
    if applied != expected_view {
        let diff: Vec<String> = expected_view
            .keys()
            .chain(applied.keys())
            .collect::<BTreeSet<_>>()
            .into_iter()
            .filter(|k| applied.get(*k) != expected_view.get(*k))
            .map(|k| format!("{}: got {} want {}", kname(k), showo(&applied.get(k).cloned()), showo(&expected_view.get(k).cloned())))
            .collect();
        return Outcome::fail(what, format!("{}: {}", context, diff.join(", ")));
    }
    for k in &update_keys {
        ensure!(
            allowed_updates.contains(k),
            if revert { "after revert, to_state_updates contains a substate that was not force-written" } else { "to_state_updates contains a substate the transaction did not write" },
            "{}: update for {}",
            context,
            kname(k)
        );
    }
    let got_new: BTreeSet<usize> = new_nodes.iter().filter_map(|nid| (0..NODES).find(|n| node_id(*n) == *nid)).collect();
    ensure!(
        got_new == expected_new_nodes && got_new.len() == new_nodes.len(),
        if revert { "after revert, to_state_updates still reports created nodes" } else { "to_state_updates reports a different set of created nodes" },
        "{}: reported {:?}, created {:?}",
        context,
        new_nodes,
        expected_new_nodes
    );
    // second opinion: the database itself, through create_database_updates + commit
    let mut db2 = db.clone();
    db2.commit(&state_updates.create_database_updates());
    ensure!(dump(&db2) == db_image(&expected_view), format!("{} (committed through create_database_updates)", what), "{}", context);

    if nontrivial_scans > 0 {
        g.nontrivial();
    }
    g.count("steps", steps as u64);
    g.count("nontrivial_scans", nontrivial_scans);
    g.sample(|| context.clone());
    Outcome::Pass
}

pub fn check() -> Check {
    Check::new(
        "C12",
        "The transaction state cache reads back its own writes",
        "An InMemorySubstateDatabase over 4 node ids (each in the database or not) x 3 partitions (3 field keys, 6 map keys, 6 sorted keys; each partition empty / partly / fully filled) and a Track driven by 1-60 calls: create_node (fresh ids only), get_substate, set_substate, remove_substate, scan_keys and drain_substates (map and sorted partitions, limit 0..=present+2), scan_sorted_substates, and the lock_fee pattern (get_tracked_substate_info = Unmodified, read, 0-2 writes, force_write); then finalize, or revert_non_force_write_changes + 0-4 reads/writes as fee finalisation issues them + finalize. Oracle: overlay model (base map + Option overlay + created nodes + force-written values): every read equals the overlaid view; scan_keys/drain return min(limit, present) distinct present keys (drain with current values, and removes them); scan_sorted returns the first present entries ordered by an independently computed database sort key; to_state_updates applied to the base (own Delta semantics, and again through create_database_updates + commit) equals the overlaid view, mentions only written substates and exactly the created nodes; after revert it equals database + force-written values. Part io_failure (thorough only) makes the IO callback fail at a generated call, then reverts. Non-trivial = a scan/drain with limit < present on a partition holding both database entries and tracked writes. Distinct = distinct decoded choice sequences.",
    )
    .assume("database addressing (node/partition/sort keys) goes through SpreadPrefixKeyMapper, which is trusted here; the order of sorted keys is recomputed from the documented layout with the blake2 crate")
    .assume("reads after a revert are limited to substates that were read before being written, as the engine's fee finalisation does; partition deletion is not generated (C07)")
    .part(Part::new("history", 1_000_000, 40_000_000, 900, |g| run(g, false)))
    .part(Part::new("io_failure", 0, 8_000_000, 900, |g| run(g, true)))
    .min_nontrivial_pct(10.0)
}
