//! C39 Account deposit rules are enforced exactly.
//!
//! Per case a target account is configured by a generated history (one owner-signed transaction:
//! default rule, preferences set / removed, authorized depositors added / removed, owner deposits
//! incl. empty buckets, withdraw-to-zero), then ONE guarded deposit is made by a third party (or
//! with the owner's signature present) and judged by the model below, which is written from the
//! property statement and the doc comments of `DefaultDepositRule` / `ResourcePreference`:
//!
//!   allowed(r) = preference(r) if set, else by default rule:
//!                Accept -> yes, Reject -> no, AllowExisting -> r is XRD or the account has a vault for r
//!   every bucket allowed              => everything deposited
//!   else named badge listed & proven  => everything deposited
//!   else named badge listed, unproven => the call fails
//!   else                              => nothing deposited: refund variants hand every bucket back
//!                                        untouched, abort variants fail
//!   and only the target's vaults of the deposited resources change.
//!
//! Everything observed comes from raw substates (`Totals::scan`, the account's vault collection);
//! returned buckets are observed by depositing the worktop into a witness account.

use crate::util::*;
use scrypto_test::prelude::*;
use std::collections::{BTreeMap, BTreeSet};
use vf_core::{Check, Gen, Outcome, Part};
use vf_world::*;

// ---------------------------------------------------------------------------------------------
// fixture
// ---------------------------------------------------------------------------------------------

#[derive(Clone)]
struct Target {
    name: &'static str,
    address: ComponentAddress,
    owner: NonFungibleGlobalId,
    /// instantiated and funded with XRD in the frozen world
    on_ledger: bool,
}

#[derive(Clone)]
struct Res {
    name: &'static str,
    address: ResourceAddress,
    /// divisibility; None for a non-fungible resource
    div: Option<u8>,
    /// index into `World::non_fungibles`
    nf: Option<usize>,
}

#[derive(Clone)]
enum ProofSpec {
    /// proof of amount 1 of a fungible resource held by a world account
    Amount(usize, ResourceAddress),
    /// proof of the given ids held by a world account
    Ids(usize, ResourceAddress, Vec<NonFungibleLocalId>),
    /// the signature of a world account is among the transaction's signer proofs
    Signer(usize),
}

#[derive(Clone)]
struct Badge {
    name: &'static str,
    badge: ResourceOrNonFungible,
    /// presentation that proves the badge
    exact: ProofSpec,
    /// presentation of something similar that does not prove it (other id / other resource / other signer)
    other: ProofSpec,
}

#[derive(Clone)]
struct Env {
    targets: Vec<Target>,
    witness: ComponentAddress,
    fee_vaults: BTreeSet<NodeId>,
    resources: Vec<Res>,
    badges: Vec<Badge>,
}

fn build(w: &mut World) {
    let mut targets = Vec::new();
    let (pk, _sk, address) = w.sim.new_allocated_account();
    targets.push(Target { name: "allocated account", address, owner: NonFungibleGlobalId::from_public_key(&pk), on_ledger: true });
    let (pk, _sk, address) = w.sim.new_preallocated_account();
    targets.push(Target { name: "preallocated account", address, owner: NonFungibleGlobalId::from_public_key(&pk), on_ledger: true });
    let sk = Ed25519PrivateKey::from_u64(0xC39).unwrap();
    let pk = sk.public_key();
    let address = ComponentAddress::preallocated_account_from_public_key(&pk);
    targets.push(Target { name: "preallocated account not yet on ledger", address, owner: NonFungibleGlobalId::from_public_key(&pk), on_ledger: false });
    let (_pk, _sk, witness) = w.sim.new_allocated_account();

    // which vaults does paying the fee from the faucet touch?
    let before = Totals::scan(w.db());
    let run = w.run(ManifestBuilder::new().lock_fee_from_faucet().build(), vec![]);
    assert!(run.is_success(), "fee probe failed: {}", run.outcome_string());
    let after = Totals::scan(w.db());
    let fee_vaults: BTreeSet<NodeId> = vault_nodes(&after).into_iter().filter(|v| holding(&before, v) != holding(&after, v)).collect();
    assert!(!fee_vaults.is_empty() && fee_vaults.len() <= 3, "unexpected fee vault set {:?}", fee_vaults);

    let mut resources = vec![Res { name: "XRD", address: XRD, div: Some(18), nf: None }];
    for (i, name) in [(0usize, "F0/div18"), (1, "F1/div0"), (2, "F2/div6")] {
        resources.push(Res { name, address: w.fungibles[i].address, div: Some(w.fungibles[i].divisibility), nf: None });
    }
    for (i, name) in [(0usize, "NF0/int"), (1, "NF1/str"), (3, "NF3/ruid")] {
        resources.push(Res { name, address: w.non_fungibles[i].address, div: None, nf: Some(i) });
    }

    let nf0 = w.non_fungibles[0].address;
    let nf1 = w.non_fungibles[1].address;
    let ids_of = |w: &World, nf: usize, acct: usize| -> Vec<NonFungibleLocalId> {
        w.non_fungibles[nf].initial_ids.iter().filter(|(a, _)| *a == acct).map(|(_, id)| id.clone()).collect()
    };
    let a1_nf0 = ids_of(w, 0, 1);
    let a1_nf1 = ids_of(w, 1, 1);
    let f1 = w.fungibles[1].address;
    let badges = vec![
        Badge { name: "Resource(world badge)", badge: ResourceOrNonFungible::Resource(w.badge), exact: ProofSpec::Amount(0, w.badge), other: ProofSpec::Amount(1, f1) },
        Badge { name: "Resource(NF0)", badge: ResourceOrNonFungible::Resource(nf0), exact: ProofSpec::Ids(1, nf0, vec![a1_nf0[2].clone()]), other: ProofSpec::Ids(1, nf1, vec![a1_nf1[0].clone()]) },
        Badge {
            name: "NonFungible(NF0:a)",
            badge: ResourceOrNonFungible::NonFungible(NonFungibleGlobalId::new(nf0, a1_nf0[0].clone())),
            exact: ProofSpec::Ids(1, nf0, vec![a1_nf0[0].clone()]),
            other: ProofSpec::Ids(1, nf0, vec![a1_nf0[1].clone()]),
        },
        Badge {
            name: "NonFungible(NF0:b)",
            badge: ResourceOrNonFungible::NonFungible(NonFungibleGlobalId::new(nf0, a1_nf0[1].clone())),
            exact: ProofSpec::Ids(1, nf0, vec![a1_nf0[1].clone(), a1_nf0[2].clone()]),
            other: ProofSpec::Ids(1, nf0, vec![a1_nf0[0].clone(), a1_nf0[2].clone()]),
        },
        Badge {
            name: "NonFungible(NF1:a)",
            badge: ResourceOrNonFungible::NonFungible(NonFungibleGlobalId::new(nf1, a1_nf1[0].clone())),
            exact: ProofSpec::Ids(1, nf1, vec![a1_nf1[0].clone()]),
            other: ProofSpec::Ids(1, nf1, vec![a1_nf1[1].clone()]),
        },
        Badge { name: "Resource(F1)", badge: ResourceOrNonFungible::Resource(f1), exact: ProofSpec::Amount(1, f1), other: ProofSpec::Amount(0, w.badge) },
        Badge { name: "NonFungible(signature of account 3)", badge: ResourceOrNonFungible::NonFungible(w.accounts[3].badge()), exact: ProofSpec::Signer(3), other: ProofSpec::Signer(0) },
    ];

    // the model's initial knowledge of the fresh targets must be what the ledger holds
    for t in &targets {
        let vaults: Vec<ResourceAddress> = account_vaults(w.db(), &t.address).keys().copied().collect();
        let want: Vec<ResourceAddress> = if t.on_ledger { vec![XRD] } else { vec![] };
        assert_eq!(vaults, want, "fixture: unexpected initial vaults of {}", t.name);
    }
    assert!(account_vaults(w.db(), &w.accounts[2].address).len() >= 10, "fixture: account vault reader finds too few vaults");

    w.set_ext(Env { targets, witness, fee_vaults, resources, badges });
}

// ---------------------------------------------------------------------------------------------
// model
// ---------------------------------------------------------------------------------------------

#[derive(Clone, Copy, PartialEq, Eq, Debug)]
enum Rule {
    Accept,
    Reject,
    AllowExisting,
}

struct Model {
    default: Rule,
    /// resource index -> allowed?
    prefs: BTreeMap<usize, bool>,
    /// badge indices on the authorized-depositor list
    depositors: BTreeSet<usize>,
    ever_listed: BTreeSet<usize>,
    /// resource indices the account has a vault for
    vaults: BTreeSet<usize>,
    /// what the model knows the target holds (non-XRD resources only)
    held: BTreeMap<usize, Holding>,
}

impl Model {
    fn allowed(&self, r: usize) -> bool {
        match self.prefs.get(&r) {
            Some(p) => *p,
            None => match self.default {
                Rule::Accept => true,
                Rule::Reject => false,
                Rule::AllowExisting => r == 0 || self.vaults.contains(&r),
            },
        }
    }
}

#[derive(Clone, Copy, PartialEq, Eq, Debug)]
enum Reason {
    AllAllowed,
    BadgeProven,
    BadgeListedNotProven,
    RefusedNoBadge,
    RefusedUnlistedBadge,
}

#[derive(Clone, Copy, PartialEq, Eq, Debug)]
enum Expect {
    Deposited,
    Refunded,
    Fails,
}

#[derive(Clone, Default)]
struct Delta {
    f: Decimal,
    add: BTreeSet<NonFungibleLocalId>,
    rem: BTreeSet<NonFungibleLocalId>,
}

fn apply(before: Option<&Holding>, d: Option<&Delta>, fungible: bool) -> Holding {
    let base = before.cloned().unwrap_or(if fungible { Holding::F(Decimal::ZERO) } else { Holding::N(BTreeSet::new()) });
    let Some(d) = d else { return base };
    match base {
        Holding::F(b) => Holding::F(b.checked_add(d.f).expect("small amounts")),
        Holding::N(mut s) => {
            for id in &d.rem {
                s.remove(id);
            }
            for id in &d.add {
                s.insert(id.clone());
            }
            Holding::N(s)
        }
    }
}

#[derive(Clone)]
struct BucketPlan {
    res: usize,
    content: Holding,
}

struct Presented {
    resource: ResourceAddress,
    ids: Option<BTreeSet<NonFungibleLocalId>>,
    in_zone: bool,
}

fn proven(b: &ResourceOrNonFungible, proofs: &[Presented], signers: &[NonFungibleGlobalId]) -> bool {
    match b {
        ResourceOrNonFungible::Resource(r) => proofs.iter().any(|p| p.in_zone && p.resource == *r) || signers.iter().any(|s| s.resource_address() == *r),
        ResourceOrNonFungible::NonFungible(gid) => {
            proofs.iter().any(|p| p.in_zone && p.resource == gid.resource_address() && p.ids.as_ref().map(|s| s.contains(gid.local_id())).unwrap_or(false)) || signers.contains(gid)
        }
    }
}

fn amount(g: &mut Gen, div: u8) -> Decimal {
    let k = *g.pick(&[1u64, 0, 2, 7, 250]);
    let scale = if div > 0 && g.chance(1, 3) { div as u32 } else { 0 };
    Decimal::from(k).checked_div(Decimal::from(10u64.pow(scale))).unwrap()
}

const VARIANTS: [&str; 4] = ["try_deposit_or_refund", "try_deposit_or_abort", "try_deposit_batch_or_refund", "try_deposit_batch_or_abort"];

fn show_bucket(env: &Env, b: &BucketPlan) -> String {
    format!("{}:{}", env.resources[b.res].name, b.content.show())
}

// ---------------------------------------------------------------------------------------------
// one case
// ---------------------------------------------------------------------------------------------

fn case(g: &mut Gen) -> Outcome {
    with_world("c39", no_genesis, build, |w| run_case(w, g))
}

fn run_case(w: &mut World, g: &mut Gen) -> Outcome {
    let env_owned: Env = w.ext::<Env>().clone();
    let env = &env_owned;
    let resources = &env.resources;
    let badges = &env.badges;
    let witness = env.witness;
    let fee_vaults = &env.fee_vaults;
    let fixed_targets = &env.targets;

    // ---- who -------------------------------------------------------------------------------
    let ti = g.index(4);
    let src_idx = 2 + g.index(2);
    let target = if ti < 3 {
        fixed_targets[ti].clone()
    } else {
        let other = 5 - src_idx;
        Target { name: "world account holding every resource", address: w.accounts[other].address, owner: w.accounts[other].badge(), on_ledger: true }
    };
    let source = w.accounts[src_idx].clone();
    let owner_signs = g.chance(1, 5);

    let world_ids = |w: &World, nf: usize, acct: usize| -> BTreeSet<NonFungibleLocalId> {
        w.non_fungibles[nf].initial_ids.iter().filter(|(a, _)| *a == acct).map(|(_, id)| id.clone()).collect()
    };

    let mut m = Model { default: Rule::Accept, prefs: BTreeMap::new(), depositors: BTreeSet::new(), ever_listed: BTreeSet::new(), vaults: BTreeSet::new(), held: BTreeMap::new() };
    if target.on_ledger {
        m.vaults.insert(0);
    }
    if ti == 3 {
        for (ri, r) in resources.iter().enumerate().skip(1) {
            m.vaults.insert(ri);
            let h = match r.nf {
                Some(nf) => Holding::N(world_ids(w, nf, 5 - src_idx)),
                None => Holding::F(Decimal::from(10000u64)),
            };
            m.held.insert(ri, h);
        }
    }
    // non-fungible ids the source still holds
    let mut src_ids: BTreeMap<usize, BTreeSet<NonFungibleLocalId>> = BTreeMap::new();
    for (ri, r) in resources.iter().enumerate() {
        if let Some(nf) = r.nf {
            src_ids.insert(ri, world_ids(w, nf, src_idx));
        }
    }

    // ---- configuration history (one owner-signed transaction) --------------------------------
    let n_ops = g.len(8);
    let mut log: Vec<String> = Vec::new();
    let mut b = ManifestBuilder::new().lock_fee_from_faucet();
    let mut n_setup_buckets = 0usize;
    // the history usually opens by leaving the default rule (Accept) and often lists a depositor
    let opening_rule = g.weighted(&[2, 3, 4]);
    let opening_depositor = g.chance(2, 5);
    let mut forced: Vec<usize> = Vec::new();
    if opening_rule != 0 {
        forced.push(0);
    }
    if opening_depositor {
        forced.push(3);
    }
    let n_forced = forced.len();
    for op_no in 0..(n_forced + n_ops) {
        let op = if op_no < n_forced { forced[op_no] } else { g.weighted(&[3, 6, 2, 4, 2, 4, 3]) };
        match op {
            0 => {
                let rules = [
                    (Rule::Accept, DefaultDepositRule::Accept),
                    (Rule::Reject, DefaultDepositRule::Reject),
                    (Rule::AllowExisting, DefaultDepositRule::AllowExisting),
                ];
                let (rule, sut) = if op_no < n_forced { rules[opening_rule] } else { *g.pick(&rules) };
                b = b.call_method(target.address, ACCOUNT_SET_DEFAULT_DEPOSIT_RULE_IDENT, manifest_args!(sut));
                m.default = rule;
                log.push(format!("set_default_deposit_rule({:?})", rule));
            }
            1 => {
                let r = g.index(resources.len());
                let allow = g.bool();
                let pref = if allow { ResourcePreference::Allowed } else { ResourcePreference::Disallowed };
                b = b.call_method(target.address, ACCOUNT_SET_RESOURCE_PREFERENCE_IDENT, manifest_args!(resources[r].address, pref));
                m.prefs.insert(r, allow);
                log.push(format!("set_resource_preference({}, {:?})", resources[r].name, pref));
            }
            2 => {
                let set: Vec<usize> = m.prefs.keys().copied().collect();
                let r = if !set.is_empty() && !g.chance(1, 4) { *g.pick(&set) } else { g.index(resources.len()) };
                b = b.call_method(target.address, ACCOUNT_REMOVE_RESOURCE_PREFERENCE_IDENT, manifest_args!(resources[r].address));
                m.prefs.remove(&r);
                log.push(format!("remove_resource_preference({})", resources[r].name));
            }
            3 => {
                let i = g.index(badges.len());
                b = b.call_method(target.address, ACCOUNT_ADD_AUTHORIZED_DEPOSITOR_IDENT, manifest_args!(ManifestResourceOrNonFungible::from(badges[i].badge.clone())));
                m.depositors.insert(i);
                m.ever_listed.insert(i);
                log.push(format!("add_authorized_depositor({})", badges[i].name));
            }
            4 => {
                let set: Vec<usize> = m.depositors.iter().copied().collect();
                let i = if !set.is_empty() && !g.chance(1, 4) { *g.pick(&set) } else { g.index(badges.len()) };
                b = b.call_method(target.address, ACCOUNT_REMOVE_AUTHORIZED_DEPOSITOR_IDENT, manifest_args!(ManifestResourceOrNonFungible::from(badges[i].badge.clone())));
                m.depositors.remove(&i);
                log.push(format!("remove_authorized_depositor({})", badges[i].name));
            }
            5 => {
                // owner deposit (no questions asked): creates the vault, also for an empty bucket
                let r = g.index(resources.len());
                let name = format!("s{}", n_setup_buckets);
                n_setup_buckets += 1;
                match resources[r].div {
                    Some(div) => {
                        let a = amount(g, div);
                        if !a.is_zero() {
                            b = b.withdraw_from_account(source.address, resources[r].address, a);
                        }
                        b = b.take_from_worktop(resources[r].address, a, &name).deposit(target.address, &name);
                        if r != 0 {
                            let cur = match m.held.get(&r) {
                                Some(Holding::F(x)) => *x,
                                _ => Decimal::ZERO,
                            };
                            m.held.insert(r, Holding::F(cur.checked_add(a).unwrap()));
                        }
                        log.push(format!("owner deposit({} {})", a, resources[r].name));
                    }
                    None => {
                        let avail: Vec<NonFungibleLocalId> = src_ids[&r].iter().cloned().collect();
                        let ids: BTreeSet<NonFungibleLocalId> = avail.into_iter().filter(|_| g.bool()).collect();
                        if !ids.is_empty() {
                            b = b.withdraw_non_fungibles_from_account(source.address, resources[r].address, ids.clone());
                        }
                        b = b.take_non_fungibles_from_worktop(resources[r].address, ids.clone(), &name).deposit(target.address, &name);
                        let set = src_ids.get_mut(&r).unwrap();
                        for id in &ids {
                            set.remove(id);
                        }
                        let mut cur = match m.held.get(&r) {
                            Some(Holding::N(s)) => s.clone(),
                            _ => BTreeSet::new(),
                        };
                        cur.extend(ids.iter().cloned());
                        log.push(format!("owner deposit({} {})", resources[r].name, Holding::N(ids).show()));
                        m.held.insert(r, Holding::N(cur));
                    }
                }
                m.vaults.insert(r);
            }
            _ => {
                // owner withdraws everything of a resource: the vault stays, empty
                let cands: Vec<usize> = m.vaults.iter().copied().filter(|r| *r != 0).collect();
                if cands.is_empty() {
                    g.count("skipped_withdraw_all_no_vault", 1);
                    continue;
                }
                let r = *g.pick(&cands);
                match m.held.get(&r).cloned() {
                    Some(Holding::F(a)) => {
                        b = b.withdraw_from_account(target.address, resources[r].address, a).try_deposit_entire_worktop_or_abort(source.address, None);
                        m.held.insert(r, Holding::F(Decimal::ZERO));
                    }
                    Some(Holding::N(ids)) => {
                        if !ids.is_empty() {
                            b = b.withdraw_non_fungibles_from_account(target.address, resources[r].address, ids.clone()).try_deposit_entire_worktop_or_abort(source.address, None);
                        }
                        src_ids.get_mut(&r).unwrap().extend(ids);
                        m.held.insert(r, Holding::N(BTreeSet::new()));
                    }
                    None => {}
                }
                log.push(format!("owner withdraws all {}", resources[r].name));
            }
        }
    }
    if !log.is_empty() {
        let manifest = b.try_deposit_entire_worktop_or_abort(source.address, None).build();
        let run = w.run(manifest, vec![target.owner.clone(), source.badge()]);
        if !run.is_success() {
            return Outcome::fail(
                "C39 configuration transaction of the target account does not succeed",
                format!("target {}; history [{}]: {}", target.name, log.join("; "), run.outcome_string()),
            );
        }
    }

    // ---- the guarded deposit -----------------------------------------------------------------
    let variant = g.index(4);
    let batch = variant >= 2;
    let refund_variant = variant % 2 == 0;
    let n_buckets = if batch { 1 + g.index(4) } else { 1 };
    let mut buckets: Vec<BucketPlan> = Vec::new();
    for i in 0..n_buckets {
        let r = if i > 0 && g.chance(1, 4) { buckets[i - 1].res } else { g.index(resources.len()) };
        let content = match resources[r].div {
            Some(div) => Holding::F(amount(g, div)),
            None => {
                let avail: Vec<NonFungibleLocalId> = src_ids[&r].iter().cloned().collect();
                let ids: BTreeSet<NonFungibleLocalId> = avail.into_iter().filter(|_| g.bool()).collect();
                let set = src_ids.get_mut(&r).unwrap();
                for id in &ids {
                    set.remove(id);
                }
                Holding::N(ids)
            }
        };
        buckets.push(BucketPlan { res: r, content });
    }
    let named: Option<usize> = if g.weighted(&[3, 5]) == 1 {
        let listed: Vec<usize> = m.depositors.iter().copied().collect();
        let gone: Vec<usize> = m.ever_listed.iter().copied().filter(|i| !m.depositors.contains(i)).collect();
        match g.weighted(&[3, 4, 2]) {
            1 if !listed.is_empty() => Some(*g.pick(&listed)),
            2 if !gone.is_empty() => Some(*g.pick(&gone)),
            _ => Some(g.index(badges.len())),
        }
    } else {
        None
    };
    // 0 nothing presented, 1 the proving presentation, 2 a similar non-proving one, 3 proving proof created but taken out of the auth zone
    let plan = g.weighted(&[2, 4, 2, 1]);
    let presented_for = named.unwrap_or_else(|| 0);
    let extra_signer = g.chance(1, 8);

    let mut signer_idx: BTreeSet<usize> = BTreeSet::new();
    signer_idx.insert(src_idx);
    if extra_signer {
        signer_idx.insert(3);
    }
    let mut proofs: Vec<Presented> = Vec::new();
    let mut b = ManifestBuilder::new().lock_fee_from_faucet();

    // totals per resource
    let mut total_f: BTreeMap<usize, Decimal> = BTreeMap::new();
    let mut total_n: BTreeMap<usize, BTreeSet<NonFungibleLocalId>> = BTreeMap::new();
    for bp in &buckets {
        match &bp.content {
            Holding::F(a) => {
                let e = total_f.entry(bp.res).or_insert(Decimal::ZERO);
                *e = e.checked_add(*a).unwrap();
            }
            Holding::N(ids) => total_n.entry(bp.res).or_default().extend(ids.iter().cloned()),
        }
    }
    for (r, a) in &total_f {
        if !a.is_zero() {
            b = b.withdraw_from_account(source.address, resources[*r].address, *a);
        }
    }
    for (r, ids) in &total_n {
        if !ids.is_empty() {
            b = b.withdraw_non_fungibles_from_account(source.address, resources[*r].address, ids.clone());
        }
    }
    for (i, bp) in buckets.iter().enumerate() {
        let name = format!("b{}", i);
        b = match &bp.content {
            Holding::F(a) => b.take_from_worktop(resources[bp.res].address, *a, name),
            Holding::N(ids) => b.take_non_fungibles_from_worktop(resources[bp.res].address, ids.clone(), name),
        };
    }
    let spec = match plan {
        1 | 3 => Some(badges[presented_for].exact.clone()),
        2 => Some(badges[presented_for].other.clone()),
        _ => None,
    };
    let mut plan_text = ["no proof", "proving proof", "similar non-proving proof", "proving proof taken out of the auth zone"][plan].to_string();
    if let Some(spec) = spec {
        match spec {
            ProofSpec::Amount(holder, res) => {
                signer_idx.insert(holder);
                b = b.create_proof_from_account_of_amount(w.accounts[holder].address, res, Decimal::ONE);
                proofs.push(Presented { resource: res, ids: None, in_zone: plan != 3 });
                if plan == 3 {
                    b = b.pop_from_auth_zone("popped");
                }
            }
            ProofSpec::Ids(holder, res, ids) => {
                signer_idx.insert(holder);
                b = b.create_proof_from_account_of_non_fungibles(w.accounts[holder].address, res, ids.clone());
                proofs.push(Presented { resource: res, ids: Some(ids.into_iter().collect()), in_zone: plan != 3 });
                if plan == 3 {
                    b = b.pop_from_auth_zone("popped");
                }
            }
            ProofSpec::Signer(a) => {
                if plan == 3 {
                    plan_text = "no proof".into();
                } else {
                    signer_idx.insert(a);
                }
            }
        }
    }
    let badge_arg: Option<ResourceOrNonFungible> = named.map(|i| badges[i].badge.clone());
    b = match variant {
        0 => b.try_deposit_or_refund(target.address, badge_arg.clone(), "b0"),
        1 => b.try_deposit_or_abort(target.address, badge_arg.clone(), "b0"),
        2 => b.try_deposit_batch_or_refund(target.address, (0..n_buckets).map(|i| format!("b{}", i)).collect::<Vec<String>>(), badge_arg.clone()),
        _ => b.try_deposit_batch_or_abort(target.address, (0..n_buckets).map(|i| format!("b{}", i)).collect::<Vec<String>>(), badge_arg.clone()),
    };
    let manifest = b.try_deposit_entire_worktop_or_abort(witness, None).build();
    let mut signers: Vec<NonFungibleGlobalId> = signer_idx.iter().map(|i| w.accounts[*i].badge()).collect();
    if owner_signs && !signers.contains(&target.owner) {
        signers.push(target.owner.clone());
    }

    // ---- prediction ----------------------------------------------------------------------------
    let refused: Vec<usize> = buckets.iter().enumerate().filter(|(_, bp)| !m.allowed(bp.res)).map(|(i, _)| i).collect();
    let listed = named.map(|i| m.depositors.contains(&i)).unwrap_or(false);
    let is_proven = named.map(|i| proven(&badges[i].badge, &proofs, &signers)).unwrap_or(false);
    let reason = if refused.is_empty() {
        Reason::AllAllowed
    } else if listed && is_proven {
        Reason::BadgeProven
    } else if listed {
        Reason::BadgeListedNotProven
    } else if named.is_some() {
        Reason::RefusedUnlistedBadge
    } else {
        Reason::RefusedNoBadge
    };
    let expect = match reason {
        Reason::AllAllowed | Reason::BadgeProven => Expect::Deposited,
        Reason::BadgeListedNotProven => Expect::Fails,
        Reason::RefusedNoBadge | Reason::RefusedUnlistedBadge => {
            if refund_variant {
                Expect::Refunded
            } else {
                Expect::Fails
            }
        }
    };

    let describe = || {
        format!(
            "target: {}{}; history [{}] => default {:?}, preferences {{{}}}, authorized depositors {{{}}}, vaults for {{{}}}; then {}([{}], badge {}) with {}; signers: accounts {:?}{}; source account {}",
            target.name,
            if log.is_empty() { "" } else { " (configured)" },
            log.join("; "),
            m.default,
            m.prefs.iter().map(|(r, a)| format!("{}={}", resources[*r].name, if *a { "Allowed" } else { "Disallowed" })).collect::<Vec<_>>().join(", "),
            m.depositors.iter().map(|i| badges[*i].name).collect::<Vec<_>>().join(", "),
            m.vaults.iter().map(|r| resources[*r].name).collect::<Vec<_>>().join(", "),
            VARIANTS[variant],
            buckets.iter().map(|bp| show_bucket(env, bp)).collect::<Vec<_>>().join(", "),
            named.map(|i| badges[i].name).unwrap_or("None"),
            if plan == 0 { plan_text.clone() } else { format!("{} for {}", plan_text, badges[presented_for].name) },
            signer_idx,
            if owner_signs { " + the target's owner" } else { "" },
            src_idx,
        )
    };

    // ---- run and observe -----------------------------------------------------------------------
    let mut known: Vec<(String, ComponentAddress)> = w.accounts.iter().enumerate().map(|(i, a)| (format!("world account {}", i), a.address)).collect();
    for t in fixed_targets {
        known.push((t.name.to_string(), t.address));
    }
    known.push(("witness account".to_string(), witness));
    let target_k = known.iter().position(|(_, a)| *a == target.address).unwrap();
    let witness_k = known.len() - 1;

    let before = Totals::scan(w.db());
    let owners_before: Vec<BTreeMap<ResourceAddress, NodeId>> = known.iter().map(|(_, a)| account_vaults(w.db(), a)).collect();
    let run = w.run(manifest, signers.clone());
    let after = Totals::scan(w.db());
    let owners_after: Vec<BTreeMap<ResourceAddress, NodeId>> = known.iter().map(|(_, a)| account_vaults(w.db(), a)).collect();

    let v = VARIANTS[variant];
    if let Some(p) = &run.panic {
        return Outcome::fail(format!("Account::{}: host panic", v), format!("{}: {}", describe(), p));
    }
    let why = match reason {
        Reason::AllAllowed => "every bucket's resource is allowed",
        Reason::BadgeProven => "a bucket is refused but the named badge is listed and proven",
        Reason::BadgeListedNotProven => "a bucket is refused and the named listed badge is not proven",
        Reason::RefusedNoBadge => "a bucket is refused and no badge is named",
        Reason::RefusedUnlistedBadge => "a bucket is refused and the named badge is not on the list",
    };
    match expect {
        Expect::Deposited | Expect::Refunded => {
            if !run.is_success() {
                let what = if expect == Expect::Deposited { "everything must be deposited" } else { "all buckets must be returned" };
                return Outcome::fail(
                    format!("Account::{}: the transaction does not succeed although {} ({})", v, why, what),
                    format!("{}: {}", describe(), run.outcome_string()),
                );
            }
        }
        Expect::Fails => {
            let Some(err) = run.failure() else {
                return Outcome::fail(format!("Account::{}: the call does not fail although {}", v, why), format!("{}: {}", describe(), run.outcome_string()));
            };
            let class_ok = match reason {
                Reason::BadgeListedNotProven => err_is_auth_error(err),
                _ => err_is_account_error(err),
            };
            if !class_ok {
                return Outcome::fail(
                    format!("Account::{}: the call fails with an error of an unexpected kind where {}", v, why),
                    format!("{}: {}", describe(), run.outcome_string()),
                );
            }
        }
    }

    // expected vault changes
    let mut exp: BTreeMap<(usize, ResourceAddress), Delta> = BTreeMap::new();
    if expect != Expect::Fails {
        let to = if expect == Expect::Deposited { target_k } else { witness_k };
        for (r, a) in &total_f {
            let res = resources[*r].address;
            let d = exp.entry((src_idx, res)).or_default();
            d.f = d.f.checked_sub(*a).unwrap();
            let d = exp.entry((to, res)).or_default();
            d.f = d.f.checked_add(*a).unwrap();
        }
        for (r, ids) in &total_n {
            let res = resources[*r].address;
            exp.entry((src_idx, res)).or_default().rem.extend(ids.iter().cloned());
            exp.entry((to, res)).or_default().add.extend(ids.iter().cloned());
        }
    }
    let bucket_resources: BTreeSet<ResourceAddress> = buckets.iter().map(|bp| resources[bp.res].address).collect();
    let mut owner_of: BTreeMap<NodeId, (usize, ResourceAddress)> = BTreeMap::new();
    for (k, map) in owners_before.iter().enumerate().chain(owners_after.iter().enumerate()) {
        for (res, vault) in map {
            owner_of.insert(*vault, (k, *res));
        }
    }
    let outcome_text = match expect {
        Expect::Deposited => "everything must be deposited",
        Expect::Refunded => "nothing may be deposited and every bucket must come back",
        Expect::Fails => "the call must fail",
    };
    let all_vaults: BTreeSet<NodeId> = vault_nodes(&before).union(&vault_nodes(&after)).copied().collect();
    for vault in &all_vaults {
        if fee_vaults.contains(vault) {
            continue;
        }
        let hb = holding(&before, vault);
        let ha = holding(&after, vault);
        match owner_of.get(vault) {
            Some((k, res)) => {
                let want = apply(hb.as_ref().map(|x| &x.1), exp.get(&(*k, *res)), res.is_fungible());
                let got = ha.as_ref().map(|x| x.1.clone());
                if got.as_ref() != Some(&want) {
                    let class = if *k == target_k {
                        format!("the target account's vault content differs from the model where {} ({})", why, outcome_text)
                    } else if *k == witness_k {
                        format!("what comes back to the caller differs from the buckets passed in where {}", why)
                    } else {
                        "a vault of an account other than the target changes".to_string()
                    };
                    return Outcome::fail(
                        format!("Account::{}: {}", v, class),
                        format!(
                            "{}: outcome {}; vault of {} for {:?}: before {}, after {}, expected {}",
                            describe(),
                            run.outcome_string(),
                            known[*k].0,
                            res,
                            hb.as_ref().map(|x| x.1.show()).unwrap_or("(no vault)".into()),
                            got.as_ref().map(|x| x.show()).unwrap_or("(no vault)".into()),
                            want.show()
                        ),
                    );
                }
                if hb.is_none() {
                    let ok = bucket_resources.contains(res) && ((*k == target_k && expect == Expect::Deposited) || (*k == witness_k && expect == Expect::Refunded));
                    if !ok {
                        return Outcome::fail(
                            format!("Account::{}: a vault is created although nothing of that resource is deposited there", v),
                            format!("{}: outcome {}; new vault of {} for {:?}", describe(), run.outcome_string(), known[*k].0, res),
                        );
                    }
                }
            }
            None => {
                let unchanged = hb == ha || (hb.is_none() && ha.as_ref().map(|x| x.1.is_empty()).unwrap_or(true));
                if !unchanged {
                    return Outcome::fail(
                        format!("Account::{}: a vault outside the accounts involved changes", v),
                        format!("{}: outcome {}; vault {:?}: before {:?}, after {:?}", describe(), run.outcome_string(), vault, hb, ha),
                    );
                }
            }
        }
    }
    // the target must hold a vault for every resource deposited into it (what AllowExisting will look at next)
    if expect == Expect::Deposited {
        for res in &bucket_resources {
            if !owners_after[target_k].contains_key(res) {
                return Outcome::fail(
                    format!("Account::{}: deposited resource has no vault in the target account", v),
                    format!("{}: outcome {}; resource {:?}", describe(), run.outcome_string(), res),
                );
            }
        }
    }

    // ---- classification ------------------------------------------------------------------------
    g.label(VARIANTS[variant]);
    g.label(match reason {
        Reason::AllAllowed => "all allowed -> deposited",
        Reason::BadgeProven => "refused, listed badge proven -> deposited",
        Reason::BadgeListedNotProven => "refused, listed badge not proven -> fails",
        Reason::RefusedNoBadge => {
            if refund_variant {
                "refused, no badge -> refunded"
            } else {
                "refused, no badge -> aborts"
            }
        }
        Reason::RefusedUnlistedBadge => {
            if refund_variant {
                "refused, unlisted badge -> refunded"
            } else {
                "refused, unlisted badge -> aborts"
            }
        }
    });
    g.label(match m.default {
        Rule::Accept => "default Accept",
        Rule::Reject => "default Reject",
        Rule::AllowExisting => "default AllowExisting",
    });
    let mixed = !refused.is_empty() && refused.len() < buckets.len();
    if mixed {
        g.label("batch with allowed and refused buckets");
    }
    if let Some(i) = named {
        g.label(if listed {
            "named badge listed"
        } else if m.ever_listed.contains(&i) {
            "named badge listed then removed"
        } else {
            "named badge never listed"
        });
        if !refused.is_empty() {
            g.label(match plan {
                0 => "refused + badge named, nothing presented",
                1 => "refused + badge named, proving proof",
                2 => "refused + badge named, other id / resource / signer presented",
                _ => "refused + badge named, proof taken out of the auth zone",
            });
        }
    }
    if buckets.iter().any(|bp| bp.content.is_empty()) {
        g.label("empty bucket");
    }
    if buckets.len() > 1 && buckets.iter().map(|bp| bp.res).collect::<BTreeSet<_>>().len() < buckets.len() {
        g.label("several buckets of one resource");
    }
    if !target.on_ledger && log.is_empty() {
        g.label("target not yet on ledger");
    }
    if owner_signs {
        g.label("owner signature present");
    }
    if m.default == Rule::AllowExisting {
        for bp in &buckets {
            if m.prefs.contains_key(&bp.res) {
                continue;
            }
            if bp.res == 0 && !m.vaults.contains(&0) {
                g.label("AllowExisting: XRD without an XRD vault");
            } else if bp.res != 0 && m.vaults.contains(&bp.res) && m.held.get(&bp.res).map(|h| h.is_empty()).unwrap_or(false) {
                g.label("AllowExisting: vault exists but is empty");
            } else if bp.res != 0 && !m.vaults.contains(&bp.res) {
                g.label("AllowExisting: no vault");
            }
        }
    }
    if buckets.iter().any(|bp| m.prefs.get(&bp.res) == Some(&true) && m.default != Rule::Accept) {
        g.label("preference Allowed overrides the default");
    }
    if buckets.iter().any(|bp| m.prefs.get(&bp.res) == Some(&false) && m.default != Rule::Reject) {
        g.label("preference Disallowed overrides the default");
    }
    g.count("configuration calls", log.len() as u64);
    g.set_nontrivial(mixed || named.is_some());
    g.sample(|| format!("{} => {:?} ({})", describe(), expect, run.outcome_string()));
    Outcome::Pass
}

pub fn check() -> Check {
    Check::new(
        "C39",
        "Account deposit rules are enforced exactly",
        "Target account (freshly allocated / preallocated / preallocated and not yet on ledger / a world account holding every resource) configured by 0-8 owner calls in one transaction (set_default_deposit_rule, set / remove_resource_preference, add / remove_authorized_depositor over 7 badges: fungible and non-fungible resource badges, three non-fungible global ids, a signature badge; owner deposits incl. empty buckets; withdraw-to-zero), then one try_deposit_or_refund / _or_abort / _batch_or_refund / _batch_or_abort of 1-4 buckets over XRD, 3 fungibles and 3 non-fungible resources (empty buckets, several buckets of one resource), badge argument None or any of the 7 badges (listed, never listed, listed then removed), with nothing / the proving proof / a proof of another id, resource or signer / a proving proof taken out of the auth zone, optionally with the owner's signature present. Oracle: the model of the statement (allowed = preference, else default rule with AllowExisting = XRD or vault exists; all allowed or listed-and-proven badge => all deposited; listed unproven => fails; else refund variants return every bucket, abort variants fail); outcome and every vault of the ledger (raw scan before / after, account vault collections read from substates) must match: target += buckets or unchanged, returned buckets observed through a witness account, source -= buckets, everything else but the fee vaults unchanged, no vault created for an undeposited resource. Non-trivial = a batch with both allowed and refused buckets, or a named badge. Distinct = distinct decoded choice sequences.",
    )
    .assume("the configuration methods are trusted to store what they are given only as far as the deposit outcome depends on it; their own events are not examined")
    .assume("a failing call is observed as a failing transaction (CommitFailure) whose error is an AccountError, or an auth error when a listed badge is not proven; RejectedDeposit events are not examined")
    .part(Part::new("deposit", 16_000, 800_000, 200, case))
    .min_nontrivial_pct(30.0)
}
