//! C43: non-fungible ids are never reused and data changes are restricted.
//!
//! Histories of 1-40 operations, grouped into transactions of 1-4 instructions groups, against the
//! four non-fungible resources of the standard world (Integer / String / Bytes / RUID ids, data
//! `NfData {a immutable, b, c mutable}`, open / badge-gated / closed roles). The oracle is a model
//! {ever-minted set, live set with data}; after every transaction the data key-value partition of
//! every resource is read raw from the database and compared with the model, and every id must be
//! in exactly one vault of the harness's own ledger scan.

use scrypto_test::prelude::*;
use std::collections::{BTreeMap, BTreeSet};
use vf_core::{Check, Gen, Outcome, Part};
use vf_world::*;

type Id = NonFungibleLocalId;

#[derive(Clone, Copy, Debug, PartialEq, Eq)]
enum Holder {
    Account(usize),
    Worktop,
}

#[derive(Clone)]
struct Res {
    ever: BTreeSet<Id>,
    live: BTreeMap<Id, (NfData, Holder)>,
}

#[derive(Clone)]
struct Model {
    res: Vec<Res>,
}

/// Static description of one world resource + the id pool operations draw from.
struct ResInfo {
    address: ResourceAddress,
    id_type: NonFungibleIdType,
    mint: Gate,
    burn: Gate,
    update: Gate,
    pool: Vec<Id>,
}

#[derive(Clone, Debug)]
enum Val {
    S(String),
    U(u64),
}

#[derive(Clone, Debug)]
enum Op {
    Mint { r: usize, entries: Vec<(Id, NfData)> },
    MintRuid { r: usize, datas: Vec<NfData> },
    MintSingle { r: usize, data: NfData },
    BurnBucket { r: usize, id: Id, from: Holder },
    BurnVault { r: usize, id: Id, acct: usize },
    BurnWorktop { r: usize },
    Update { r: usize, id: Id, field: &'static str, val: Val },
    Get { r: usize, id: Id },
    Exists { r: usize, id: Id },
    DropProofs,
}

/// What a query instruction must return when the transaction succeeds.
#[derive(Clone, Debug)]
enum Query {
    Data(usize, Id, NfData),
    Exists(usize, Id, bool),
    /// mint_single_ruid: the returned id must be fresh and carry this data
    Single(usize, NfData),
}

/// Per-transaction tentative state.
struct Tentative {
    m: Model,
    badge: bool,
    /// RUID non-fungibles minted in this transaction (ids unknown until commit): resource, data, still on the worktop
    pending: Vec<(usize, NfData, bool)>,
    queries: Vec<Query>,
}

fn gate_ok(g: Gate, badge: bool) -> bool {
    match g {
        Gate::Open => true,
        Gate::Badge => badge,
        Gate::Closed => false,
    }
}

fn fabricated_pool(t: NonFungibleIdType) -> Vec<Id> {
    match t {
        NonFungibleIdType::Integer => vec![Id::integer(100), Id::integer(101), Id::integer(102)],
        NonFungibleIdType::String => {
            vec![Id::string("x").unwrap(), Id::string("y").unwrap(), Id::string("z_long_id_0123456789").unwrap()]
        }
        NonFungibleIdType::Bytes => vec![Id::bytes(vec![7]).unwrap(), Id::bytes(vec![8]).unwrap(), Id::bytes(vec![9, 9, 9]).unwrap()],
        NonFungibleIdType::RUID => vec![Id::ruid([7u8; 32]), Id::ruid([0u8; 32]), Id::ruid([0xffu8; 32])],
    }
}

// ------------------------------------------------------------------------------------------------
// raw view of a resource's data partition

struct Raw {
    live: BTreeMap<Id, NfData>,
    /// entries with no value (burned: removed + locked)
    empty: BTreeSet<Id>,
    problems: Vec<String>,
}

fn read_raw(db: &InMemorySubstateDatabase, res: ResourceAddress) -> Raw {
    let mut raw = Raw { live: BTreeMap::new(), empty: BTreeSet::new(), problems: vec![] };
    let partition = MAIN_BASE_PARTITION.at_offset(PartitionOffset(1u8)).unwrap();
    for (key, entry) in db.list_map_values::<KeyValueEntrySubstate<ScryptoValue>>(res.as_node_id(), partition, None::<&MapKey>) {
        let id = match scrypto_decode::<Id>(&key) {
            Ok(id) => id,
            Err(e) => {
                raw.problems.push(format!("data partition key {} is not a local id: {:?}", hex::encode(&key), e));
                continue;
            }
        };
        match entry.into_value() {
            None => {
                raw.empty.insert(id);
            }
            Some(v) => match scrypto_decode::<NfData>(&scrypto_encode(&v).unwrap()) {
                Ok(d) => {
                    raw.live.insert(id, d);
                }
                Err(e) => raw.problems.push(format!("data of {} does not decode as the resource's data type: {:?} ({:?})", id, e, v)),
            },
        }
    }
    raw
}

// ------------------------------------------------------------------------------------------------
// model evaluation of one operation: Ok(()) = the instruction group succeeds, Err(reason) = it fails

fn apply(op: &Op, info: &[ResInfo], t: &mut Tentative) -> Result<(), &'static str> {
    match op {
        Op::Mint { r, entries } => {
            let i = &info[*r];
            if !gate_ok(i.mint, t.badge) {
                return Err("mint without the minter role");
            }
            if i.id_type == NonFungibleIdType::RUID {
                return Err("mint with explicit ids on a RUID resource");
            }
            for (id, data) in entries {
                if id.id_type() != i.id_type {
                    return Err("mint of an id of the wrong id type");
                }
                let res = &mut t.m.res[*r];
                if res.live.contains_key(id) {
                    return Err("mint of a live id");
                }
                if res.ever.contains(id) {
                    return Err("re-mint of a burned id");
                }
                res.ever.insert(id.clone());
                res.live.insert(id.clone(), (data.clone(), Holder::Worktop));
            }
            Ok(())
        }
        Op::MintRuid { r, datas } => {
            let i = &info[*r];
            if !gate_ok(i.mint, t.badge) {
                return Err("mint without the minter role");
            }
            if i.id_type != NonFungibleIdType::RUID {
                return Err("mint_ruid on a resource with explicit ids");
            }
            for d in datas {
                t.pending.push((*r, d.clone(), true));
            }
            Ok(())
        }
        Op::MintSingle { r, data } => {
            let i = &info[*r];
            if !gate_ok(i.mint, t.badge) {
                return Err("mint without the minter role");
            }
            if i.id_type != NonFungibleIdType::RUID {
                return Err("mint_ruid on a resource with explicit ids");
            }
            t.pending.push((*r, data.clone(), true));
            t.queries.push(Query::Single(*r, data.clone()));
            Ok(())
        }
        Op::BurnBucket { r, id, .. } | Op::BurnVault { r, id, .. } => {
            if !gate_ok(info[*r].burn, t.badge) {
                return Err("burn without the burner role");
            }
            t.m.res[*r].live.remove(id);
            Ok(())
        }
        Op::BurnWorktop { r } => {
            if !gate_ok(info[*r].burn, t.badge) {
                return Err("burn without the burner role");
            }
            t.m.res[*r].live.retain(|_, (_, h)| *h != Holder::Worktop);
            for p in t.pending.iter_mut() {
                if p.0 == *r {
                    p.2 = false;
                }
            }
            Ok(())
        }
        Op::Update { r, id, field, val } => {
            if !gate_ok(info[*r].update, t.badge) {
                return Err("update without the data-updater role");
            }
            match *field {
                "b" | "c" => {}
                "a" => return Err("update of an immutable field"),
                _ => return Err("update of an unknown field"),
            }
            let res = &mut t.m.res[*r];
            match res.live.get_mut(id) {
                Some((d, _)) => {
                    match (*field, val) {
                        ("b", Val::S(s)) => d.b = s.clone(),
                        ("c", Val::U(u)) => d.c = *u,
                        _ => unreachable!("generator pairs field and value type"),
                    }
                    Ok(())
                }
                None if res.ever.contains(id) => Err("update of a burned id"),
                None => Err("update of a never-minted id"),
            }
        }
        Op::Get { r, id } => match t.m.res[*r].live.get(id) {
            Some((d, _)) => {
                t.queries.push(Query::Data(*r, id.clone(), d.clone()));
                Ok(())
            }
            None => Err("get_non_fungible of an id that is not live"),
        },
        Op::Exists { r, id } => {
            let e = t.m.res[*r].live.contains_key(id);
            t.queries.push(Query::Exists(*r, id.clone(), e));
            Ok(())
        }
        Op::DropProofs => {
            t.badge = false;
            Ok(())
        }
    }
}

fn render_op(op: &Op, info: &[ResInfo]) -> String {
    let rn = |r: &usize| format!("{:?}", info[*r].id_type);
    match op {
        Op::Mint { r, entries } => format!(
            "mint[{}]{{{}}}",
            rn(r),
            entries.iter().map(|(id, d)| format!("{}=>({},{:?},{})", id, d.a, d.b, d.c)).collect::<Vec<_>>().join(", ")
        ),
        Op::MintRuid { r, datas } => format!("mint_ruid[{}] x{} (a={:?})", rn(r), datas.len(), datas.iter().map(|d| d.a).collect::<Vec<_>>()),
        Op::MintSingle { r, data } => format!("mint_single_ruid[{}] (a={})", rn(r), data.a),
        Op::BurnBucket { r, id, from } => format!("burn-bucket[{}] {} from {:?}", rn(r), id, from),
        Op::BurnVault { r, id, acct } => format!("burn-in-vault[{}] {} of account {}", rn(r), id, acct),
        Op::BurnWorktop { r } => format!("burn-all-on-worktop[{}]", rn(r)),
        Op::Update { r, id, field, val } => format!("update[{}] {} .{} = {:?}", rn(r), id, field, val),
        Op::Get { r, id } => format!("get_non_fungible[{}] {}", rn(r), id),
        Op::Exists { r, id } => format!("non_fungible_exists[{}] {}", rn(r), id),
        Op::DropProofs => "drop_auth_zone_regular_proofs".into(),
    }
}

fn build_manifest(w: &World, info: &[ResInfo], with_badge: bool, ops: &[Op], dest: usize) -> TransactionManifestV1 {
    let mut b = ManifestBuilder::new().lock_fee_from_faucet();
    if with_badge {
        b = b.create_proof_from_account_of_amount(w.accounts[0].address, w.badge, dec!(1));
    }
    let mut n = 0usize;
    for op in ops {
        match op {
            Op::Mint { r, entries } => {
                b = b.mint_non_fungible(info[*r].address, entries.iter().cloned());
            }
            Op::MintRuid { r, datas } => {
                b = b.mint_ruid_non_fungible(info[*r].address, datas.iter().cloned());
            }
            Op::MintSingle { r, data } => {
                let entry: ManifestValue = manifest_decode(&manifest_encode(data).unwrap()).unwrap();
                b = b.call_method(
                    info[*r].address,
                    NON_FUNGIBLE_RESOURCE_MANAGER_MINT_SINGLE_RUID_IDENT,
                    NonFungibleResourceManagerMintSingleRuidManifestInput { entry },
                );
            }
            Op::BurnBucket { r, id, from } => {
                if let Holder::Account(a) = from {
                    b = b.withdraw_non_fungibles_from_account(w.accounts[*a].address, info[*r].address, [id.clone()]);
                }
                n += 1;
                let name = format!("burn{}", n);
                b = b.take_non_fungibles_from_worktop(info[*r].address, [id.clone()], &name).burn_resource(&name);
            }
            Op::BurnVault { r, id, acct } => {
                b = b.burn_non_fungibles_in_account(w.accounts[*acct].address, info[*r].address, [id.clone()]);
            }
            Op::BurnWorktop { r } => {
                n += 1;
                let name = format!("burn{}", n);
                b = b.take_all_from_worktop(info[*r].address, &name).burn_resource(&name);
            }
            Op::Update { r, id, field, val } => {
                b = match val {
                    Val::S(s) => b.update_non_fungible_data(info[*r].address, id.clone(), *field, s.clone()),
                    Val::U(u) => b.update_non_fungible_data(info[*r].address, id.clone(), *field, *u),
                };
            }
            Op::Get { r, id } => {
                b = b.call_method(
                    info[*r].address,
                    NON_FUNGIBLE_RESOURCE_MANAGER_GET_NON_FUNGIBLE_IDENT,
                    NonFungibleResourceManagerGetNonFungibleInput { id: id.clone() },
                );
            }
            Op::Exists { r, id } => {
                b = b.call_method(
                    info[*r].address,
                    NON_FUNGIBLE_RESOURCE_MANAGER_EXISTS_IDENT,
                    NonFungibleResourceManagerExistsInput { id: id.clone() },
                );
            }
            Op::DropProofs => {
                b = b.drop_auth_zone_regular_proofs();
            }
        }
    }
    b.try_deposit_entire_worktop_or_abort(w.accounts[dest].address, None).build()
}

/// Indexes of the query instructions (get_non_fungible / non_fungible_exists / mint_single_ruid), in order.
fn query_instruction_indexes(m: &TransactionManifestV1) -> Vec<usize> {
    m.instructions
        .iter()
        .enumerate()
        .filter_map(|(i, ins)| match ins {
            InstructionV1::CallMethod(c)
                if c.method_name == NON_FUNGIBLE_RESOURCE_MANAGER_GET_NON_FUNGIBLE_IDENT
                    || c.method_name == NON_FUNGIBLE_RESOURCE_MANAGER_EXISTS_IDENT
                    || c.method_name == NON_FUNGIBLE_RESOURCE_MANAGER_MINT_SINGLE_RUID_IDENT =>
            {
                Some(i)
            }
            _ => None,
        })
        .collect()
}

fn error_family(e: &RuntimeError) -> &'static str {
    let s = format!("{:?}", e);
    for f in [
        "Unauthorized",
        "NonFungibleAlreadyExists",
        "KeyValueEntryLocked",
        "NonFungibleIdTypeDoesNotMatch",
        "InvalidNonFungibleIdType",
        "UnknownMutableFieldName",
        "NonFungibleNotFound",
    ] {
        if s.contains(f) {
            return f;
        }
    }
    "other"
}

fn expected_families(reason: &str) -> &'static [&'static str] {
    match reason {
        "mint without the minter role" | "burn without the burner role" | "update without the data-updater role" => &["Unauthorized"],
        "mint with explicit ids on a RUID resource" | "mint_ruid on a resource with explicit ids" => &["InvalidNonFungibleIdType"],
        "mint of an id of the wrong id type" => &["NonFungibleIdTypeDoesNotMatch"],
        "mint of a live id" => &["NonFungibleAlreadyExists"],
        "re-mint of a burned id" | "update of a burned id" => &["KeyValueEntryLocked"],
        "update of an immutable field" | "update of an unknown field" => &["UnknownMutableFieldName"],
        "update of a never-minted id" | "get_non_fungible of an id that is not live" => &["NonFungibleNotFound"],
        _ => &[],
    }
}

/// `&'static str` labels for the failure reasons (labels must be static).
fn label_of(reason: &'static str, same_tx: bool) -> &'static str {
    match (reason, same_tx) {
        ("re-mint of a burned id", true) => "attempt: re-mint of an id burned in the same transaction",
        ("mint of a live id", true) => "attempt: mint of an id minted in the same transaction",
        _ => reason,
    }
}

// ------------------------------------------------------------------------------------------------

struct Ctx {
    info: Vec<ResInfo>,
    log: Vec<String>,
    next_a: u64,
}

fn pick_id(g: &mut Gen, info: &[ResInfo], r: usize, m: &Model) -> Id {
    match g.weighted(&[8, 3, 1]) {
        0 => g.pick(&info[r].pool).clone(),
        1 => {
            // an id that was burned (in an earlier transaction or in this one), if there is one
            let burned: Vec<&Id> = m.res[r].ever.iter().filter(|id| !m.res[r].live.contains_key(*id)).collect();
            if burned.is_empty() {
                g.pick(&info[r].pool).clone()
            } else {
                (*g.pick(&burned)).clone()
            }
        }
        _ => {
            let other = (r + 1 + g.index(3)) % 4;
            g.pick(&info[other].pool).clone()
        }
    }
}

fn gen_data(g: &mut Gen, cx: &mut Ctx) -> NfData {
    cx.next_a += 1;
    let b = match g.below(4) {
        0 => String::new(),
        1 => "x".to_string(),
        2 => format!("data-{}", cx.next_a),
        _ => "a somewhat longer piece of non-fungible data, \u{e9}\u{4e16}".to_string(),
    };
    NfData { a: cx.next_a, b, c: g.below(5) }
}

fn gen_op(g: &mut Gen, cx: &mut Ctx, t: &Tentative, primary: usize) -> Op {
    let r = if g.chance(1, 8) { g.index(4) } else { primary };
    let is_ruid = cx.info[r].id_type == NonFungibleIdType::RUID;
    // simplest first: a read-only query
    let kind = g.weighted(&[2, 2, if is_ruid { 2 } else { 7 }, 6, 6, if is_ruid { 5 } else { 1 }, if is_ruid { 3 } else { 0 }, 1, 1]);
    match kind {
        0 => Op::Exists { r, id: pick_id(g, &cx.info, r, &t.m) },
        1 => Op::Get { r, id: pick_id(g, &cx.info, r, &t.m) },
        2 => {
            let n = 1 + g.weighted(&[6, 2, 1]);
            let mut entries: Vec<(Id, NfData)> = Vec::new();
            for _ in 0..n {
                let id = pick_id(g, &cx.info, r, &t.m);
                if entries.iter().any(|(e, _)| *e == id) {
                    continue;
                }
                let d = gen_data(g, cx);
                entries.push((id, d));
            }
            Op::Mint { r, entries }
        }
        3 => {
            // burn something live from the pool (or anything live), else fall back to a query
            let res = &t.m.res[r];
            let mut cands: Vec<&Id> = cx.info[r].pool.iter().filter(|id| res.live.contains_key(*id)).collect();
            if cands.is_empty() || g.chance(1, 6) {
                cands = res.live.keys().collect();
            }
            if cands.is_empty() {
                return Op::Exists { r, id: pick_id(g, &cx.info, r, &t.m) };
            }
            let id = (*g.pick(&cands)).clone();
            let holder = res.live[&id].1;
            match holder {
                Holder::Account(a) if g.bool() => Op::BurnVault { r, id, acct: a },
                h => Op::BurnBucket { r, id, from: h },
            }
        }
        4 => {
            let id = pick_id(g, &cx.info, r, &t.m);
            let (field, val) = match g.weighted(&[4, 4, 4, 1]) {
                0 => ("b", Val::S(g.pick(&["", "updated", "another value \u{1F600}"]).to_string())),
                1 => ("c", Val::U(*g.pick(&[0u64, 1, 77, u64::MAX]))),
                2 => ("a", Val::U(g.below(1000))),
                _ => (*g.pick(&["zz", "", "B", "a "]), Val::U(5)),
            };
            Op::Update { r, id, field, val }
        }
        5 => {
            let n = 1 + g.index(3);
            Op::MintRuid { r, datas: (0..n).map(|_| gen_data(g, cx)).collect() }
        }
        6 => Op::MintSingle { r, data: gen_data(g, cx) },
        7 => {
            let something_on_worktop =
                t.m.res[r].live.values().any(|(_, h)| *h == Holder::Worktop) || t.pending.iter().any(|p| p.0 == r && p.2);
            if something_on_worktop {
                Op::BurnWorktop { r }
            } else {
                Op::Exists { r, id: pick_id(g, &cx.info, r, &t.m) }
            }
        }
        _ => Op::DropProofs,
    }
}

fn check_state(w: &World, cx: &Ctx, m: &Model, when: &str) -> Result<Vec<Raw>, vf_core::Failure> {
    let fail = |sig: &str, msg: String| vf_core::Failure { signature: sig.to_string(), message: format!("{} [{}]; history: {}", msg, when, cx.log.join(" | ")) };
    let scan = Totals::scan(w.db());
    if !scan.problems.is_empty() {
        return Err(fail("ledger scan: a non-fungible is held twice or a vault is inconsistent", format!("{:?}", scan.problems)));
    }
    let mut raws = Vec::new();
    for (r, i) in cx.info.iter().enumerate() {
        let raw = read_raw(w.db(), i.address);
        if !raw.problems.is_empty() {
            return Err(fail("non-fungible data partition holds an entry that does not decode", format!("{:?} resource: {:?}", i.id_type, raw.problems)));
        }
        for id in raw.live.keys().chain(raw.empty.iter()) {
            if id.id_type() != i.id_type {
                return Err(fail(
                    "non-fungible data partition holds an id of another id type than the resource's",
                    format!("{:?} resource holds {}", i.id_type, id),
                ));
            }
        }
        let model_live: BTreeMap<Id, NfData> = m.res[r].live.iter().map(|(k, (d, _))| (k.clone(), d.clone())).collect();
        if raw.live != model_live {
            let mut diff = Vec::new();
            for (id, d) in &model_live {
                match raw.live.get(id) {
                    None => diff.push(format!("{}: model {:?}, stored nothing", id, d)),
                    Some(s) if s != d => diff.push(format!("{}: model {:?}, stored {:?}", id, d, s)),
                    _ => {}
                }
            }
            for (id, s) in &raw.live {
                if !model_live.contains_key(id) {
                    diff.push(format!("{}: not live in the model (ever minted: {}), stored {:?}", id, m.res[r].ever.contains(id), s));
                }
            }
            return Err(fail(
                "stored non-fungible data differs from the model {ever-minted, live, data}",
                format!("{:?} resource: {}", i.id_type, diff.join("; ")),
            ));
        }
        // every live id sits in exactly one vault (harness scan), nothing else does
        let in_vaults = scan.non_fungible_ids.get(&i.address).cloned().unwrap_or_default();
        let live_ids: BTreeSet<Id> = model_live.keys().cloned().collect();
        if in_vaults != live_ids {
            return Err(fail(
                "ids held in vaults differ from the live ids of the model",
                format!(
                    "{:?} resource: in vaults but not live {:?}; live but in no vault {:?}",
                    i.id_type,
                    in_vaults.difference(&live_ids).map(|x| x.to_string()).collect::<Vec<_>>(),
                    live_ids.difference(&in_vaults).map(|x| x.to_string()).collect::<Vec<_>>()
                ),
            ));
        }
        raws.push(raw);
    }
    Ok(raws)
}

fn run_case(g: &mut Gen, w: &mut World) -> Outcome {
    // static info + initial model (read from the frozen world)
    let mut cx = Ctx { info: Vec::new(), log: Vec::new(), next_a: 1000 };
    let mut model = Model { res: Vec::new() };
    for nf in &w.non_fungibles {
        let mut pool: Vec<Id> = nf.initial_ids.iter().filter(|(a, _)| *a == 0).map(|(_, id)| id.clone()).collect();
        pool.extend(fabricated_pool(nf.id_type));
        cx.info.push(ResInfo { address: nf.address, id_type: nf.id_type, mint: nf.mint, burn: nf.burn, update: nf.update_data, pool });
        let raw = read_raw(w.db(), nf.address);
        let mut res = Res { ever: BTreeSet::new(), live: BTreeMap::new() };
        for (acct, id) in &nf.initial_ids {
            match raw.live.get(id) {
                Some(d) => {
                    res.ever.insert(id.clone());
                    res.live.insert(id.clone(), (d.clone(), Holder::Account(*acct)));
                }
                None => return Outcome::fail("harness: world id without stored data", format!("{}", id)),
            }
        }
        if raw.live.len() != res.live.len() || !raw.empty.is_empty() || !raw.problems.is_empty() {
            return Outcome::fail("harness: the frozen world's data partition is not the initial supply", format!("{:?}", nf.id_type));
        }
        model.res.push(res);
    }
    let proofs: Vec<NonFungibleGlobalId> = w.accounts.iter().map(|a| a.badge()).collect();
    let strict = std::env::var_os("VF_C43_STRICT").is_some();

    let mut budget = 1 + g.len(39);
    let mut txs = 0u64;
    let mut reason_mismatch = 0u64;
    while budget > 0 {
        let primary = g.index(4);
        let with_badge = match cx.info[primary].mint {
            Gate::Badge => !g.chance(1, 4),
            _ => g.chance(1, 4),
        };
        let dest = g.index(4);
        let k = (1 + g.index(4)).min(budget);
        let mut t = Tentative { m: model.clone(), badge: with_badge, pending: Vec::new(), queries: Vec::new() };
        let mut ops: Vec<Op> = Vec::new();
        let mut expected_failure: Option<&'static str> = None;
        for _ in 0..k {
            let op = gen_op(g, &mut cx, &t, primary);
            budget -= 1;
            let before = t.m.clone();
            let verdict = apply(&op, &cx.info, &mut t);
            // class labels
            match (&op, verdict) {
                (Op::Mint { r, entries }, Err(reason)) => {
                    let same_tx = entries.iter().any(|(id, _)| {
                        let pre = &model.res[*r];
                        let now = &before.res[*r];
                        (pre.live.contains_key(id) != now.live.contains_key(id)) || (pre.ever.contains(id) != now.ever.contains(id))
                    });
                    g.label(label_of(reason, same_tx));
                    if reason == "re-mint of a burned id" {
                        g.nontrivial();
                    }
                }
                (_, Err(reason)) => {
                    g.label(label_of(reason, false));
                    if reason == "update of an immutable field" {
                        g.nontrivial();
                    }
                }
                (Op::Mint { .. }, Ok(())) => g.label("ok: mint of fresh explicit ids"),
                (Op::MintRuid { .. }, Ok(())) | (Op::MintSingle { .. }, Ok(())) => g.label("ok: RUID mint"),
                (Op::BurnBucket { .. }, Ok(())) => g.label("ok: burn from a bucket"),
                (Op::BurnVault { .. }, Ok(())) => g.label("ok: burn inside a vault"),
                (Op::BurnWorktop { .. }, Ok(())) => g.label("ok: burn of everything minted in the transaction"),
                (Op::Update { .. }, Ok(())) => g.label("ok: update of a mutable field"),
                (Op::Get { .. }, Ok(())) => g.label("ok: get_non_fungible of a live id"),
                (Op::Exists { r, id }, Ok(())) => {
                    let res = &before.res[*r];
                    g.label(if res.live.contains_key(id) {
                        "ok: non_fungible_exists of a live id"
                    } else if res.ever.contains(id) {
                        "ok: non_fungible_exists of a burned id"
                    } else {
                        "ok: non_fungible_exists of a never-minted id"
                    });
                }
                (Op::DropProofs, Ok(())) => {}
            }
            ops.push(op);
            if let Err(reason) = verdict {
                expected_failure = Some(reason);
                break; // the failing instruction is the last one of its transaction
            }
        }
        txs += 1;
        let rendered = format!(
            "tx{}{}[{}] -> account {}",
            txs,
            if with_badge { " +badge" } else { "" },
            ops.iter().map(|o| render_op(o, &cx.info)).collect::<Vec<_>>().join("; "),
            dest
        );
        cx.log.push(rendered);

        let manifest = build_manifest(w, &cx.info, with_badge, &ops, dest);
        let qidx = query_instruction_indexes(&manifest);
        let run = w.run(manifest, proofs.clone());
        let hist = |cx: &Ctx| cx.log.join(" | ");
        if let Some(p) = &run.panic {
            return Outcome::fail("host panic while executing a non-fungible resource transaction", format!("{}; history: {}", p, hist(&cx)));
        }
        if !run.is_commit() {
            return Outcome::fail("harness: generated transaction was not committed", format!("{}; history: {}", run.outcome_string(), hist(&cx)));
        }
        match (expected_failure, run.is_success()) {
            (Some(reason), true) => {
                let sig = match reason {
                    "mint of a live id" | "re-mint of a burned id" => "mint of an id that was minted before succeeds",
                    "mint of an id of the wrong id type" | "mint with explicit ids on a RUID resource" | "mint_ruid on a resource with explicit ids" => {
                        "mint with an id of another type than the resource's id type succeeds"
                    }
                    "update of an immutable field" | "update of an unknown field" => "update_non_fungible_data of a field that is not declared mutable succeeds",
                    "update of a burned id" | "update of a never-minted id" => "update_non_fungible_data of an id that is not live succeeds",
                    "get_non_fungible of an id that is not live" => "get_non_fungible of an id that is not live succeeds",
                    _ => "operation without the required role succeeds",
                };
                return Outcome::fail(sig, format!("expected failure ({}) of the last instruction, got CommitSuccess; history: {}", reason, hist(&cx)));
            }
            (Some(reason), false) => {
                let fam = error_family(run.failure().unwrap());
                if !expected_families(reason).contains(&fam) {
                    reason_mismatch += 1;
                    if strict {
                        return Outcome::fail(
                            "strict mode: failure reason differs from the model's",
                            format!("expected {} ({:?}), got {}; history: {}", reason, expected_families(reason), run.outcome_string(), hist(&cx)),
                        );
                    }
                }
                // nothing may have changed
                if let Err(f) = check_state(w, &cx, &model, "after a failed transaction") {
                    return Outcome::Fail(f);
                }
            }
            (None, false) => {
                return Outcome::fail(
                    "transaction of operations the model allows fails",
                    format!("{}; history: {}", run.outcome_string(), hist(&cx)),
                );
            }
            (None, true) => {
                // commit the tentative model: everything on the worktop goes to `dest`
                let mut m = t.m;
                for res in m.res.iter_mut() {
                    for (_, h) in res.live.values_mut() {
                        if *h == Holder::Worktop {
                            *h = Holder::Account(dest);
                        }
                    }
                }
                // learn the RUID ids from the raw partition: new live ids must be fresh and carry the minted data
                let outputs: Vec<InstructionOutput> = match &run.commit().unwrap().outcome {
                    TransactionOutcome::Success(o) => o.clone(),
                    _ => unreachable!(),
                };
                let mut new_ids_by_a: BTreeMap<u64, Id> = BTreeMap::new();
                for r in 0..cx.info.len() {
                    let res_address = cx.info[r].address;
                    let expected: Vec<&NfData> = t.pending.iter().filter(|p| p.0 == r && p.2).map(|p| &p.1).collect();
                    let minted_total = t.pending.iter().filter(|p| p.0 == r).count();
                    if minted_total == 0 {
                        continue;
                    }
                    let raw = read_raw(w.db(), res_address);
                    let new_live: Vec<(&Id, &NfData)> = raw.live.iter().filter(|(id, _)| !m.res[r].live.contains_key(*id)).collect();
                    for (id, _) in &new_live {
                        if m.res[r].ever.contains(*id) {
                            return Outcome::fail(
                                "RUID mint produced an id that was minted before",
                                format!("{} ; history: {}", id, hist(&cx)),
                            );
                        }
                    }
                    if new_live.len() != expected.len() {
                        return Outcome::fail(
                            "RUID mint: number of new live ids differs from the number minted and kept",
                            format!("{} new live ids {:?}, expected {}; history: {}", new_live.len(), new_live.iter().map(|(i, _)| i.to_string()).collect::<Vec<_>>(), expected.len(), hist(&cx)),
                        );
                    }
                    let new_empty: Vec<Id> = raw.empty.iter().filter(|id| !m.res[r].ever.contains(*id)).cloned().collect();
                    for d in &expected {
                        match new_live.iter().find(|(_, s)| s.a == d.a) {
                            Some((id, s)) if *s == *d => {
                                new_ids_by_a.insert(d.a, (*id).clone());
                            }
                            other => {
                                return Outcome::fail(
                                    "RUID mint: stored data of a new id differs from the minted data",
                                    format!("minted {:?}, found {:?}; history: {}", d, other, hist(&cx)),
                                )
                            }
                        }
                    }
                    for (id, d) in new_live {
                        m.res[r].ever.insert(id.clone());
                        m.res[r].live.insert(id.clone(), (d.clone(), Holder::Account(dest)));
                        if cx.info[r].pool.len() < 14 {
                            cx.info[r].pool.push(id.clone());
                        }
                    }
                    for id in new_empty {
                        // minted and burned inside this transaction
                        m.res[r].ever.insert(id.clone());
                        if cx.info[r].pool.len() < 14 {
                            cx.info[r].pool.push(id);
                        }
                    }
                }
                // query outputs
                if qidx.len() != t.queries.len() {
                    return Outcome::fail("harness: query bookkeeping", format!("{} vs {}", qidx.len(), t.queries.len()));
                }
                for (q, ix) in t.queries.iter().zip(qidx.iter()) {
                    let bytes = match outputs.get(*ix) {
                        Some(InstructionOutput::CallReturn(b)) => b.clone(),
                        other => return Outcome::fail("harness: query instruction without output", format!("{:?}", other)),
                    };
                    match q {
                        Query::Exists(r, id, e) => {
                            let got: Result<bool, _> = scrypto_decode(&bytes);
                            if got.as_ref().ok() != Some(e) {
                                return Outcome::fail(
                                    "non_fungible_exists disagrees with the model's live set",
                                    format!("{:?} resource, id {}: expected {}, got {:?}; history: {}", cx.info[*r].id_type, id, e, got, hist(&cx)),
                                );
                            }
                        }
                        Query::Data(r, id, d) => {
                            let got: Result<NfData, _> = scrypto_decode(&bytes);
                            if got.as_ref().ok() != Some(d) {
                                return Outcome::fail(
                                    "get_non_fungible disagrees with the model's data",
                                    format!("{:?} resource, id {}: expected {:?}, got {:?}; history: {}", cx.info[*r].id_type, id, d, got, hist(&cx)),
                                );
                            }
                        }
                        Query::Single(r, d) => {
                            let got: Result<(Own, Id), _> = scrypto_decode(&bytes);
                            let still_live = t.pending.iter().any(|p| p.0 == *r && p.1.a == d.a && p.2);
                            match got {
                                Ok((_, id)) => {
                                    if id.id_type() != NonFungibleIdType::RUID || model.res[*r].ever.contains(&id) {
                                        return Outcome::fail(
                                            "RUID mint produced an id that was minted before",
                                            format!("mint_single_ruid returned {}; history: {}", id, hist(&cx)),
                                        );
                                    }
                                    if still_live && new_ids_by_a.get(&d.a) != Some(&id) {
                                        return Outcome::fail(
                                            "mint_single_ruid returned another id than the one stored",
                                            format!("returned {}, stored {:?}; history: {}", id, new_ids_by_a.get(&d.a), hist(&cx)),
                                        );
                                    }
                                }
                                Err(e) => return Outcome::fail("harness: mint_single_ruid output does not decode", format!("{:?}", e)),
                            }
                        }
                    }
                }
                model = m;
                if let Err(f) = check_state(w, &cx, &model, "after a successful transaction") {
                    return Outcome::Fail(f);
                }
            }
        }
    }
    g.count("transactions", txs);
    g.count("failure reason differs from the model's (not judged)", reason_mismatch);
    g.sample(|| cx.log.join(" | "));
    Outcome::Pass
}

fn case(g: &mut Gen) -> Outcome {
    with_world("c43", no_genesis, no_build, |w| run_case(g, w))
}

/// Minimal histories found while proving the check sensitive (each one exposes one deliberate
/// breakage of the resource manager): burn then re-mint in one transaction; update of the immutable
/// field; mint of a String id on the Integer resource.
fn fixed_tapes() -> Vec<Vec<u8>> {
    ["890d8000008000ed0000006d000000002800", "89070000000000e35600000000c0000000006e00009e", "000000000000002800eb"]
        .iter()
        .map(|h| hex::decode(h).unwrap())
        .collect()
}

pub fn check() -> Check {
    Check::new(
        "C43",
        "Non-fungible ids are never reused and data changes are restricted",
        "histories of 1-40 operations in transactions of 1-4 (the first operation the model rejects ends its transaction) on the standard world's four non-fungible resources (Integer: all roles open; String: mint/burn/update need a badge proof; Bytes: update closed; RUID: open): mint of 1-3 explicit ids from a per-resource pool of 6 (3 live at start, 3 never minted; 1 in 12 draws takes an id of another resource's type), mint_ruid of 1-3, mint_single_ruid, burn from a bucket (withdrawn from the holding account or taken from the worktop), burn inside the account's vault, burn of everything minted in the transaction, update_non_fungible_data of b / c (mutable), a (immutable) or an unknown field name on live / burned / never-minted ids, get_non_fungible, non_fungible_exists, dropping the badge proof mid-transaction; with and without the badge proof. Non-trivial = the history attempts a re-mint of a burned id (roles satisfied) or an update of the immutable field (roles satisfied). Distinct = distinct decoded choice sequences. Part empty-data: histories of 1-20 operations in transactions of 1-3 on two resources created by the part's own world set-up whose data type has no fields (Integer and String ids, all roles open, 3 initial ids): mint of 1-2 ids from a 6-id pool (biased to burned ids; 1 in 11 of another id type), burn from a bucket / inside the vault / of an id minted in the same transaction, update_non_fungible_data with any field name (always an unknown field), get_non_fungible, non_fungible_exists; non-trivial = a re-mint of a burned id is attempted.",
    )
    .assume("initial data of the world's non-fungibles is read from the frozen world's data partition once per case; the holder of every id is tracked by the model (withdrawals are signed by all four accounts)")
    .assume("the representation of a burned id (entry without value) is only used to learn RUID ids that were minted and burned inside one transaction; the verdicts rest on transaction outcomes, returned values, the raw live entries and the vault scan")
    .part(Part::new("histories", 5_000, 300_000, 700, case).fixed(fixed_tapes()))
    .part(crate::c43e::part())
    .min_nontrivial_pct(15.0)
}
