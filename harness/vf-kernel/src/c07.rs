//! C07 part (a): the transaction tracker ring never loses the record of an unexpired intent.
//!
//! `TransactionTrackerSubstateV1` (the ring origin: start epoch + start partition) is driven exactly
//! as `System::update_transaction_tracker` drives it on every commit: each committed intent is
//! written into `partition_for_expiry_epoch(expiry)`, then — at most once per commit — the ring is
//! advanced when `next_epoch >= start_epoch + epochs_per_partition` and the partition it returns
//! is deleted. The reference is a plain set of (intent, expiry) pairs; the look-up performed is the
//! one `validate_intent_hash_uncosted` performs at boot.

use radix_common::prelude::*;
use radix_engine::blueprints::transaction_tracker::{
    TransactionTrackerSubstateV1, EPOCHS_PER_PARTITION, PARTITION_RANGE_END, PARTITION_RANGE_START,
};
use radix_transactions::validation::TransactionValidationConfig;
use std::collections::{BTreeMap, BTreeSet};
use vf_core::{catch, Check, Failure, Gen, Outcome, Part};

struct Record {
    id: u64,
    expiry: u64,
    committed_at: u64,
    boundary: bool,
}

struct World {
    tracker: TransactionTrackerSubstateV1,
    /// What the tracker node's partitions hold: partition number -> intent ids.
    partitions: BTreeMap<u8, BTreeSet<u64>>,
    /// Reference: every committed intent that validation could still admit.
    live: Vec<Record>,
    current: u64,
    genesis: u64,
    advances: u64,
    commits: u64,
    lookups: u64,
    late_lookups: u64,
    boundary_records: u64,
    seam_writes: u64,
    log: Vec<String>,
}

fn fail(sig: &str, msg: String) -> Failure {
    Failure { signature: sig.to_string(), message: msg }
}

impl World {
    fn describe(&self) -> String {
        format!(
            "genesis epoch {}, current epoch {}, tracker {{start_epoch: {}, start_partition: {}}}, {} advances; events: {}",
            self.genesis,
            self.current,
            self.tracker.start_epoch,
            self.tracker.start_partition,
            self.advances,
            self.log.join("; ")
        )
    }

    fn partition_of(&self, expiry: u64) -> Result<Option<u8>, Failure> {
        let t = self.tracker.clone();
        catch(move || t.partition_for_expiry_epoch(Epoch::of(expiry)))
            .map_err(|p| fail("TransactionTrackerSubstateV1::partition_for_expiry_epoch panics", format!("expiry {}: {} ({})", expiry, p, self.describe())))
    }

    /// The boot-time look-up of `validate_intent_hash_uncosted`: is the intent recorded as committed?
    fn recorded(&mut self, id: u64, expiry: u64) -> Result<bool, Failure> {
        self.lookups += 1;
        match self.partition_of(expiry)? {
            None => Err(fail(
                "TransactionTrackerSubstateV1::partition_for_expiry_epoch is None for an expiry epoch that validation admits",
                format!("expiry {} with current epoch {} ({})", expiry, self.current, self.describe()),
            )),
            Some(p) => Ok(self.partitions.get(&p).map(|s| s.contains(&id)).unwrap_or(false)),
        }
    }

    /// Every committed intent whose validity window could still admit it must be found.
    fn check_live(&mut self) -> Result<(), Failure> {
        let current = self.current;
        self.live.retain(|r| r.expiry > current);
        for i in 0..self.live.len() {
            let (id, expiry, at) = (self.live[i].id, self.live[i].expiry, self.live[i].committed_at);
            if current >= at + 100 {
                self.late_lookups += 1;
            }
            if !self.recorded(id, expiry)? {
                return Err(fail(
                    "transaction tracker ring: the record of an unexpired committed intent is no longer found",
                    format!(
                        "intent #{} committed at epoch {} with expiry epoch {} is still admissible at epoch {} but partition_for_expiry_epoch(expiry) = {:?} does not hold it ({})",
                        id,
                        at,
                        expiry,
                        current,
                        self.partition_of(expiry).ok().flatten(),
                        self.describe()
                    ),
                ));
            }
        }
        Ok(())
    }

    /// One committed transaction, as `update_transaction_tracker(track, next_epoch, nullifications, _)`.
    fn commit(&mut self, intents: &[(u64, u64)], next_epoch: u64) -> Result<bool, Failure> {
        self.commits += 1;
        for (id, expiry) in intents {
            let p = match self.partition_of(*expiry)? {
                Some(p) => p,
                None => {
                    return Err(fail(
                        "TransactionTrackerSubstateV1::partition_for_expiry_epoch is None for an expiry epoch that validation admits",
                        format!("commit of intent #{} with expiry {} at epoch {} ({})", id, expiry, self.current, self.describe()),
                    ))
                }
            };
            if p == PARTITION_RANGE_END || p == PARTITION_RANGE_START {
                self.seam_writes += 1;
            }
            self.partitions.entry(p).or_default().insert(*id);
        }
        let mut advanced = false;
        if next_epoch >= self.tracker.start_epoch + self.tracker.epochs_per_partition {
            let t = &mut self.tracker;
            let discarded = catch(move || t.advance())
                .map_err(|p| fail("TransactionTrackerSubstateV1::advance panics", format!("{} ({})", p, self.describe())))?;
            self.partitions.remove(&discarded);
            self.advances += 1;
            advanced = true;
        }
        self.current = next_epoch;
        Ok(advanced)
    }

    /// `n` round-update commits that each move the epoch on by one (no intents).
    fn epochs(&mut self, n: u64) -> Result<(), Failure> {
        for _ in 0..n {
            let next = self.current + 1;
            let advanced = self.commit(&[], next)?;
            // the ring state only changes on an advance; expiry only matters through `live`
            if advanced && !self.live.is_empty() {
                self.check_live()?;
            }
        }
        self.check_live()
    }
}

fn gen_expiry(g: &mut Gen, w: &World, max_range: u64) -> (u64, &'static str) {
    let lo = w.current + 1;
    let hi = w.current + max_range;
    let clamp = |e: u64| e.clamp(lo, hi);
    let per = EPOCHS_PER_PARTITION;
    match g.weighted(&[3, 3, 2, 6, 5]) {
        0 => (lo + g.below(3), "just after the current epoch"),
        1 => (g.range_u64(lo, hi), "uniform"),
        2 => (hi - g.below(3).min(max_range - 1), "end of the admitted range"),
        3 => {
            // next to a partition boundary: boundaries sit at genesis + 100*m
            let base = g.range_u64(lo, hi);
            let b = w.genesis + (base.saturating_sub(w.genesis) / per) * per + if g.bool() { per } else { 0 };
            let d = g.range(-1, 1);
            (clamp((b as i128 + d) as u64), "partition boundary")
        }
        _ => {
            // the ring seam: the block stored in the last partition (255) or the first one (65)
            let n = (PARTITION_RANGE_END - PARTITION_RANGE_START) as u64 + 1;
            let start_index = w.advances % n;
            let blocks_to_last = (n - 1 + n - start_index) % n;
            let block_start = w.tracker.start_epoch + blocks_to_last * per;
            let e = match g.below(4) {
                0 => block_start,
                1 => block_start + per - 1,
                2 => block_start + per,
                _ => block_start + g.below(2 * per),
            };
            (clamp(e), "ring seam")
        }
    }
}

fn case(g: &mut Gen) -> Outcome {
    let max_range = TransactionValidationConfig::latest().max_epoch_range;
    let per = EPOCHS_PER_PARTITION;
    let ring = (PARTITION_RANGE_END - PARTITION_RANGE_START) as u64 + 1;

    let genesis = match g.weighted(&[3, 2, 2]) {
        0 => g.below(3),
        1 => *g.pick(&[99u64, 100, 101, 255, 256, 19_099, 19_100]),
        _ => g.below(1_000_000),
    };
    // as TransactionTrackerBlueprint::create builds it
    let tracker = TransactionTrackerSubstateV1 {
        start_epoch: genesis,
        start_partition: PARTITION_RANGE_START,
        partition_range_start_inclusive: PARTITION_RANGE_START,
        partition_range_end_inclusive: PARTITION_RANGE_END,
        epochs_per_partition: EPOCHS_PER_PARTITION,
    };
    let mut w = World {
        tracker,
        partitions: BTreeMap::new(),
        live: Vec::new(),
        current: genesis,
        genesis,
        advances: 0,
        commits: 0,
        lookups: 0,
        late_lookups: 0,
        boundary_records: 0,
        seam_writes: 0,
        log: Vec::new(),
    };

    // ---- age the ring: quiet epochs before the interesting part -------------------------------
    let aged_partitions = match g.weighted(&[4, 3, 5, 2]) {
        0 => 0,
        1 => g.below(6),
        // so that the last partition (255) is within the 86 partitions an expiry can reach
        2 => g.range_u64(ring - 88, ring + 2),
        _ => g.below(2 * ring + 2),
    };
    let extra = g.below(per);
    let quiet = aged_partitions * per + extra;
    if quiet > 0 {
        w.log.push(format!("{} quiet epochs", quiet));
        if let Err(f) = w.epochs(quiet) {
            return Outcome::Fail(f);
        }
    }

    let steps = 1 + g.len(40);
    let mut next_id = 0u64;
    for _ in 0..steps {
        match g.weighted(&[6, 2, 4]) {
            0 => {
                // a user transaction: validated against the current epoch, committed in it
                let n = 1 + g.below(3);
                let mut intents = Vec::new();
                for _ in 0..n {
                    let (expiry, class) = gen_expiry(g, &w, max_range);
                    g.label(class);
                    let off = (expiry + per - w.genesis % per) % per;
                    let boundary = off == 0 || off == per - 1 || off == 1;
                    next_id += 1;
                    intents.push((next_id, expiry, boundary));
                }
                // validation admits current < expiry <= current + max_epoch_range: the whole range is covered
                for e in [w.current + 1, w.current + max_range] {
                    match w.partition_of(e) {
                        Err(f) => return Outcome::Fail(f),
                        Ok(None) => {
                            return Outcome::fail(
                                "TransactionTrackerSubstateV1::partition_for_expiry_epoch is None for an expiry epoch that validation admits",
                                format!("expiry {} with current epoch {} ({})", e, w.current, w.describe()),
                            )
                        }
                        Ok(Some(_)) => {}
                    }
                }
                // boot: a fresh intent is not reported as committed
                for (id, expiry, _) in &intents {
                    match w.recorded(*id, *expiry) {
                        Err(f) => return Outcome::Fail(f),
                        Ok(true) => return Outcome::fail("harness: fresh intent already recorded", w.describe()),
                        Ok(false) => {}
                    }
                }
                w.log.push(format!("epoch {}: commit {:?}", w.current, intents.iter().map(|(i, e, _)| format!("#{} exp {}", i, e)).collect::<Vec<_>>()));
                let plain: Vec<(u64, u64)> = intents.iter().map(|(i, e, _)| (*i, *e)).collect();
                let cur = w.current;
                if let Err(f) = w.commit(&plain, cur) {
                    return Outcome::Fail(f);
                }
                for (id, expiry, boundary) in intents {
                    if boundary {
                        w.boundary_records += 1;
                    }
                    w.live.push(Record { id, expiry, committed_at: cur, boundary });
                }
                if let Err(f) = w.check_live() {
                    return Outcome::Fail(f);
                }
            }
            1 => {
                w.log.push("1 epoch".into());
                if let Err(f) = w.epochs(1) {
                    return Outcome::Fail(f);
                }
            }
            _ => {
                let n = match g.weighted(&[3, 4, 3, 2]) {
                    0 => 2 + g.below(20),
                    1 => per - 2 + g.below(5),
                    2 => (1 + g.below(20)) * per - 1 + g.below(3),
                    _ => g.below(max_range + 200),
                };
                w.log.push(format!("{} epochs", n));
                if let Err(f) = w.epochs(n) {
                    return Outcome::Fail(f);
                }
            }
        }
    }

    if w.late_lookups > 0 {
        g.nontrivial();
        g.label("record looked up >= 100 epochs after its commit");
    }
    if w.boundary_records > 0 {
        g.nontrivial();
        g.label("expiry within 1 epoch of a partition boundary");
    }
    if w.seam_writes > 0 {
        g.label("record written to partition 255 or 65");
    }
    if w.advances >= ring {
        g.label("ring wrapped at least once");
    }
    if w.live.iter().any(|r| r.boundary) {
        g.label("boundary record still live at the end");
    }
    g.count("commits", w.commits);
    g.count("advances", w.advances);
    g.count("lookups", w.lookups);
    g.sample(|| w.describe());
    Outcome::Pass
}

pub fn c07_ring_part() -> Part {
    Part::new("ring", 400_000, 20_000_000, 400, case)
}

pub fn check() -> Check {
    Check::new(
        "C07",
        "An intent can be committed at most once before it expires",
        "part ring (pure model of the tracker ring): a TransactionTrackerSubstateV1 created as the blueprint creates it (genesis epoch 0..10^6), aged by 0..384 partitions of quiet epochs, then 1-41 steps of user commits (1-3 intents each, expiry anywhere in (current, current + max_epoch_range], biased to partition boundaries +-1, to both ends of the admitted range and to the ring seam 255->65), single epoch changes and bursts of 2..8840 epoch changes; every commit is applied as update_transaction_tracker applies it (write, then at most one advance + partition delete). After every commit that advances the ring, and after every step, each committed intent with current < expiry is looked up as validate_intent_hash_uncosted does. Non-trivial = a record looked up >= 100 epochs after its commit, or an expiry within 1 epoch of a partition boundary. Distinct = distinct decoded choice sequences.",
    )
    .assume("part ring re-implements the ten lines of update_transaction_tracker that drive the substate (write to partition_for_expiry_epoch, one advance per commit when next_epoch >= start_epoch + epochs_per_partition, delete the returned partition); a defect in that caller itself is only visible to the engine-level part")
    .assume("epochs change by one per committed round-update transaction (protocol behaviour); epoch jumps are not generated")
    .part(c07_ring_part())
    .min_nontrivial_pct(20.0)
}
